"""C02 - integral forms assemble exactly the sums they denote, on every code path.

A post-hook on ``IntegralForm.assemble`` recomputes every assembled vector/matrix with naive loops
(vmon.oracles.assembly).  The workload drives all field kinds, grad flags, block modes, None blocks, dual field sizes,
uniform regions and the parallel flag; the Form expression API is compared with the equivalent array form under a
stressed thread scheduler (recorded start/finish order of the per-basis-function threads, injected yields).
"""
import numpy as np

from .. import attach, gen, sched
from ..monitors import assembly as MA
from ..util import maxabs, rng_for


def rnd(rng, *shape):
    return rng.standard_normal(shape)


def single_field(kind, fam, rng, uniform=False):
    import felupe as fem
    F = gen.FAMILIES[fam]
    if uniform:
        mesh = F["conv"](F["base"](F["n"]))
        reg = gen.make_region(fam, mesh, uniform=True)
    else:
        mesh, _ = gen.build_mesh(fam, "distorted" if not fam.startswith(("tri", "tet")) else "affine", rng)
        if kind == "axisymmetric":
            mesh = mesh.copy(points=mesh.points + np.array([0.0, 2.0 - mesh.points[:, 1].min()]))
        reg = gen.make_region(fam, mesh)
    d = F["dim"]
    if kind == "cartesian":
        f = fem.Field(reg, dim=d)
    elif kind == "scalar":
        f = fem.Field(reg, dim=1)
    elif kind == "planestrain":
        f = fem.FieldPlaneStrain(reg, dim=2)
    elif kind == "axisymmetric":
        f = fem.FieldAxisymmetric(reg, dim=2)
    return fem.FieldContainer([f]), reg


def case_single(kind, fam, uniform=False):
    def fn(run):
        import felupe as fem
        rng = rng_for(run.seed, "C02", "single", kind, fam, uniform)
        MA.attach_hook(run)
        try:
            field, reg = single_field(kind, fam, rng, uniform)
            f = field[0]
            nq, nc = reg.quadrature.npoints, reg.mesh.ncells
            d = f.dim
            D = 3 if kind in ("planestrain", "axisymmetric") else d  # integrand dimension
            tag = " uniform" if uniform else ""
            # the differential volume is an argument: the region's own in the serial pass, an arbitrary weight in the threaded one
            dVs = {False: reg.dV, True: reg.dV * rng.uniform(0.5, 2, reg.dV.shape)}
            for parallel in (False, True):
                # full, constant, cell-wise constant and quadrature-point-wise constant integrands (size-one trailing axes)
                for bc in ((nq, nc), (1, 1), (1, nc), (nq, 1)):
                    if kind == "scalar":
                        dm = reg.mesh.dim
                        fem.IntegralForm([rnd(rng, *bc)], v=field, dV=dVs[parallel], grad_v=[False]).assemble(parallel=parallel)
                        fem.IntegralForm([rnd(rng, 1, *bc)], v=field, dV=dVs[parallel], grad_v=[False]).assemble(parallel=parallel)
                        fem.IntegralForm([rnd(rng, 1, dm, *bc)], v=field, dV=dVs[parallel], grad_v=[True]).assemble(parallel=parallel)
                        # the flux of a scalar problem given as a plain vector (dm, q, c), without the explicit component axis of length one
                        # (round 11: a trimming rule for 3-component integrands cut this one to its first component on 3D regions)
                        fem.IntegralForm([rnd(rng, dm, *bc)], v=field, dV=dVs[parallel], grad_v=[True]).assemble(parallel=parallel)
                        run.units["scalar:flux-as-plain-vector:dim=%d" % dm] += 1
                        fem.IntegralForm([rnd(rng, *bc)], v=field, dV=dVs[parallel], u=field, grad_v=[False], grad_u=[False]).assemble(parallel=parallel)
                        fem.IntegralForm([rnd(rng, 1, dm, 1, dm, *bc)], v=field, dV=dVs[parallel], u=field, grad_v=[True], grad_u=[True]).assemble(parallel=parallel)
                        continue
                    # linear forms
                    vec = rnd(rng, D, *bc)
                    if kind == "axisymmetric":
                        vec[-1] = 0.0  # a value-type form has no hoop component (see DESIGN C02)
                    fem.IntegralForm([vec], v=field, dV=dVs[parallel], grad_v=[False]).assemble(parallel=parallel)
                    fem.IntegralForm([rnd(rng, D, D, *bc)], v=field, dV=dVs[parallel], grad_v=[True]).assemble(parallel=parallel)
                    fem.IntegralForm([rnd(rng, D, D, *bc)], v=field, dV=dVs[parallel]).assemble(parallel=parallel)
                    # the two-step path the solid bodies use: integrate(), then assemble(values=...)
                    form2 = fem.IntegralForm([rnd(rng, D, D, D, D, *bc)], v=field, dV=dVs[parallel], u=field)
                    form2.assemble(values=form2.integrate(parallel=parallel))
                    if bc == (nq, nc):
                        # ... with the previous result handed back as output buffer and a new integrand (every Newton iteration)
                        # (a new form object per integrand, as the solid bodies do: the axisymmetric form prepares its
                        # sub-integrands at construction, so an integrand changed afterwards is not its integrand)
                        prev = form2.integrate(parallel=parallel)
                        form3 = fem.IntegralForm([rnd(rng, D, D, D, D, *bc)], v=field, dV=dVs[parallel], u=field)
                        fresh = [np.array(v, copy=True) for v in form3.integrate(parallel=parallel)]
                        vals = form3.integrate(parallel=parallel, out=prev)
                        err = max(maxabs(np.asarray(a) - b) / max(maxabs(b), 1e-300) for a, b in zip(vals, fresh))
                        run.compare("integralform.out", "form kind=%s parallel=%s clause=integrate-out-buffer" % (kind, parallel), err, 1e-14,
                                    "integrate(out=previous result) differs from integrate() without a buffer", unit="integrate:out-buffer",
                                    config=(kind, fam, "out", parallel))
                        form3.assemble(values=vals)
                        run.units["integrate(out=previous)"] += 1
                    # bilinear forms, all grad combinations the field kind supports
                    fem.IntegralForm([rnd(rng, D, D, D, D, *bc)], v=field, dV=dVs[parallel], u=field).assemble(parallel=parallel)
                    if kind != "axisymmetric":
                        fem.IntegralForm([rnd(rng, D, D, *bc)], v=field, dV=dVs[parallel], u=field, grad_v=[False], grad_u=[False]).assemble(parallel=parallel)
                        fem.IntegralForm([rnd(rng, D, D, D, *bc)], v=field, dV=dVs[parallel], u=field, grad_v=[True], grad_u=[False]).assemble(parallel=parallel)
                    vg = rnd(rng, D, D, D, *bc)
                    if kind == "axisymmetric":
                        vg[-1] = 0.0  # value-type test function: no hoop component
                    fem.IntegralForm([vg], v=field, dV=dVs[parallel], u=field, grad_v=[False], grad_u=[True]).assemble(parallel=parallel)
            run.units["kind:%s%s" % (kind, tag)] += 1
        finally:
            attach.detach_all()
    return fn


def mixed_container(kind, fam, n, rng, disconnect=None):
    import felupe as fem
    mesh, _ = gen.build_mesh(fam, "distorted" if not fam.startswith(("tri", "tet")) else "affine", rng)
    if kind == "axisymmetric":
        mesh = mesh.copy(points=mesh.points + np.array([0.0, 2.0 - mesh.points[:, 1].min()]))
    reg = gen.make_region(fam, mesh)
    kw = {}
    if disconnect is not None:
        kw["disconnect"] = disconnect
    field = fem.FieldsMixed(reg, n=n, axisymmetric=kind == "axisymmetric", planestrain=kind == "planestrain", **kw)
    return field, reg


def case_mixed(kind, fam, n, disconnect=None):
    def fn(run):
        import felupe as fem
        rng = rng_for(run.seed, "C02", "mixed", kind, fam, n, disconnect)
        MA.attach_hook(run)
        try:
            field, reg = mixed_container(kind, fam, n, rng, disconnect)
            nq, nc = reg.quadrature.npoints, reg.mesh.ncells
            D = 3 if kind in ("planestrain", "axisymmetric") or reg.mesh.dim == 3 else 2
            bc = (nq, nc)
            A = lambda: rnd(rng, D, D, D, D, *bc)
            B = lambda: rnd(rng, D, D, *bc)
            S = lambda: rnd(rng, *bc)
            dVs = {False: reg.dV, True: reg.dV * rng.uniform(0.5, 2, reg.dV.shape)}
            for parallel in (False, True):
                # mode 1: linear
                fem.IntegralForm([B()] + [S() for _ in range(n - 1)], v=field, dV=dVs[parallel]).assemble(parallel=parallel)
                # mode 2: upper triangle
                if n == 2:
                    blocks = [A(), B(), S()]
                else:
                    blocks = [A(), B(), B(), S(), S(), S()]
                fem.IntegralForm(blocks, v=field, dV=dVs[parallel], u=field).assemble(parallel=parallel)
                # absent blocks are zero
                nb = list(blocks)
                nb[1] = None
                if n == 3:
                    nb[3] = None
                fem.IntegralForm(nb, v=field, dV=dVs[parallel], u=field).assemble(parallel=parallel)
                if kind != "axisymmetric":
                    # mode 3: full (Cartesian / plane strain)
                    if n == 2:
                        full = [A(), B(), B(), S()]
                    else:
                        full = [A(), B(), B(), B(), S(), S(), B(), S(), S()]
                    try:
                        K = fem.IntegralForm(full, v=field, dV=dVs[parallel], u=field,
                                             grad_v=[True] + [False] * (n - 1), grad_u=[True] + [False] * (n - 1))
                        K.assemble(parallel=parallel)
                    except Exception as exc:
                        run.note("mode 3 refused for %s/%s: %s" % (kind, fam, type(exc).__name__))
                if hasattr(field[1].region.mesh, "cells"):
                    run.units["dual-points-per-cell=%d" % field[1].region.mesh.cells.shape[1]] += 1
            run.units["mixed:%s:n=%d" % (kind, n)] += 1
        finally:
            attach.detach_all()
    return fn


# ------------------------------------------------------------------------------------------ Form expression API
def case_rectangular(fam, rep):
    """Test and trial functions from different containers (third audit / round 10: every form had `v is u`): one test field with a trial
    field of its own region, then with a same-layout trial field on the *disconnected* mesh (same points per cell and dimension, other
    connectivity), then with the first again - the assembled columns are the trial field's unknowns in each case. The hook compares every
    assembled matrix with the loops."""
    def fn(run):
        import felupe as fem
        rng = rng_for(run.seed, "C02", "rectangular", fam, rep)
        MA.attach_hook(run)
        try:
            mesh, _ = gen.build_mesh(fam, "distorted", rng)
            d = mesh.dim
            reg = gen.make_region(fam, mesh)
            regd = gen.make_region(fam, mesh.disconnect())
            v = fem.FieldContainer([fem.Field(reg, dim=d)])
            u1 = fem.FieldContainer([fem.Field(reg, dim=d)])
            u2 = fem.FieldContainer([fem.Field(regd, dim=d)])
            us = fem.FieldContainer([fem.Field(regd, dim=1)])
            nq, nc = reg.quadrature.npoints, mesh.ncells
            C4 = rng.standard_normal((d, d, d, d, nq, nc))
            Cv = rng.standard_normal((d, d, d, nq, nc))
            shapes = set()
            for parallel in (False, True):
                for trial, name in ((u1, "own-region"), (u2, "disconnected"), (u1, "own-region-again"), (u2, "disconnected-again")):
                    K = fem.IntegralForm([C4], v=v, dV=reg.dV, u=trial, grad_v=[True], grad_u=[True]).assemble(parallel=parallel)
                    shapes.add(K.shape)
                    run.units["rectangular:" + name.replace("-again", "")] += 1
                # a scalar value-type trial field on the disconnected mesh (a pressure-like dual) against the gradient-type test field
                fem.IntegralForm([Cv[0]], v=v, dV=reg.dV, u=us, grad_v=[True], grad_u=[False]).assemble(parallel=parallel)
                run.units["rectangular:scalar-trial"] += 1
            want = {(mesh.npoints * d, mesh.npoints * d), (mesh.npoints * d, regd.mesh.npoints * d)}
            if shapes == want:
                run.ok("integralform.assemble", unit="rectangular:shape", config=(fam, "rectangular"))
            else:
                run.fail("integralform.assemble", "form=rectangular clause=shape", "rows / columns of a form with distinct test and trial fields are not (unknowns of v, unknowns of u): %s" % sorted(shapes))
        finally:
            attach.detach_all()
    return fn


def case_form(rep):
    def fn(run):
        import felupe as fem
        import felupe.assembly.expression._bilinear as EB
        import felupe.assembly.expression._linear as EL
        from felupe.math import cdya, cdya_ik, ddot, dya, grad, sym, trace
        rng = rng_for(run.seed, "C02", "form", rep)
        fam = ["quad", "hexahedron", "triangle6", "quad8"][rep % 4]
        mesh, _ = gen.build_mesh(fam, "distorted" if not fam.startswith("tri") else "affine", rng)
        reg = gen.make_region(fam, mesh)
        d = mesh.dim
        field = fem.FieldContainer([fem.Field(reg, dim=d)])
        mu, lm = float(rng.uniform(0.5, 2)), float(rng.uniform(0.5, 2))
        bvec = rng.standard_normal(d)

        @fem.Form(v=field, u=field, kwargs={"mu": mu, "lmbda": lm})
        def bil():
            def a(v, u, mu, lmbda):
                de, e = sym(grad(v)), sym(grad(u))
                return 2 * mu * ddot(de, e) + lmbda * trace(de) * trace(e)
            return [a]

        @fem.Form(v=field, kwargs={"b": bvec})
        def lin():
            def L(v, b):
                return np.einsum("i,i...->...", b, v)
            return [L]

        Id = np.eye(d).reshape(d, d, 1, 1)
        C4 = 2 * mu * cdya(Id, Id) + lm * dya(Id, Id)
        Kref = fem.IntegralForm([C4], v=field, dV=reg.dV, u=field).assemble().toarray()
        bq = bvec.reshape(d, 1, 1) * np.ones((d, *reg.dV.shape))
        rref = fem.IntegralForm([bq], v=field, dV=reg.dV, grad_v=[False]).assemble().toarray().ravel()
        # mixed weak form (u, p)
        fm = fem.FieldsMixed(reg, n=2)

        @fem.Form(v=fm, u=fm)
        def mix():
            def a00(v, u):
                return ddot(grad(v), grad(u))

            def a01(v, p):
                return trace(grad(v)) * p

            def a11(q, p):
                return -0.5 * q * p
            return [a00, a01, a11]

        Kmref = fem.IntegralForm([cdya_ik(Id, Id), Id.copy(), -0.5 * np.ones((1, 1))], v=fm, dV=reg.dV, u=fm).assemble().toarray()

        # the same weak forms with a caller-supplied differential volume (dx=): equal to the array forms with dV = that array
        w = reg.dV * rng.uniform(0.5, 2, reg.dV.shape)
        Kw = fem.IntegralForm([C4], v=field, dV=w, u=field).assemble().toarray()
        rw = fem.IntegralForm([bq], v=field, dV=w, grad_v=[False]).assemble().toarray().ravel()
        Kmw = fem.IntegralForm([cdya_ik(Id, Id), Id.copy(), -0.5 * np.ones((1, 1))], v=fm, dV=w, u=fm).assemble().toarray()
        bilw = fem.Form(v=field, u=field, dx=w, kwargs={"mu": mu, "lmbda": lm})(lambda: list(bil.weakform))
        linw = fem.Form(v=field, dx=w, kwargs={"b": bvec})(lambda: list(lin.weakform))
        mixw = fem.Form(v=fm, u=fm, dx=w)(lambda: list(mix.weakform))
        for parallel in (False, True):
            for name, got, ref in (("bilinear", bilw.assemble(parallel=parallel).toarray(), Kw),
                                   ("linear", linw.assemble(parallel=parallel).toarray().ravel(), rw),
                                   ("mixed", mixw.assemble(parallel=parallel).toarray(), Kmw)):
                run.compare("form.dx", "form=%s clause=dx-is-the-differential-volume" % name, maxabs(got - ref) / maxabs(ref), 1e-12,
                            "Form(dx=w) differs from the equivalent IntegralForm(dV=w)", unit="form:dx:" + name, config=(fam, "dx", name, parallel))
        # a weak form that is NOT symmetric in (v, u) (convection-like: v . grad(u) w + 2 grad(v) : u (x) w), against naive loops
        # over cells, quadrature points, nodes and components: roles of test and trial function, rows and columns
        wv = rng.uniform(-1.5, 1.5, d)
        nons = fem.Form(v=field, u=field, kwargs={"w": wv})(lambda: [lambda v, u, w: np.einsum("i...,ij...,j->...", v, grad(u), w)
                                                                                     + 2 * np.einsum("ij...,i...,j->...", grad(v), u, w)])
        nq, nc = reg.dV.shape
        hh = np.broadcast_to(reg.h, (reg.h.shape[0], nq, nc))
        dh = np.broadcast_to(reg.dhdX, (reg.h.shape[0], d, nq, nc))
        Kn = np.zeros((mesh.npoints * d, mesh.npoints * d))
        dhw = np.einsum("ajqc,j->aqc", dh, wv)
        blk = np.einsum("aqc,bqc,qc->cab", hh, dhw, reg.dV) + 2 * np.einsum("aqc,bqc,qc->cab", dhw, hh, reg.dV)
        for c in range(nc):
            for a in range(mesh.cells.shape[1]):
                for b_ in range(mesh.cells.shape[1]):
                    for i in range(d):
                        Kn[d * mesh.cells[c, a] + i, d * mesh.cells[c, b_] + i] += blk[c, a, b_]
        for parallel in (False, True):
            got = nons.assemble(parallel=parallel, sym=False).toarray()
            run.compare("form.nonsymmetric", "form=convection clause=entries parallel=%s" % parallel, maxabs(got - Kn) / maxabs(Kn), 1e-12,
                        "a weak form that is not symmetric in (v, u) assembles other entries than the defining sum (rows = test function)",
                        unit="form:nonsymmetric", config=(fam, "nonsymmetric", parallel))
        # two fields with EQUALLY SHAPED bases in one container (two scalar or two vector fields) and an off-diagonal weak form that
        # is not symmetric within its block: the documented `sym` shortcut concerns diagonal blocks only, so every combination of
        # sym / parallel has to give the defining sums (naive loops; lower-left block = transpose of the upper-right one)
        k2 = (1, d)[rep % 2]
        f2 = fem.FieldContainer([fem.Field(reg, dim=k2), fem.Field(reg, dim=k2)])
        c11 = float(rng.uniform(0.5, 2))
        twin = fem.Form(v=f2, u=f2, kwargs={"w": wv, "c": c11})(lambda: [
            lambda v, u, w, c: ddot(grad(v), grad(u)),
            lambda v, p, w, c: np.einsum("i...,ij...,j->...", v, grad(p), w),
            lambda q, p, w, c: c * np.einsum("i...,i...->...", q, p)])
        npt = mesh.npoints
        K2n = np.zeros((2 * npt * k2, 2 * npt * k2))
        b00 = np.einsum("ajqc,bjqc,qc->cab", dh, dh, reg.dV)
        b01 = np.einsum("aqc,bqc,qc->cab", hh, dhw, reg.dV)
        b11 = c11 * np.einsum("aqc,bqc,qc->cab", hh, hh, reg.dV)
        off = npt * k2
        for c in range(nc):
            for a in range(mesh.cells.shape[1]):
                for b_ in range(mesh.cells.shape[1]):
                    for i in range(k2):
                        ra, cb = k2 * mesh.cells[c, a] + i, k2 * mesh.cells[c, b_] + i
                        K2n[ra, cb] += b00[c, a, b_]
                        K2n[ra, off + cb] += b01[c, a, b_]
                        K2n[off + cb, ra] += b01[c, a, b_]
                        K2n[off + ra, off + cb] += b11[c, a, b_]
        for parallel in (False, True):
            for symm in (False, True):
                got = twin.assemble(parallel=parallel, sym=symm).toarray()
                run.compare("form.twin-fields", "form=twin-fields dim=%s parallel=%s sym=%s clause=entries" % ("scalar" if k2 == 1 else "vector", parallel, symm),
                            maxabs(got - K2n) / maxabs(K2n), 1e-12,
                            "a mixed Form on two equally shaped fields with a non-symmetric off-diagonal block assembles other entries than the defining sums",
                            unit="form:twin-fields:sym=%s" % symm, config=(fam, "twin", k2, parallel, symm))
        # the same Form object used for fields of another region (documented: v=, u= hand over other fields): basis functions AND
        # differential volumes are those of the fields given, then back to the first ones
        meshB = mesh.copy(points=mesh.points @ gen.random_affine(rng, d)[0].T * float(rng.uniform(1.5, 2.5)))
        regB = gen.make_region(fam, meshB)
        fieldB = fem.FieldContainer([fem.Field(regB, dim=d)])
        KB = fem.IntegralForm([C4], v=fieldB, dV=regB.dV, u=fieldB).assemble().toarray()
        rB = fem.IntegralForm([bq], v=fieldB, dV=regB.dV, grad_v=[False]).assemble().toarray().ravel()
        for parallel in (False, True):
            gotK = bil.assemble(v=fieldB, u=fieldB, parallel=parallel).toarray()
            gotr = lin.assemble(v=fieldB, parallel=parallel).toarray().ravel()
            run.compare("form.other-fields", "form=bilinear clause=fields-handed-over parallel=%s" % parallel, maxabs(gotK - KB) / maxabs(KB), 1e-12,
                        "a Form assembled with the fields of another region differs from the array form on that region", unit="form:other-region", config=(fam, "other-region", parallel))
            run.compare("form.other-fields", "form=linear clause=fields-handed-over parallel=%s" % parallel, maxabs(gotr - rB) / maxabs(rB), 1e-12,
                        "a linear Form assembled with the fields of another region differs from the array form on that region", unit="form:other-region")
        run.compare("form.other-fields", "form=bilinear clause=back-to-the-first-fields", maxabs(bil.assemble(v=field, u=field).toarray() - Kref) / maxabs(Kref), 1e-12,
                    "a Form handed back its first fields differs from the array form on the first region", unit="form:other-region")
        # thread hooks: recording Thread + yield injection in `contribution` and the weak forms
        orig_B, orig_L = EB.Thread, EL.Thread
        EB.Thread = EL.Thread = sched.RecordingThread
        codes = sched.code_objects(EB, EL) + sched.code_objects(*bil.weakform, *lin.weakform, *mix.weakform)
        orders = set()
        nthreads = 0
        try:
            reps = 6 if run.tier == "quick" else 40
            with sched.YieldInjector(codes, seed=run.seed * 1000 + rep, probability=0.3) as inj:
                for k in range(reps):
                    for parallel in (False, True):
                        for symm in (False, True):
                            K = bil.assemble(v=field, u=field, parallel=parallel, sym=symm).toarray()
                            run.compare("form.bilinear", "form=bilinear parallel=%s sym=%s clause=equals-array-form" % (parallel, symm),
                                        maxabs(K - Kref) / maxabs(Kref), 1e-12,
                                        "Form (bilinear) differs from the equivalent IntegralForm", unit="form:bilinear:parallel=%s:sym=%s" % (parallel, symm),
                                        config=(fam, "bilinear", parallel, symm))
                            Km = mix.assemble(v=fm, u=fm, parallel=parallel, sym=symm).toarray()
                            run.compare("form.mixed", "form=mixed parallel=%s sym=%s clause=equals-array-form" % (parallel, symm),
                                        maxabs(Km - Kmref) / maxabs(Kmref), 1e-12,
                                        "Form (mixed u/p) differs from the equivalent IntegralForm", unit="form:mixed:parallel=%s:sym=%s" % (parallel, symm),
                                        config=(fam, "mixed", parallel, symm))
                            if parallel:
                                log = sched.take_log()
                                fin = tuple(kk for ev, kk in log if ev == "finish")
                                nthreads += len(fin)
                                orders.add(hash(fin))
                        r = lin.assemble(v=field, parallel=parallel).toarray().ravel()
                        run.compare("form.linear", "form=linear parallel=%s clause=equals-array-form" % parallel,
                                    maxabs(r - rref) / maxabs(rref), 1e-12, "Form (linear) differs from the equivalent IntegralForm",
                                    unit="form:linear:parallel=%s" % parallel, config=(fam, "linear", parallel))
                        sched.take_log()
                run.extra["schedules_yields_injected"] = run.extra.get("schedules_yields_injected", 0) + inj.injected
        finally:
            EB.Thread, EL.Thread = orig_B, orig_L
        run.extra["schedules_threads_finished"] = run.extra.get("schedules_threads_finished", 0) + nthreads
        run.extra.setdefault("schedules_distinct_completion_orders", []).extend(sorted(orders))
        if len(orders) >= 2:
            run.units["distinct-thread-completion-orders>=2"] += 1
        # FormItem-style serial/parallel basis construction must not matter either
        K2 = bil.assemble(v=field, u=field, parallel=True).toarray()
        run.compare("form.bilinear", "form=bilinear clause=parallel-basis", maxabs(K2 - Kref) / maxabs(Kref), 1e-12,
                    "Form with a threaded basis differs", unit="form:parallel-basis")
    return fn


def post_merge(run):
    orders = run.extra.get("schedules_distinct_completion_orders", [])
    run.extra["schedules_distinct_completion_orders"] = len(set(orders))


def cases(tier, seed):
    out = []
    for kind, fams in (("cartesian", ("quad", "hexahedron", "triangle", "tetra", "quad8", "tetra10")),
                       ("scalar", ("quad", "hexahedron")), ("planestrain", ("quad", "triangle6", "quad9")),
                       ("axisymmetric", ("quad", "quad8", "triangle"))):
        for fam in fams:
            out.append(("single:%s:%s" % (kind, fam), case_single(kind, fam)))
    for kind, fam in (("cartesian", "quad"), ("cartesian", "hexahedron"), ("planestrain", "quad"), ("scalar", "quad"), ("axisymmetric", "quad")):
        out.append(("single:%s:%s:uniform" % (kind, fam), case_single(kind, fam, uniform=True)))
    for kind, fam, n in (("cartesian", "hexahedron", 3), ("cartesian", "hexahedron", 2), ("cartesian", "quad9", 2),
                         ("cartesian", "tetra10", 3), ("planestrain", "quad", 3), ("planestrain", "triangle6", 2),
                         ("axisymmetric", "quad", 3), ("axisymmetric", "quad", 2), ("axisymmetric", "quad9", 2),
                         ("cartesian", "triangleMINI", 2)):
        if kind == "cartesian" and fam in ("quad9", "triangleMINI"):
            kind2 = "planestrain"
        else:
            kind2 = kind
        out.append(("mixed:%s:%s:%d" % (kind2, fam, n), case_mixed(kind2, fam, n)))
    out.append(("mixed:planestrain:quad8:2:disconnected", case_mixed("planestrain", "quad8", 2, disconnect=True)))
    for fam in ("quad", "hexahedron", "triangle"):
        for rep in range(1 if tier == "quick" else 3):
            out.append(("rectangular:%s:%d" % (fam, rep), case_rectangular(fam, rep)))
    for rep in range(4 if tier == "quick" else 16):
        out.append(("form:%d" % rep, case_form(rep)))
    return out


SPEC = {
    "required_units": ["scalar:flux-as-plain-vector:dim=2", "scalar:flux-as-plain-vector:dim=3", "rectangular:own-region", "rectangular:disconnected", "rectangular:scalar-trial", "rectangular:shape", "kind:cartesian", "kind:scalar", "kind:planestrain", "kind:axisymmetric", "kind:cartesian uniform",
                       "kind:planestrain uniform", "mixed:cartesian:n=3", "mixed:cartesian:n=2", "mixed:planestrain:n=3",
                       "mixed:planestrain:n=2", "mixed:axisymmetric:n=3", "mixed:axisymmetric:n=2", "assemble(values=integrate())", "block-mode=1", "block-mode=2", "block-mode=3", "none-block", "parallel-einsum", "dual-points-per-cell=1",
                       "dual-points-per-cell=4", "dual-points-per-cell=3", "distinct-thread-completion-orders>=2",
                       "form:linear:parallel=True", "form:linear:parallel=False", "form:parallel-basis", "form:nonsymmetric", "form:other-region", "form:twin-fields:sym=True", "form:twin-fields:sym=False"]
    + ["form:%s:parallel=%s:sym=%s" % (k, p, s) for k in ("bilinear", "mixed") for p in (True, False) for s in (True, False)],
    "rule": ("random integrand arrays of every admissible tensor order (full and (1,1)-broadcast trailing axes) for single fields "
             "(Cartesian 2D/3D vector, scalar, plane strain with 3D integrands, axisymmetric) on 9 element families incl. uniform "
             "regions, mixed containers of 2 and 3 fields (constant, linear, disconnected duals) in block modes 1/2/3 with None "
             "blocks, parallel on/off; every IntegralForm.assemble() is recomputed by naive loops in the post-hook. The Form API is "
             "compared with the array form for linear/bilinear/mixed weak forms x sym x parallel under injected thread yields. A "
             "configuration is distinct by (block mode, field kinds, grad flags, dim, None-block, uniform, parallel)"),
    "assumptions": ["region.h/dhdX/dV are taken as given (C04-C06 judge them)", "value-type forms on axisymmetric fields are driven "
                    "with a zero third integrand component (a displacement test function has no hoop component)"],
    "jobs": {"quick": 8, "thorough": 16},
    "timeout": {"quick": 900, "thorough": 3600},
}
