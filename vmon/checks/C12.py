"""C12 - independent implementations of the same model agree; documented initial moduli.

Differential monitor between the members of a pair registry (same inputs fed to both implementations) and, for every
isotropic model, the tangent at the undeformed state vs the isotropic linear-elastic tangent with the initial shear (and
bulk) modulus the model's documentation states.
"""
import numpy as np

from .. import matreg
from ..monitors import material as MM
from ..util import batch_F, maxabs, rng_for
from . import C03

SHARED = ["neo_hooke", "mooney_rivlin", "yeoh", "third_order_deformation", "blatz_ko", "van_der_waals", "storakers", "extended_tube",
          "miehe_goektepe_lulei"]
# jax storakers evaluates the whole energy on C + diag(0,-1e-4,1e-4) (eigenvalues and J): reproducible by calling the tensortrax
# model function on the identically perturbed C.  jax extended_tube perturbs only the argument of eigvalsh (I1 and J of the
# unperturbed C): not expressible through the sibling's public function, so only the size of the effect is bounded there.
JAX_SHIFT = {"storakers": np.diag([0.0, -1e-4, 1e-4])}
JAX_BOUNDED = {"extended_tube"}


def compare(run, pair, what, a, b, scale, tol, unit, config=None, sample=None):
    a, b = np.asarray(a, float), np.asarray(b, float)
    const = lambda x: x.ndim >= 2 and all(n == 1 for n in x.shape[-2:])  # a state-independent tensor with size-one batch axes
    if a.shape != b.shape and a.ndim == b.ndim and a.shape[:-2] == b.shape[:-2] and (const(a) or const(b)):
        a, b = np.broadcast_arrays(a, b)
    if a.shape != b.shape:
        # results for the same batch of states have the same layout (no broadcasting: (.., 4, 1) is not (.., 1, 4))
        run.fail("material.pairs", "pair=%s clause=%s-shape" % (pair, what), "%s: %s of the two implementations have shapes %s / %s"
                 % (pair, what, a.shape, b.shape), unit=unit)
        return
    run.compare("material.pairs", "pair=%s clause=%s" % (pair, what), maxabs(a - b) / max(scale, 1e-300), tol,
                "%s: %s of the two implementations differ on identical input" % (pair, what), unit=unit, config=config or (pair, what),
                sample=sample)


def case_backend_pair(name, rep):
    def fn(run):
        import felupe.constitution.jax as JX
        import felupe.constitution.tensortrax as TT
        import tensortrax as tr
        rng = rng_for(run.seed, "C12", "pair", name, rep)
        sampler = matreg._hyper_models("jax")[name][0]
        p = sampler(rng)
        a = TT.Hyperelastic(getattr(TT.models.hyperelastic, name), **p)
        b = JX.Hyperelastic(getattr(JX.models.hyperelastic, name), **p)
        batch = (1, 4 if run.tier == "quick" else 8) if rep % 2 == 0 else (2, 3)  # two non-trivial batch axes as well
        F = batch_F(rng, batch, lo=0.75, hi=1.4)
        if rep % 2 == 1:
            # coincident and nearly coincident principal stretches (regularised branches of the eigenvalue-based models):
            # undeformed, uniaxial, equibiaxial, dilatation, a gap of 1e-5 - in rotated frames
            from ..util import random_rotation
            kinds = [lambda l: np.eye(3), lambda l: np.diag([l, l ** -0.5, l ** -0.5]), lambda l: np.diag([l, l, l ** -1.2]), lambda l: l * np.eye(3),
                     lambda l: np.diag([l, l + 1e-5, 1 / l])]
            for k in range(batch[1]):
                Rm, Qm = random_rotation(rng, 3), random_rotation(rng, 3)
                F[:, :, 0, k] = Rm @ Qm @ kinds[(k + rep // 2) % 5](float(rng.uniform(0.8, 1.35))) @ Qm.T
            run.units["pairs:coincident-stretches"] += 1
        Pa, Pb = a.gradient([F, None])[0], b.gradient([F, None])[0]
        Aa, Ab = a.hessian([F, None])[0], b.hessian([F, None])[0]
        sA = maxabs(Aa)
        pair = "jax~tensortrax:" + name
        if name in JAX_SHIFT:
            # the jax model perturbs C by a documented diag(0, +-1e-4, -+1e-4): evaluate the tensortrax sibling's model
            # function on the identically perturbed C (tight), and bound the size of the effect (20 x 1e-4 x |A|)
            C = np.einsum("ki...,kj...->ij...", F, F) + JAX_SHIFT[name].reshape(3, 3, 1, 1)
            fun = getattr(TT.models.hyperelastic, name)
            dWdC = tr.gradient(fun, wrt=0, ntrax=2, sym=True)(np.ascontiguousarray(C), **p)
            Pref = MM.mm(F, 2 * np.asarray(dWdC))
            compare(run, pair, "stress[same-perturbation]", Pb, Pref, sA, 1e-6, pair + ":stress")
            compare(run, pair, "stress[bounded-effect]", Pa, Pb, sA, 20 * 1e-4, pair + ":stress-bound")
            compare(run, pair, "elasticity[bounded-effect]", Aa, Ab, sA, 50 * 1e-4, pair + ":elasticity")
        elif name in JAX_BOUNDED:
            compare(run, pair, "stress[bounded-effect]", Pa, Pb, sA, 20 * 1e-4, pair + ":stress")
            compare(run, pair, "elasticity[bounded-effect]", Aa, Ab, sA, 50 * 1e-4, pair + ":elasticity")
            # tight: the documented energy with the documented shift diag(0, 1e-4, -1e-4) inside the eigenvalues only, written here
            from tensortrax.math import log, trace, sum as tsum
            from tensortrax.math.linalg import det, eigvalsh

            def shifted(C, Gc, delta, Ge, beta):
                S = np.zeros(C.x.shape)
                S[1, 1], S[2, 2] = 1e-4, -1e-4
                J3 = det(C) ** (-1 / 3)
                D = J3 * trace(C)
                w = J3 * eigvalsh(C + S)
                g_ = (1 - delta ** 2) * (D - 3) / (1 - delta ** 2 * (D - 3))
                return Gc / 2 * (g_ + log(1 - delta ** 2 * (D - 3))) + 2 * Ge / beta ** 2 * tsum(w ** (-beta / 2) - 1)

            def Pref(G):
                C = np.ascontiguousarray(np.einsum("ki...,kj...->ij...", G, G))
                dW = np.asarray(tr.gradient(shifted, wrt=0, ntrax=2, sym=False)(C, **p))
                return MM.mm(G, dW + np.swapaxes(dW, 0, 1))
            compare(run, pair, "stress[same-perturbation]", Pb, Pref(F), sA, 1e-6, pair + ":stress-tight")
            if rep % 2 == 0:
                # (at coincident stretches tensortrax' own eigenvalue derivatives are regularised: distinct stretches only)
                compare(run, pair, "elasticity[same-perturbation]", Ab, MM.fd_wrt_F(Pref, F, 1e-6), sA, 1e-5, pair + ":elasticity-tight")
        else:
            compare(run, pair, "stress", Pa, Pb, sA, 1e-9, pair + ":stress",
                    sample={"pair": pair, "params": p, "max|P_a - P_b|": maxabs(np.asarray(Pa) - np.asarray(Pb))})
            compare(run, pair, "elasticity", Aa, Ab, sA, 1e-8, pair + ":elasticity")
    return fn


def case_lagrange_pair(name, rep):
    def fn(run):
        import felupe.constitution.jax as JX
        import felupe.constitution.tensortrax as TT
        rng = rng_for(run.seed, "C12", "lagrange", name, rep)
        p = [0.039, 0.371, 0.174, 2.41, 0.0094, 6.84, 5.65, 0.244]
        nsv = 13 if name == "morph" else 84
        a = TT.Material(getattr(TT.models.lagrange, name), p=p, nstatevars=nsv)
        b = JX.Material(getattr(JX.models.lagrange, name), p=p, nstatevars=nsv)
        batch = (1, 2)
        sva = svb = np.zeros((nsv,) + batch)
        # the same history is fed to both (each keeps its own state)
        # load - unload - reload below and then beyond the former maximum (the history variables must remember the maximum)
        amps = [(0.75, 1.35), (0.93, 1.08), (0.85, 1.2), (0.7, 1.45)] if name == "morph" else [(0.8, 1.3), (0.93, 1.08)]
        for k, (lo_, hi_) in enumerate(amps):
            F = batch_F(rng, batch, lo=lo_, hi=hi_)
            Pa, sva2 = a.gradient([F, sva])
            Pb, svb2 = b.gradient([F, svb])
            A_b = b.hessian([F, svb])[0]
            sA = maxabs(A_b)
            pair = "jax~tensortrax:lagrange." + name
            reg = 1e-4 if name == "morph" else 0.0  # jax morph adds diag(1e-4, -1e-4, 0) to C
            # the 1e-4 perturbation enters the evolution equations (exponentials with p[5], p[6] ~ 6): bound 200 x 1e-4
            compare(run, pair, "stress", Pa, Pb, sA, 1e-8 + 200 * reg, pair + ":stress", config=(pair, "stress", k))
            compare(run, pair, "statevars", sva2, svb2, max(maxabs(svb2), 1e-300), 1e-8 + 200 * reg, pair + ":statevars")
            A_a = a.hessian([F, sva])[0]
            compare(run, pair, "elasticity", A_a, A_b, sA, 1e-7 + 50 * reg, pair + ":elasticity")
            sva, svb = np.asarray(sva2), np.asarray(svb2)
    return fn


def case_hand_vs_ad(which, rep):
    def fn(run):
        import felupe as fem
        import felupe.constitution.jax as JX
        rng = rng_for(run.seed, "C12", "hand", which, rep)
        batch = (1, 5)
        F = batch_F(rng, batch, lo=0.75, hi=1.4)
        mu, lm = float(rng.uniform(0.5, 2)), float(rng.uniform(1, 4))
        if which == "NeoHooke":
            impl = {"NeoHooke(mu)": fem.NeoHooke(mu=mu), "tt.neo_hooke": fem.Hyperelastic(fem.neo_hooke, mu=mu),
                    "jax.neo_hooke": JX.Hyperelastic(JX.models.hyperelastic.neo_hooke, mu=mu)}
            svs = {k: None for k in impl}
            # the same law offered in one piece and as the sum of its distortional and volumetric parts (bulk-only mode): at volume-
            # changing states (the initial bulk modulus alone does not see the pressure-dependent terms)
            bulk = float(rng.uniform(2, 30))
            Fv = F * rng.uniform(0.85, 1.2, (1, 1) + batch)
            full, parts = fem.NeoHooke(mu=mu, bulk=bulk), fem.NeoHooke(mu=mu) & fem.Volumetric(bulk=bulk)
            Pf, Af = full.gradient([Fv, None])[0], full.hessian([Fv, None])[0]
            compare(run, "NeoHooke(mu,bulk)~NeoHooke(mu)&Volumetric(bulk)", "stress", parts.gradient([Fv, None])[0], Pf, maxabs(Af), 1e-12, "hand:composite:stress")
            compare(run, "NeoHooke(mu,bulk)~NeoHooke(mu)&Volumetric(bulk)", "elasticity", parts.hessian([Fv, None])[0], Af, maxabs(Af), 1e-12, "hand:composite:elasticity")
        elif which == "NeoHookeCompressible":
            reg = {m.name: m for m in C03.registry()}
            E = mu * (3 * lm + 2 * mu) / (lm + mu)
            nu = lm / (2 * (lm + mu))
            tl, _ = reg["tt.total_lagrange(neo-hooke S)"].make(rng)
            ul, _ = reg["tt.updated_lagrange(neo-hooke sigma)"].make(rng)
            tl.kwargs.update(mu=mu, lmbda=lm)
            ul.kwargs.update(mu=mu, lmbda=lm)
            tlj, _ = reg["jax.total_lagrange(neo-hooke S)"].make(rng)
            ulj, _ = reg["jax.updated_lagrange(neo-hooke sigma)"].make(rng)
            tlj.kwargs.update(mu=mu, lmbda=lm)
            ulj.kwargs.update(mu=mu, lmbda=lm)
            impl = {"NeoHookeCompressible": fem.NeoHookeCompressible(mu=mu, lmbda=lm), "LinearElasticLargeStrain(lame_converter)": fem.LinearElasticLargeStrain(E=E, nu=nu),
                    "total_lagrange(S)": tl, "updated_lagrange(sigma)": ul, "jax.total_lagrange(S)": tlj, "jax.updated_lagrange(sigma)": ulj}
            svs = {k: None for k in impl}
        elif which == "OgdenRoxburgh":
            r, m, beta = float(rng.uniform(1.5, 4)), float(rng.uniform(0.5, 2)), float(rng.uniform(0, 0.3))
            impl = {"OgdenRoxburgh(NeoHooke)": fem.OgdenRoxburgh(fem.NeoHooke(mu=mu), r=r, m=m, beta=beta),
                    "tt.ogden_roxburgh(neo_hooke)": fem.Hyperelastic(fem.ogden_roxburgh, material=fem.neo_hooke, mu=mu, r=r, m=m, beta=beta, nstatevars=1)}
            svs = {k: np.zeros((1,) + batch) for k in impl}
            # the same history fed to both: load, (partially) unload
            for k in range(3):
                Fk = batch_F(rng, batch, lo=0.7, hi=1.6) if k < 2 else F
                for nm in impl:
                    svs[nm] = np.asarray(impl[nm].gradient([Fk, svs[nm]])[-1])
            # F itself was the last step: evaluate once more at a state inside the history (unloading branch)
            F = batch_F(rng, batch, lo=0.9, hi=1.15)  # mostly below the stored maximum energy
        names = list(impl)
        ref = names[0]
        Pr = impl[ref].gradient([F, svs[ref]])
        Ar = impl[ref].hessian([F, svs[ref]])[0]
        sA = maxabs(Ar)
        for nm in names[1:]:
            pair = "%s~%s" % (ref, nm)
            g = impl[nm].gradient([F, svs[nm]])
            compare(run, pair, "stress", g[0], Pr[0], sA, 1e-9, pair + ":stress", sample={"pair": pair, "mu": mu})
            compare(run, pair, "elasticity", impl[nm].hessian([F, svs[nm]])[0], Ar, sA, 1e-8, pair + ":elasticity")
            if svs[ref] is not None:
                compare(run, pair, "statevars", g[-1], Pr[-1], max(maxabs(Pr[-1]), 1e-300), 1e-10, pair + ":statevars")
    return fn


def iso_tensor(lmbda, mu, d=3):
    I = np.eye(d)
    return lmbda * np.einsum("ij,kl->ijkl", I, I) + mu * (np.einsum("ik,jl->ijkl", I, I) + np.einsum("il,jk->ijkl", I, I))


def case_linear(rep):
    def fn(run):
        import felupe as fem
        rng = rng_for(run.seed, "C12", "linear", rep)
        E = float(10 ** rng.uniform(-1, 3))
        nu = float(rng.uniform(0.0, 0.49))
        batch = (2, 3)
        F = np.eye(3).reshape(3, 3, 1, 1) + 0.01 * rng.standard_normal((3, 3) + batch)
        le = fem.LinearElastic(E=E, nu=nu)
        tn = fem.constitution.LinearElasticTensorNotation(E=E, nu=nu)
        lm, mu = fem.constitution.lame_converter(E, nu)
        ms = fem.MaterialStrain(material=fem.linear_elastic, λ=lm, μ=mu)
        s0 = le.gradient([F, None])[0]
        A0 = np.broadcast_to(le.hessian([F, None])[0], (3, 3, 3, 3) + batch)
        sA = maxabs(A0)
        # reference from the definition (oracle): sigma = lambda tr(eps) I + 2 mu eps
        eps = (F - np.eye(3).reshape(3, 3, 1, 1))
        eps = (eps + eps.transpose(1, 0, 2, 3)) / 2
        sig_ref = lm * np.trace(eps) * np.eye(3).reshape(3, 3, 1, 1) + 2 * mu * eps
        compare(run, "LinearElastic~definition", "stress", s0, sig_ref, sA, 1e-12, "linear:definition")
        compare(run, "LinearElastic~definition", "elasticity", A0, iso_tensor(lm, mu).reshape(3, 3, 3, 3, 1, 1), sA, 1e-12, "linear:definition")
        compare(run, "LinearElastic~TensorNotation", "stress", tn.gradient([F, None])[0], s0, sA, 1e-12, "linear:tensor-notation",
                sample={"pair": "LinearElastic~LinearElasticTensorNotation", "E": E, "nu": nu})
        compare(run, "LinearElastic~TensorNotation", "elasticity", tn.hessian([F, None], shape=batch)[0], A0, sA, 1e-12, "linear:tensor-notation")
        sv = np.zeros((ms.x[-1].shape[0],) + batch)
        compare(run, "LinearElastic~MaterialStrain(linear_elastic)", "stress", ms.gradient([F, sv])[0], s0, sA, 1e-12, "linear:material-strain")
        compare(run, "LinearElastic~MaterialStrain(linear_elastic)", "elasticity", ms.hessian([F, sv])[0], A0, sA, 1e-12, "linear:material-strain")
        # second increment on top of the stored state of the small-strain framework (total stress must still agree)
        sv1 = ms.gradient([F, sv])[-1]
        F2 = F + 0.005 * rng.standard_normal(F.shape)
        compare(run, "LinearElastic~MaterialStrain(linear_elastic)", "stress[2nd increment]", ms.gradient([F2, sv1])[0], le.gradient([F2, None])[0], sA, 1e-12,
                "linear:material-strain")
        # plane strain / plane stress vs the 3D law under the corresponding constraint
        F2d = np.eye(2).reshape(2, 2, 1, 1) + 0.01 * rng.standard_normal((2, 2) + batch)
        pe = fem.constitution.LinearElasticPlaneStrain(E=E, nu=nu)
        ps = fem.LinearElasticPlaneStress(E=E, nu=nu)
        F3 = np.zeros((3, 3) + batch)
        F3[:2, :2] = F2d
        F3[2, 2] = 1.0
        s3 = le.gradient([F3, None])[0]
        compare(run, "PlaneStrain~3D(eps33=0)", "stress", pe.gradient([F2d, None])[0], s3[:2, :2], sA, 1e-12, "linear:plane-strain")
        A3 = le.hessian([F3, None])[0][..., 0, 0]
        compare(run, "PlaneStrain~3D(eps33=0)", "elasticity", pe.hessian([F2d, None])[0][..., 0, 0], A3[:2, :2, :2, :2], sA, 1e-12, "linear:plane-strain")
        e33 = -nu / (1 - nu) * (F2d[0, 0] - 1 + F2d[1, 1] - 1)
        F3s = F3.copy()
        F3s[2, 2] = 1 + e33
        s3s = le.gradient([F3s, None])[0]
        compare(run, "PlaneStress~3D(sigma33=0)", "constraint", s3s[2, 2], 0 * s3s[2, 2], sA, 1e-12, "linear:plane-stress")
        compare(run, "PlaneStress~3D(sigma33=0)", "stress", ps.gradient([F2d, None])[0], s3s[:2, :2], sA, 1e-12, "linear:plane-stress")
        cond = A3[:2, :2, :2, :2] - np.einsum("ij,kl->ijkl", A3[:2, :2, 2, 2], A3[2, 2, :2, :2]) / A3[2, 2, 2, 2]
        compare(run, "PlaneStress~3D(sigma33=0)", "elasticity", ps.hessian([F2d, None])[0][..., 0, 0], cond, sA, 1e-12, "linear:plane-stress")
        # the full (3x3) stress and strain the two plane laws report: the 3D law under the corresponding constraint
        sym3 = lambda G: 0.5 * (G + G.transpose(1, 0, 2, 3)) - np.eye(3).reshape(3, 3, 1, 1)
        for lab, law, F3c, unit in (("PlaneStrain~3D(eps33=0)", pe, F3, "linear:plane-strain:full"),
                                    ("PlaneStress~3D(sigma33=0)", ps, F3s, "linear:plane-stress:full")):
            compare(run, lab, "stress-3x3", law.stress([F2d, None])[0], le.gradient([F3c, None])[0], sA, 1e-12, unit)
            compare(run, lab, "strain-3x3", law.strain([F2d, None])[0], sym3(F3c), 1.0, 1e-12, unit)
        # orthotropic linear elasticity vs orthotropic Saint-Venant Kirchhoff at F = I through the provided converter
        Eo, nuo, Go = list(rng.uniform(5, 15, 3)), list(rng.uniform(0.1, 0.3, 3)), list(rng.uniform(1, 4, 3))
        lo = fem.LinearElasticOrthotropic(E=Eo, nu=nuo, G=Go)
        lmo, muo = fem.constitution.lame_converter_orthotropic(E=Eo, nu=nuo, G=Go)
        I3 = np.eye(3)
        svk = fem.Hyperelastic(fem.saint_venant_kirchhoff_orthotropic, mu=muo, lmbda=lmo, r1=I3[:, 0], r2=I3[:, 1], r3=I3[:, 2])
        Ao = lo.hessian([np.eye(3).reshape(3, 3, 1, 1), None])[0][..., 0, 0]
        As = svk.hessian([np.eye(3).reshape(3, 3, 1, 1), None])[0][..., 0, 0]
        compare(run, "LinearElasticOrthotropic~svk_orthotropic(F=I)", "elasticity", As, Ao, maxabs(Ao), 1e-10, "linear:orthotropic",
                sample={"pair": "orthotropic", "E": Eo, "nu": nuo, "G": Go})
        # the orthotropic law itself against its definition: normal block = inverse of the compliance matrix built from the
        # engineering constants E = (E1, E2, E3), nu = (nu12, nu23, nu31), G = (G12, G23, G31); shear terms = G
        Sm = np.array([[1 / Eo[0], -nuo[0] / Eo[0], -nuo[2] / Eo[2]], [-nuo[0] / Eo[0], 1 / Eo[1], -nuo[1] / Eo[1]], [-nuo[2] / Eo[2], -nuo[1] / Eo[1], 1 / Eo[2]]])
        Cm = np.linalg.inv(Sm)
        Adef = np.zeros((3, 3, 3, 3))
        for i_ in range(3):
            for j_ in range(3):
                Adef[i_, i_, j_, j_] = Cm[i_, j_]
        for (i_, j_), g_ in zip(((0, 1), (1, 2), (2, 0)), Go):
            Adef[i_, j_, i_, j_] = Adef[j_, i_, j_, i_] = Adef[i_, j_, j_, i_] = Adef[j_, i_, i_, j_] = g_
        compare(run, "LinearElasticOrthotropic~definition", "elasticity", Ao, Adef, maxabs(Adef), 1e-12, "linear:orthotropic:definition",
                sample={"pair": "orthotropic definition", "E": Eo, "nu": nuo, "G": Go})
        Fo_ = np.eye(3).reshape(3, 3, 1, 1) + 0.01 * rng.standard_normal((3, 3) + batch)
        eo_ = 0.5 * (Fo_ + Fo_.transpose(1, 0, 2, 3)) - np.eye(3).reshape(3, 3, 1, 1)
        compare(run, "LinearElasticOrthotropic~definition", "stress", lo.gradient([Fo_, None])[0], np.einsum("ijkl,kl...->ij...", Adef, eo_), maxabs(Adef), 1e-12,
                "linear:orthotropic:definition")
        # ... for material axes in general position (the linear law is rotated into them by the oracle) and for every
        # Seth-Hill exponent (all strain measures coincide to first order at the undeformed state)
        from ..util import random_rotation
        Qr = random_rotation(rng, 3)
        for axes, Q in (("aligned", I3[:, [1, 2, 0]] if rep % 2 else I3), ("rotated", Qr)):
            Aq = np.einsum("ia,jb,kc,ld,abcd->ijkl", Q, Q, Q, Q, Ao)
            for k in (2, 1, 0, float(np.round(rng.uniform(-2, 3), 2))):
                kw = {} if k == 2 else {"k": k}
                # the third axis given, given as None, or left out (documented default: r1 x r2)
                r3kw = [{"r3": Q[:, 2]}, {"r3": None}, {}][(rep + int(k == 2)) % 3]
                svk = fem.Hyperelastic(fem.saint_venant_kirchhoff_orthotropic, mu=muo, lmbda=lmo, r1=Q[:, 0], r2=Q[:, 1], **r3kw, **kw)
                run.units["linear:orthotropic:r3-%s" % ("given" if r3kw.get("r3") is not None else ("None" if r3kw else "omitted"))] += 1
                As = svk.hessian([np.eye(3).reshape(3, 3, 1, 1), None])[0][..., 0, 0]
                kk = k if k in (2, 1, 0) else "real"
                pair = "LinearElasticOrthotropic~svk_orthotropic(F=I,%s axes,k%s%s)" % (axes, "=2" if k == 2 else "!=2", "" if (r3kw or k != 2) else ",r3 omitted")
                unit = "linear:orthotropic:%s:k=%s" % (axes, kk)
                compare(run, pair, "elasticity", As, Aq, maxabs(Ao), 1e-10 if k == 2 else 1e-5, unit,
                        sample={"pair": "orthotropic " + axes, "k": k, "E": Eo, "nu": nuo, "G": Go})
                Ps = svk.gradient([np.eye(3).reshape(3, 3, 1, 1), None])[0][..., 0, 0]
                compare(run, pair, "stress-free", Ps, 0 * Ps, maxabs(Ao), 1e-10 if k == 2 else 1e-5, unit)
        # with equal constants the orthotropic law is the isotropic one
        G = E / (2 * (1 + nu))
        lo_iso = fem.LinearElasticOrthotropic(E=[E] * 3, nu=[nu] * 3, G=[G] * 3)
        compare(run, "LinearElasticOrthotropic(isotropic constants)~LinearElastic", "stress", lo_iso.gradient([F, None])[0], s0, sA, 1e-12,
                "linear:orthotropic-iso")
    return fn


def case_moduli(name, rep):
    def fn(run):
        m = [x for x in C03.registry() if x.name == name][0]
        rng = rng_for(run.seed, "C12", "moduli", name, rep)
        um, p = m.make(rng)
        I = np.eye(3).reshape(3, 3, 1, 1).copy()
        sv0 = m.initial_statevars((1, 1))
        A = np.broadcast_to(np.asarray(um.hessian([I, sv0])[0], float), (3, 3, 3, 3, 1, 1))[..., 0, 0]
        mu0 = (A[0, 1, 0, 1] + A[0, 2, 0, 2] + A[1, 2, 1, 2]) / 3
        lam0 = (A[0, 0, 1, 1] + A[0, 0, 2, 2] + A[1, 1, 2, 2]) / 3
        K0 = lam0 + 2 * mu0 / 3
        s = max(maxabs(A), 1e-300)
        # measured effect of the regularisations on the moduli: <= 2 x (jax 1e-4 shift), <= 20 x (tensortrax eigvalsh) their size
        tol = (getattr(m, "moduli_tol", None) or 1e-7) + (10 if matreg.REG_SIZE[m.reg] > 1e-6 else 100) * matreg.REG_SIZE[m.reg]
        mon = "material.moduli"
        if m.isotropic and not m.microsphere:
            # (the shifts are not isotropic: diag(0, 1e-4, -1e-4) - this clause keeps 100 x their size)
            run.compare(mon, "model=%s clause=isotropic-tangent" % name, maxabs(A - iso_tensor(lam0, mu0)) / s, max(tol, 1e-7 + 100 * matreg.REG_SIZE[m.reg]),
                        "%s: tangent at F = I is not an isotropic linear-elastic tangent" % name, unit=name + ":isotropic-tangent",
                        config=(name, "isotropic"))
        if m.moduli is not None:
            mu_doc, K_doc = m.moduli(p)
            if mu_doc is not None:
                run.compare(mon, "model=%s clause=initial-shear-modulus" % name, abs(mu0 - mu_doc) / s, tol,
                            "%s: tangent at F = I has shear modulus %.6g, documented %.6g" % (name, mu0, mu_doc), unit=name + ":mu0",
                            config=(name, "mu0"), sample={"model": name, "params": {k: v for k, v in p.items() if not hasattr(v, 'shape')},
                                                          "mu0": float(mu0), "documented": float(mu_doc)})
            if K_doc is not None:
                run.compare(mon, "model=%s clause=initial-bulk-modulus" % name, abs(K0 - K_doc) / s, tol,
                            "%s: tangent at F = I has bulk modulus %.6g, documented %.6g" % (name, K0, K_doc), unit=name + ":K0",
                            config=(name, "K0"))
        if m.isochoric:
            run.compare(mon, "model=%s clause=isochoric-no-bulk-stiffness" % name, abs(K0) / s, tol,
                        "%s: a purely distortional model has a bulk stiffness at F = I" % name, unit=name + ":K0=0")
    return fn


MODULI = [n for n in C03.NAMES if not any(k in n for k in ("representative_directions", "lagrange.morph"))]


def cases(tier, seed):
    out = []
    reps = 2 if tier == "quick" else 8
    for name in SHARED:
        for rep in range(reps):
            out.append(("pair:%s:%d" % (name, rep), case_backend_pair(name, rep)))
    for name in ("morph", "morph_representative_directions"):
        for rep in range(1 if tier == "quick" else 3):
            out.append(("lagrange:%s:%d" % (name, rep), case_lagrange_pair(name, rep)))
    for which in ("NeoHooke", "NeoHookeCompressible", "OgdenRoxburgh"):
        for rep in range(reps):
            out.append(("hand:%s:%d" % (which, rep), case_hand_vs_ad(which, rep)))
    for rep in range(3 if tier == "quick" else 20):
        out.append(("linear:%d" % rep, case_linear(rep)))
    for name in MODULI:
        for rep in range(1 if tier == "quick" else 4):
            out.append(("moduli:%s:%d" % (name, rep), case_moduli(name, rep)))
    return out


def _required():
    req = []
    for n in SHARED:
        req += ["jax~tensortrax:%s:stress" % n, "jax~tensortrax:%s:elasticity" % n]
    req += ["jax~tensortrax:lagrange.morph:stress", "jax~tensortrax:lagrange.morph_representative_directions:stress",
            "NeoHooke(mu)~tt.neo_hooke:stress", "NeoHooke(mu)~jax.neo_hooke:elasticity", "hand:composite:stress", "hand:composite:elasticity", "NeoHookeCompressible~LinearElasticLargeStrain(lame_converter):stress",
            "NeoHookeCompressible~total_lagrange(S):stress", "NeoHookeCompressible~updated_lagrange(sigma):elasticity", "NeoHookeCompressible~jax.updated_lagrange(sigma):stress",
            "NeoHookeCompressible~jax.total_lagrange(S):stress",
            "OgdenRoxburgh(NeoHooke)~tt.ogden_roxburgh(neo_hooke):stress", "OgdenRoxburgh(NeoHooke)~tt.ogden_roxburgh(neo_hooke):statevars",
            "linear:definition", "linear:tensor-notation", "linear:material-strain", "linear:plane-strain", "linear:plane-stress",
            "linear:orthotropic", "linear:orthotropic-iso", "linear:orthotropic:definition", "linear:orthotropic:r3-omitted", "linear:orthotropic:r3-None", "linear:orthotropic:r3-given", "linear:plane-strain:full", "linear:plane-stress:full", "linear:orthotropic:rotated:k=2", "linear:orthotropic:rotated:k=1", "linear:orthotropic:rotated:k=0", "linear:orthotropic:rotated:k=real", "linear:orthotropic:aligned:k=2", "linear:orthotropic:aligned:k=1", "linear:orthotropic:aligned:k=0", "linear:orthotropic:aligned:k=real"]
    reg_mu = ["NeoHooke(mu,bulk)", "NeoHookeCompressible(mu,lmbda)", "LinearElasticLargeStrain(E,nu)", "tt.neo_hooke", "tt.mooney_rivlin", "tt.yeoh",
              "tt.third_order_deformation", "tt.blatz_ko", "tt.van_der_waals", "tt.storakers", "tt.extended_tube[delta=0]", "tt.ogden",
              "tt.arruda_boyce", "tt.alexander", "tt.anssari_benam_bucchi", "tt.lopez_pamies", "tt.saint_venant_kirchhoff", "jax.neo_hooke",
              "jax.mooney_rivlin", "jax.yeoh", "jax.third_order_deformation", "jax.blatz_ko", "jax.van_der_waals", "jax.storakers",
              "jax.extended_tube[delta=0]"]
    req += [n + ":mu0" for n in reg_mu]
    req += ["NeoHooke(mu,bulk):K0", "tt.storakers:K0", "jax.storakers:K0", "tt.neo_hooke:isotropic-tangent", "tt.ogden:isotropic-tangent"]
    return req


SPEC = {
    "required_units": _required(),
    "rule": ("pair registry: 9 jax~tensortrax hyperelastic namesakes and 2 lagrange namesakes, hand-coded NeoHooke / NeoHookeCompressible / "
             "OgdenRoxburgh vs their AD versions (same history for state-variable models), total/updated Lagrange wrappers, the linear-"
             "elastic family (component, tensor notation, small-strain framework, plane strain/stress vs constrained 3D, orthotropic vs "
             "orthotropic SVK at F = I through lame_converter_orthotropic); random parameters and states; documented initial moduli of "
             "every model with a closed form; a configuration is distinct by (pair or model, clause)"),
    "assumptions": ["jax storakers / extended_tube perturb C by diag(0,+-1e-4,-+1e-4): the tensortrax model function is evaluated on the "
                    "identically perturbed C (tolerance 1e-6) and the raw difference is bounded by 20 x 1e-4 x |A|",
                    "documented moduli: the docstring equations (arruda_boyce: the series; extended tube at delta = 0; van der Waals within 1e-2: its unconditional Im += 1e-4 shifts the initial modulus by O(sqrt(1e-4 / (limit^2 - 3)) + a sqrt(1e-4)))"],
    "jobs": {"quick": 12, "thorough": 16},
    "timeout": {"quick": 1200, "thorough": 5400},
}
