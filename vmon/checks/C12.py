"""C12 - independent implementations of the same model agree; documented initial moduli.

Differential monitor between the members of a pair registry (same inputs fed to both implementations) and, for every
isotropic model, the tangent at the undeformed state vs the isotropic linear-elastic tangent with the initial shear (and
bulk) modulus the model's documentation states.
"""
import numpy as np

from .. import matreg
from ..monitors import material as MM
from ..util import batch_F, maxabs, rng_for
from . import C03

SHARED = ["neo_hooke", "mooney_rivlin", "yeoh", "third_order_deformation", "blatz_ko", "van_der_waals", "storakers", "extended_tube",
          "miehe_goektepe_lulei"]
# jax storakers evaluates the whole energy on C + diag(0,-1e-4,1e-4) (eigenvalues and J): reproducible by calling the tensortrax
# model function on the identically perturbed C.  jax extended_tube perturbs only the argument of eigvalsh (I1 and J of the
# unperturbed C): not expressible through the sibling's public function, so only the size of the effect is bounded there.
JAX_SHIFT = {"storakers": np.diag([0.0, -1e-4, 1e-4])}
JAX_BOUNDED = {"extended_tube"}


def compare(run, pair, what, a, b, scale, tol, unit, config=None, sample=None):
    a, b = np.asarray(a, float), np.asarray(b, float)
    const = lambda x: x.ndim >= 2 and all(n == 1 for n in x.shape[-2:])  # a state-independent tensor with size-one batch axes
    if a.shape != b.shape and a.ndim == b.ndim and a.shape[:-2] == b.shape[:-2] and (const(a) or const(b)):
        a, b = np.broadcast_arrays(a, b)
    if a.shape != b.shape:
        # results for the same batch of states have the same layout (no broadcasting: (.., 4, 1) is not (.., 1, 4))
        run.fail("material.pairs", "pair=%s clause=%s-shape" % (pair, what), "%s: %s of the two implementations have shapes %s / %s"
                 % (pair, what, a.shape, b.shape), unit=unit)
        return
    run.compare("material.pairs", "pair=%s clause=%s" % (pair, what), maxabs(a - b) / max(scale, 1e-300), tol,
                "%s: %s of the two implementations differ on identical input" % (pair, what), unit=unit, config=config or (pair, what),
                sample=sample)


# parameters that carry the stiffness unit (the documented energies are linear in them; all other parameters are dimensionless)
STIFFNESS = {"neo_hooke": ("mu",), "mooney_rivlin": ("C10", "C01"), "yeoh": ("C10", "C20", "C30"), "third_order_deformation": ("C10", "C01", "C11", "C20", "C30"),
             "blatz_ko": ("mu",), "van_der_waals": ("mu",), "miehe_goektepe_lulei": ("mu",)}


def case_backend_pair(name, rep, nterms=None):
    def fn(run):
        import felupe.constitution.jax as JX
        import felupe.constitution.tensortrax as TT
        import tensortrax as tr
        rng = rng_for(run.seed, "C12", "pair", name, rep)
        sampler = matreg._hyper_models("jax")[name][0]
        p = sampler(rng)
        if nterms is not None:
            # term lists of another length than the registry's two (the tensortrax copy loops over the terms, the jax copy sums arrays)
            p = dict(mu=[float(rng.uniform(0.3, 1.5)) * (0.3 if i else 1.0) for i in range(nterms)],
                     alpha=[float(rng.uniform(1.2, 3)) * (-1) ** i for i in range(nterms)], beta=[float(rng.uniform(0.3, 2)) for i in range(nterms)])
            run.units["pairs:%s:terms=%d" % (name, nterms)] += 1
        a = TT.Hyperelastic(getattr(TT.models.hyperelastic, name), **p)
        b = JX.Hyperelastic(getattr(JX.models.hyperelastic, name), **p)
        batch = (1, 4 if run.tier == "quick" else 8) if rep % 2 == 0 else (2, 3)  # two non-trivial batch axes as well
        F = batch_F(rng, batch, lo=0.75, hi=1.4)
        if rep % 2 == 1:
            # coincident and nearly coincident principal stretches (regularised branches of the eigenvalue-based models):
            # undeformed, uniaxial, equibiaxial, dilatation, a gap of 1e-5 - in rotated frames
            from ..util import random_rotation
            kinds = [lambda l: np.eye(3), lambda l: np.diag([l, l ** -0.5, l ** -0.5]), lambda l: np.diag([l, l, l ** -1.2]), lambda l: l * np.eye(3),
                     lambda l: np.diag([l, l + 1e-5, 1 / l])]
            for k in range(batch[1]):
                Rm, Qm = random_rotation(rng, 3), random_rotation(rng, 3)
                F[:, :, 0, k] = Rm @ Qm @ kinds[(k + rep // 2) % 5](float(rng.uniform(0.8, 1.35))) @ Qm.T
            run.units["pairs:coincident-stretches"] += 1
        Pa, Pb = a.gradient([F, None])[0], b.gradient([F, None])[0]
        Aa, Ab = a.hessian([F, None])[0], b.hessian([F, None])[0]
        sA = maxabs(Aa)
        pair = "jax~tensortrax:" + name
        if name in JAX_SHIFT:
            # the jax model perturbs C by a documented diag(0, +-1e-4, -+1e-4): evaluate the tensortrax sibling's model
            # function on the identically perturbed C (tight), and bound the size of the effect (20 x 1e-4 x |A|)
            C = np.einsum("ki...,kj...->ij...", F, F) + JAX_SHIFT[name].reshape(3, 3, 1, 1)
            fun = getattr(TT.models.hyperelastic, name)
            dWdC = tr.gradient(fun, wrt=0, ntrax=2, sym=True)(np.ascontiguousarray(C), **p)
            Pref = MM.mm(F, 2 * np.asarray(dWdC))
            compare(run, pair, "stress[same-perturbation]", Pb, Pref, sA, 1e-6, pair + ":stress")
            compare(run, pair, "stress[bounded-effect]", Pa, Pb, sA, 20 * 1e-4, pair + ":stress-bound")
            compare(run, pair, "elasticity[bounded-effect]", Aa, Ab, sA, 50 * 1e-4, pair + ":elasticity")
        elif name in JAX_BOUNDED:
            compare(run, pair, "stress[bounded-effect]", Pa, Pb, sA, 20 * 1e-4, pair + ":stress")
            compare(run, pair, "elasticity[bounded-effect]", Aa, Ab, sA, 50 * 1e-4, pair + ":elasticity")
            # tight: the documented energy with the documented shift diag(0, 1e-4, -1e-4) inside the eigenvalues only, written here
            from tensortrax.math import log, trace, sum as tsum
            from tensortrax.math.linalg import det, eigvalsh

            def shifted(C, Gc, delta, Ge, beta):
                S = np.zeros(C.x.shape)
                S[1, 1], S[2, 2] = 1e-4, -1e-4
                J3 = det(C) ** (-1 / 3)
                D = J3 * trace(C)
                w = J3 * eigvalsh(C + S)
                g_ = (1 - delta ** 2) * (D - 3) / (1 - delta ** 2 * (D - 3))
                return Gc / 2 * (g_ + log(1 - delta ** 2 * (D - 3))) + 2 * Ge / beta ** 2 * tsum(w ** (-beta / 2) - 1)

            def Pref(G):
                C = np.ascontiguousarray(np.einsum("ki...,kj...->ij...", G, G))
                dW = np.asarray(tr.gradient(shifted, wrt=0, ntrax=2, sym=False)(C, **p))
                return MM.mm(G, dW + np.swapaxes(dW, 0, 1))
            compare(run, pair, "stress[same-perturbation]", Pb, Pref(F), sA, 1e-6, pair + ":stress-tight")
            if rep % 2 == 0:
                # (at coincident stretches tensortrax' own eigenvalue derivatives are regularised: distinct stretches only)
                compare(run, pair, "elasticity[same-perturbation]", Ab, MM.fd_wrt_F(Pref, F, 1e-6), sA, 1e-5, pair + ":elasticity-tight")
        else:
            compare(run, pair, "stress", Pa, Pb, sA, 1e-9, pair + ":stress",
                    sample={"pair": pair, "params": p, "max|P_a - P_b|": maxabs(np.asarray(Pa) - np.asarray(Pb))})
            compare(run, pair, "elasticity", Aa, Ab, sA, 1e-8, pair + ":elasticity")
            # the same pair in another unit system (stiffness parameters x 1e-9 / 1e+9 resp. 1e-6 / 1e+6): the registry draws O(1)
            # moduli only, where an absolute threshold inside a model is invisible.  Both copies must still agree, and both must
            # return exactly the scaled result (the documented energies are linear in these parameters).  The compiled jax
            # functions take the parameters as arguments: the material object is kept, its parameters are replaced.
            s_ = 10.0 ** [-9, 9, -6, 6][rep % 4]
            ps = {k: (v * s_ if k in STIFFNESS[name] else v) for k, v in p.items()}
            a_s = TT.Hyperelastic(getattr(TT.models.hyperelastic, name), **ps)
            b.kwargs.update(ps)
            Pas, Pbs = a_s.gradient([F, None])[0], b.gradient([F, None])[0]
            Aas, Abs = a_s.hessian([F, None])[0], b.hessian([F, None])[0]
            compare(run, pair, "stress[scaled units]", Pas, Pbs, sA * s_, 1e-9, pair + ":units")
            compare(run, pair, "elasticity[scaled units]", Aas, Abs, sA * s_, 1e-8, pair + ":units")
            for lab, Ps_, P1, As_, A1 in (("tensortrax", Pas, Pa, Aas, Aa), ("jax", Pbs, Pb, Abs, Ab)):
                compare(run, "%s:%s" % (lab, name), "stress[linear in the stiffness parameters]", Ps_, s_ * np.asarray(P1), sA * s_, 1e-12, pair + ":units")
                compare(run, "%s:%s" % (lab, name), "elasticity[linear in the stiffness parameters]", As_, s_ * np.asarray(A1), sA * s_, 1e-12, pair + ":units")
    return fn


def case_lagrange_pair(name, rep):
    def fn(run):
        import felupe.constitution.jax as JX
        import felupe.constitution.tensortrax as TT
        rng = rng_for(run.seed, "C12", "lagrange", name, rep)
        p = [0.039, 0.371, 0.174, 2.41, 0.0094, 6.84, 5.65, 0.244]
        nsv = 13 if name == "morph" else 84
        a = TT.Material(getattr(TT.models.lagrange, name), p=p, nstatevars=nsv)
        b = JX.Material(getattr(JX.models.lagrange, name), p=p, nstatevars=nsv)
        batch = (1, 2)
        sva = svb = np.zeros((nsv,) + batch)
        # the same history is fed to both (each keeps its own state)
        # load - unload - reload below and then beyond the former maximum (the history variables must remember the maximum)
        amps = [(0.75, 1.35), (0.93, 1.08), (0.85, 1.2), (0.7, 1.45)] if name == "morph" else [(0.8, 1.3), (0.93, 1.08)]
        for k, (lo_, hi_) in enumerate(amps):
            F = batch_F(rng, batch, lo=lo_, hi=hi_)
            Pa, sva2 = a.gradient([F, sva])
            Pb, svb2 = b.gradient([F, svb])
            A_b = b.hessian([F, svb])[0]
            sA = maxabs(A_b)
            pair = "jax~tensortrax:lagrange." + name
            reg = 1e-4 if name == "morph" else 0.0  # jax morph adds diag(1e-4, -1e-4, 0) to C
            # the 1e-4 perturbation enters the evolution equations (exponentials with p[5], p[6] ~ 6): bound 200 x 1e-4
            compare(run, pair, "stress", Pa, Pb, sA, 1e-8 + 200 * reg, pair + ":stress", config=(pair, "stress", k))
            compare(run, pair, "statevars", sva2, svb2, max(maxabs(svb2), 1e-300), 1e-8 + 200 * reg, pair + ":statevars")
            A_a = a.hessian([F, sva])[0]
            compare(run, pair, "elasticity", A_a, A_b, sA, 1e-7 + 50 * reg, pair + ":elasticity")
            if name == "morph":
                if k == 0:
                    # first step from the virgin state: no increment of C has entered the evolution equations yet (L = 0, S_A = 0),
                    # the stress is 2 alpha dev(C^) C^-1 and the backends differ by the bare 1e-4 shift in C^_T (measured <= 1.3e-6 |A|)
                    compare(run, pair, "stress[virgin state]", Pa, Pb, sA, 1e-4, pair + ":stress:virgin")
                # the elasticity clause above is a recorded finding (its key passes at any size, non-finite included): what the record
                # does not cover stays judged under keys of its own - finite entries, and a size within the recorded order of
                # magnitude (recorded ~1e-2, largest of 1500 draws 7e-2)
                fin = bool(np.all(np.isfinite(np.asarray(A_a, float))) and np.all(np.isfinite(np.asarray(A_b, float))))
                run.compare("material.pairs", "pair=%s clause=elasticity-finite" % pair, 0.0 if fin else np.inf, 0.5,
                            "%s: non-finite entries in the elasticity tensor of one implementation" % pair, unit=pair + ":elasticity:finite")
                compare(run, pair, "elasticity[recorded size]", A_a, A_b, sA, 0.5, pair + ":elasticity:recorded-size")
            sva, svb = np.asarray(sva2), np.asarray(svb2)
    return fn


def case_hand_vs_ad(which, rep):
    def fn(run):
        import felupe as fem
        import felupe.constitution.jax as JX
        rng = rng_for(run.seed, "C12", "hand", which, rep)
        batch = (1, 5)
        F = batch_F(rng, batch, lo=0.75, hi=1.4)
        mu, lm = float(rng.uniform(0.5, 2)), float(rng.uniform(1, 4))
        if which == "NeoHooke":
            impl = {"NeoHooke(mu)": fem.NeoHooke(mu=mu), "tt.neo_hooke": fem.Hyperelastic(fem.neo_hooke, mu=mu),
                    "jax.neo_hooke": JX.Hyperelastic(JX.models.hyperelastic.neo_hooke, mu=mu)}
            svs = {k: None for k in impl}
            # the same law offered in one piece and as the sum of its distortional and volumetric parts (bulk-only mode): at volume-
            # changing states (the initial bulk modulus alone does not see the pressure-dependent terms)
            bulk = float(rng.uniform(2, 30))
            Fv = F * rng.uniform(0.85, 1.2, (1, 1) + batch)
            full, parts = fem.NeoHooke(mu=mu, bulk=bulk), fem.NeoHooke(mu=mu) & fem.Volumetric(bulk=bulk)
            Pf, Af = full.gradient([Fv, None])[0], full.hessian([Fv, None])[0]
            compare(run, "NeoHooke(mu,bulk)~NeoHooke(mu)&Volumetric(bulk)", "stress", parts.gradient([Fv, None])[0], Pf, maxabs(Af), 1e-12, "hand:composite:stress")
            compare(run, "NeoHooke(mu,bulk)~NeoHooke(mu)&Volumetric(bulk)", "elasticity", parts.hessian([Fv, None])[0], Af, maxabs(Af), 1e-12, "hand:composite:elasticity")
            # (fourth audit) Volumetric is a subclass of NeoHooke: both sides of the pair above run the same lines for the bulk part, and no
            # automatic-differentiation sibling has one.  The law in one piece and the bulk-only law against the documented energy
            # mu / 2 (J^(-2/3) tr C - 3) + K (J - 1)^2 / 2 differentiated by hand (numpy), and against the same energy written here and
            # differentiated by tensortrax - at the volume-changing states, where the pressure terms of the tangent do not vanish
            from tensortrax.math import sqrt as tsqrt, trace as ttrace
            from tensortrax.math.linalg import det as tdet

            def W_bulk(C, mu, bulk):
                J = tsqrt(tdet(C))
                return mu / 2 * (J ** (-2 / 3) * ttrace(C) - 3) + bulk * (J - 1) ** 2 / 2
            Pd, Ad = neo_hooke_bulk_closed_form(Fv, mu, bulk)
            compare(run, "NeoHooke(mu,bulk)~definition", "stress", Pf, Pd, maxabs(Ad), 1e-12, "hand:bulk:definition:stress",
                    sample={"pair": "NeoHooke(mu,bulk)~definition", "mu": mu, "bulk": bulk})
            compare(run, "NeoHooke(mu,bulk)~definition", "elasticity", Af, Ad, maxabs(Ad), 1e-12, "hand:bulk:definition:elasticity")
            ad = fem.Hyperelastic(W_bulk, mu=mu, bulk=bulk)
            compare(run, "NeoHooke(mu,bulk)~tt.Hyperelastic(own energy with bulk)", "stress", Pf, ad.gradient([Fv, None])[0], maxabs(Ad), 1e-12, "hand:bulk:ad:stress")
            compare(run, "NeoHooke(mu,bulk)~tt.Hyperelastic(own energy with bulk)", "elasticity", Af, ad.hessian([Fv, None])[0], maxabs(Ad), 1e-12, "hand:bulk:ad:elasticity")
            vol = fem.Volumetric(bulk=bulk)
            Pv, Av = neo_hooke_bulk_closed_form(Fv, 0.0, bulk)
            compare(run, "Volumetric(bulk)~definition", "stress", vol.gradient([Fv, None])[0], Pv, maxabs(Av), 1e-12, "hand:volumetric:definition")
            compare(run, "Volumetric(bulk)~definition", "elasticity", vol.hessian([Fv, None])[0], Av, maxabs(Av), 1e-12, "hand:volumetric:definition")
        elif which == "NeoHookeCompressible":
            reg = {m.name: m for m in C03.registry()}
            E = mu * (3 * lm + 2 * mu) / (lm + mu)
            nu = lm / (2 * (lm + mu))
            tl, _ = reg["tt.total_lagrange(neo-hooke S)"].make(rng)
            ul, _ = reg["tt.updated_lagrange(neo-hooke sigma)"].make(rng)
            tl.kwargs.update(mu=mu, lmbda=lm)
            ul.kwargs.update(mu=mu, lmbda=lm)
            tlj, _ = reg["jax.total_lagrange(neo-hooke S)"].make(rng)
            ulj, _ = reg["jax.updated_lagrange(neo-hooke sigma)"].make(rng)
            tlj.kwargs.update(mu=mu, lmbda=lm)
            ulj.kwargs.update(mu=mu, lmbda=lm)
            impl = {"NeoHookeCompressible": fem.NeoHookeCompressible(mu=mu, lmbda=lm), "LinearElasticLargeStrain(lame_converter)": fem.LinearElasticLargeStrain(E=E, nu=nu),
                    "total_lagrange(S)": tl, "updated_lagrange(sigma)": ul, "jax.total_lagrange(S)": tlj, "jax.updated_lagrange(sigma)": ulj}
            svs = {k: None for k in impl}
        elif which == "OgdenRoxburgh":
            r, m, beta = float(rng.uniform(1.5, 4)), float(rng.uniform(0.5, 2)), float(rng.uniform(0, 0.3))
            impl = {"OgdenRoxburgh(NeoHooke)": fem.OgdenRoxburgh(fem.NeoHooke(mu=mu), r=r, m=m, beta=beta),
                    "tt.ogden_roxburgh(neo_hooke)": fem.Hyperelastic(fem.ogden_roxburgh, material=fem.neo_hooke, mu=mu, r=r, m=m, beta=beta, nstatevars=1)}
            svs = {k: np.zeros((1,) + batch) for k in impl}
            # the same history fed to both: load, (partially) unload
            for k in range(3):
                Fk = batch_F(rng, batch, lo=0.7, hi=1.6) if k < 2 else F
                for nm in impl:
                    svs[nm] = np.asarray(impl[nm].gradient([Fk, svs[nm]])[-1])
            # F itself was the last step: evaluate once more at a state inside the history (unloading branch)
            F = batch_F(rng, batch, lo=0.9, hi=1.15)  # mostly below the stored maximum energy
        names = list(impl)
        ref = names[0]
        Pr = impl[ref].gradient([F, svs[ref]])
        Ar = impl[ref].hessian([F, svs[ref]])[0]
        sA = maxabs(Ar)
        for nm in names[1:]:
            pair = "%s~%s" % (ref, nm)
            g = impl[nm].gradient([F, svs[nm]])
            compare(run, pair, "stress", g[0], Pr[0], sA, 1e-9, pair + ":stress", sample={"pair": pair, "mu": mu})
            compare(run, pair, "elasticity", impl[nm].hessian([F, svs[nm]])[0], Ar, sA, 1e-8, pair + ":elasticity")
            if svs[ref] is not None:
                compare(run, pair, "statevars", g[-1], Pr[-1], max(maxabs(Pr[-1]), 1e-300), 1e-10, pair + ":statevars")
    return fn


def iso_tensor(lmbda, mu, d=3):
    I = np.eye(d)
    return lmbda * np.einsum("ij,kl->ijkl", I, I) + mu * (np.einsum("ik,jl->ijkl", I, I) + np.einsum("il,jk->ijkl", I, I))


# ------------------------------------------------------------------------------------------------ references written with numpy only
def ortho_stiffness(E, nu, G):
    """Orthotropic stiffness tensor in the material axes from its definition: normal block = inverse of the compliance matrix of
    the engineering constants E = (E1, E2, E3), nu = (nu12, nu23, nu31); shear terms G = (G12, G23, G31)."""
    Sm = np.array([[1 / E[0], -nu[0] / E[0], -nu[2] / E[2]], [-nu[0] / E[0], 1 / E[1], -nu[1] / E[1]], [-nu[2] / E[2], -nu[1] / E[1], 1 / E[2]]])
    Cm = np.linalg.inv(Sm)
    A = np.zeros((3, 3, 3, 3))
    for i in range(3):
        for j in range(3):
            A[i, i, j, j] = Cm[i, j]
    for (i, j), g in zip(((0, 1), (1, 2), (2, 0)), G):
        A[i, j, i, j] = A[j, i, j, i] = A[i, j, j, i] = A[j, i, i, j] = g
    return A


def rotate4(Q, A):
    return np.einsum("ia,jb,kc,ld,abcd->ijkl", Q, Q, Q, Q, A)


def svk_closed_form(F, C4):
    """Saint-Venant Kirchhoff law with the Green-Lagrange strain (k = 2) and a constant stiffness C4 (global axes): S = C4 : E,
    P = F S, dP_iJ / dF_kL = delta_ik S_LJ + F_iI C4_IJLM F_kM."""
    C = np.einsum("ki...,kj...->ij...", F, F)
    E = (C - np.eye(3).reshape((3, 3) + (1,) * (F.ndim - 2))) / 2
    S = np.einsum("ijkl,kl...->ij...", C4, E)
    A = np.einsum("ik,lj...->ijkl...", np.eye(3), S) + np.einsum("iI...,IJLM,kM...->iJkL...", F, C4, F)
    return MM.mm(F, S), A


def seth_hill_energy(F, C4, k):
    """W = E_k : C4 : E_k / 2 with the Seth-Hill strain E_k = sum_a f_k(lambda_a) N_a (x) N_a, f_k = (lambda^k - 1) / k resp. ln lambda,
    from numpy's eigen-decomposition of C (point by point)."""
    out = np.zeros(F.shape[2:])
    for idx in np.ndindex(*F.shape[2:]):
        f = F[(slice(None), slice(None), *idx)]
        w, N = np.linalg.eigh(f.T @ f)
        e = np.log(w) / 2 if k == 0 else (w ** (k / 2) - 1) / k
        E = (N * e) @ N.T
        out[idx] = np.einsum("ij,ijkl,kl->", E, C4, E) / 2
    return out


def principal_stress(F, dWdl):
    """First Piola-Kirchhoff stress of an isotropic energy W(lambda_1, lambda_2, lambda_3): P = sum_a dW/dlambda_a n_a (x) N_a, with the
    principal stretches and directions from numpy's singular value decomposition F = U diag(lambda) V^T (point by point)."""
    P = np.zeros(F.shape)
    for idx in np.ndindex(*F.shape[2:]):
        U, s, Vt = np.linalg.svd(F[(slice(None), slice(None), *idx)])
        P[(slice(None), slice(None), *idx)] = (U * dWdl(s)) @ Vt
    return P


def ogden_dWdl(mu, alpha):
    # psi = sum_i 2 mu_i / alpha_i^2 (sum_a lb_a^alpha_i - 3) with the distortional stretches lb_a = J^(-1/3) l_a
    def dWdl(l):
        lb = l / np.prod(l) ** (1 / 3)
        return sum(2 * m / a * (lb ** a - np.mean(lb ** a)) for m, a in zip(mu, alpha)) / l
    return dWdl


def storakers_dWdl(mu, alpha, beta):
    # psi = sum_i 2 mu_i / alpha_i^2 (sum_a l_a^alpha_i - 3 + (J^(-alpha_i beta_i) - 1) / beta_i)
    def dWdl(l):
        J = np.prod(l)
        return sum(2 * m / a * (l ** a - J ** (-a * b)) for m, a, b in zip(mu, alpha, beta)) / l
    return dWdl


def svk_dWdl(mu, lmbda, k):
    # psi = mu sum_a e_a^2 + lmbda / 2 (sum_a e_a)^2 with the principal Seth-Hill strains e_a = (l_a^k - 1) / k resp. ln l_a
    def dWdl(l):
        e = np.log(l) if k == 0 else (l ** k - 1) / k
        return (2 * mu * e + lmbda * np.sum(e)) * l ** (k - 1)
    return dWdl


def neo_hooke_bulk_closed_form(F, mu, bulk):
    """Nearly-incompressible Neo-Hooke law from its documented energy psi = mu / 2 (J^(-2/3) tr C - 3) + K (J - 1)^2 / 2, differentiated by
    hand and written with numpy (point by point): P = mu J^(-2/3) (F - tr C / 3 F^-T) + K (J - 1) J F^-T,
    dP_iJ / dF_kL = mu J^(-2/3) (d_ik d_JL - 2/3 (F_iJ G_kL + G_iJ F_kL) + 2/9 tr C G_iJ G_kL + tr C / 3 G_iL G_kJ) + K J (2 J - 1) G_iJ G_kL
    - K (J - 1) J G_iL G_kJ with G = F^-T."""
    P, A = np.zeros(F.shape), np.zeros((3, 3, 3, 3) + F.shape[2:])
    I = np.eye(3)
    for idx in np.ndindex(*F.shape[2:]):
        f = F[(slice(None), slice(None), *idx)]
        J, G, trC = np.linalg.det(f), np.linalg.inv(f).T, np.sum(f * f)
        GG, GxG = np.einsum("ij,kl->ijkl", G, G), np.einsum("il,kj->ijkl", G, G)
        P[(slice(None), slice(None), *idx)] = mu * J ** (-2 / 3) * (f - trC / 3 * G) + bulk * (J - 1) * J * G
        A[(slice(None),) * 4 + idx] = (mu * J ** (-2 / 3) * (np.einsum("ik,jl->ijkl", I, I) - 2 / 3 * (np.einsum("ij,kl->ijkl", f, G) + np.einsum("ij,kl->ijkl", G, f))
                                                          + 2 / 9 * trC * GG + trC / 3 * GxG) + bulk * J * (2 * J - 1) * GG - bulk * (J - 1) * J * GxG)
    return P, A


def langevin_derivatives(mu, N):
    """f'(1), f''(1) of the documented Langevin chain energy f = mu N (x L + ln(L / sinh L)), x = stretch / sqrt(N), with the documented Pade
    approximation L = x (3 - x^2) / (1 - x^2) of the inverse Langevin function (derivatives taken by hand)."""
    x = 1 / np.sqrt(N)
    L, L1, L2 = x * (3 - x ** 2) / (1 - x ** 2), (3 + x ** 4) / (1 - x ** 2) ** 2, (4 * x ** 3 + 12 * x) / (1 - x ** 2) ** 3
    g1 = L + x * L1 + L1 / L - L1 / np.tanh(L)
    g2 = 2 * L1 + x * L2 + L2 / L - L1 ** 2 / L ** 2 + L1 ** 2 / np.sinh(L) ** 2 - L2 / np.tanh(L)
    return mu * np.sqrt(N) * g1, mu * g2


def microsphere_mu0(framework, f1, f2, e=None):
    """Initial shear modulus of the micro-sphere frameworks with a chain energy f (f1 = f'(1), f2 = f''(1)) from the exact averages over
    the unit sphere <r_i r_j> = d_ij / 3, <r_i r_j r_k r_l> = (d_ij d_kl + d_ik d_jl + d_il d_jk) / 15 (no quadrature rule): with the isochoric
    stretch diag(e^t, e^-t, 1) the energy is 2 mu0 t^2 + O(t^3); affine: <f(lb)>, non-affine stretch: f(<lb^p>^(1/p)), tube: f(<nu^q>)."""
    if framework in ("affine_stretch", "affine_tube"):
        return (4 * f1 + f2) / 15
    return f1 * (e + 3) / 15 if framework == "nonaffine_stretch" else f1 * e * (e + 3) / 15


# chain energies of the check's own (the caller may hand any function of the stretch to the frameworks)
def chain_power(stretch, c, n):
    return c * (stretch ** n - 1) / n  # f'(1) = c, f''(1) = c (n - 1)


def chain_even(stretch, a):
    return a[0] * stretch ** 2 + a[1] * stretch ** 4 + a[2] * stretch ** 6


def microsphere_exact(C, framework, a, c, n, e):
    """Energy of the four frameworks where the average over the unit sphere is known in closed form: even powers of the stretch are
    polynomials in r, <r.B.r> = tr B / 3, <(r.B.r)^2> = (tr^2 B + 2 tr B^2) / 15, <(r.B.r)^3> = (tr^3 B + 6 tr B tr B^2 + 8 tr B^3) / 105 with
    B the unimodular C (stretch) resp. its inverse (area stretch); degree <= 6, integrated exactly by the documented degree-9 rule.
    affine_*: chain_even; nonaffine_stretch (p = e) / nonaffine_tube (q = e), e in (2, 4, 6): chain_power of the averaged stretch."""
    from tensortrax.math import trace
    from tensortrax.math.linalg import det, inv
    B = det(C) ** (-1 / 3) * C
    if framework.endswith("tube"):
        B = inv(B)
    B2 = B @ B
    t1, t2, t3 = trace(B), trace(B2), trace(B2 @ B)
    m = [t1 / 3, (t1 ** 2 + 2 * t2) / 15, (t1 ** 3 + 6 * t1 * t2 + 8 * t3) / 105]
    if framework.startswith("affine"):
        return a[0] * m[0] + a[1] * m[1] + a[2] * m[2]
    return chain_power(m[e // 2 - 1] ** (1 / e) if framework == "nonaffine_stretch" else m[e // 2 - 1], c, n)


def case_linear(rep, flavour=None):
    def fn(run):
        import felupe as fem
        rng = rng_for(run.seed, "C12", "linear", rep) if flavour is None else rng_for(run.seed, "C12", "linear", flavour, rep)
        E = float(10 ** rng.uniform(-1, 3))
        nu = float(rng.uniform(0.0, 0.49))
        batch = (2, 3)
        F = np.eye(3).reshape(3, 3, 1, 1) + 0.01 * rng.standard_normal((3, 3) + batch)
        Ein, nuin, par = E, nu, {}
        if flavour == "auxetic":
            # admissible engineering constants the other repetitions do not draw: negative Poisson ratios (-1 < nu < 0), constants
            # handed over as numpy scalars, 0-d arrays or integers, and the threaded evaluation of the tensor-notation law
            nu = nuin = -float(rng.uniform(0.05, 0.9))
            E = float(rng.integers(1, 1000))
            Ein, nuin = [(int(E), np.float64(nu)), (np.array(E), np.array(nu)), (np.float64(E), nu)][rep % 3]
            par = {"parallel": True}
            run.units["linear:auxetic"] += 1
        le = fem.LinearElastic(E=Ein, nu=nuin)
        tn = fem.constitution.LinearElasticTensorNotation(E=Ein, nu=nuin, **par)
        lm, mu = fem.constitution.lame_converter(E, nu)
        if flavour is not None:
            # (the converter is judged as well, against the textbook relations)
            compare(run, "lame_converter~definition", "constants", [lm, mu], [E * nu / ((1 + nu) * (1 - 2 * nu)), E / (2 * (1 + nu))], E, 1e-12, "linear:lame-converter")
        ms = fem.MaterialStrain(material=fem.linear_elastic, λ=lm, μ=mu)
        s0 = le.gradient([F, None])[0]
        A0 = np.broadcast_to(le.hessian([F, None])[0], (3, 3, 3, 3) + batch)
        sA = maxabs(A0)
        # reference from the definition (oracle): sigma = lambda tr(eps) I + 2 mu eps
        eps = (F - np.eye(3).reshape(3, 3, 1, 1))
        eps = (eps + eps.transpose(1, 0, 2, 3)) / 2
        sig_ref = lm * np.trace(eps) * np.eye(3).reshape(3, 3, 1, 1) + 2 * mu * eps
        compare(run, "LinearElastic~definition", "stress", s0, sig_ref, sA, 1e-12, "linear:definition")
        compare(run, "LinearElastic~definition", "elasticity", A0, iso_tensor(lm, mu).reshape(3, 3, 3, 3, 1, 1), sA, 1e-12, "linear:definition")
        compare(run, "LinearElastic~TensorNotation", "stress", tn.gradient([F, None])[0], s0, sA, 1e-12, "linear:tensor-notation",
                sample={"pair": "LinearElastic~LinearElasticTensorNotation", "E": E, "nu": nu})
        compare(run, "LinearElastic~TensorNotation", "elasticity", tn.hessian([F, None], shape=batch)[0], A0, sA, 1e-12, "linear:tensor-notation")
        # the elasticity tensors asked for without a state (x=None, shape=<trailing axes>): documented signature, used by no other call
        Adef_ = np.broadcast_to(iso_tensor(lm, mu).reshape(3, 3, 3, 3, 1, 1), (3, 3, 3, 3) + batch)
        compare(run, "LinearElastic~definition", "elasticity[x=None,shape]", le.hessian(shape=batch)[0], Adef_, sA, 1e-12, "linear:hessian-without-state")
        compare(run, "LinearElastic~TensorNotation", "elasticity[x=None,shape]", tn.hessian(shape=batch)[0], Adef_, sA, 1e-12, "linear:hessian-without-state")
        sv = np.zeros((ms.x[-1].shape[0],) + batch)
        compare(run, "LinearElastic~MaterialStrain(linear_elastic)", "stress", ms.gradient([F, sv])[0], s0, sA, 1e-12, "linear:material-strain")
        compare(run, "LinearElastic~MaterialStrain(linear_elastic)", "elasticity", ms.hessian([F, sv])[0], A0, sA, 1e-12, "linear:material-strain")
        # second increment on top of the stored state of the small-strain framework (total stress must still agree)
        sv1 = ms.gradient([F, sv])[-1]
        F2 = F + 0.005 * rng.standard_normal(F.shape)
        compare(run, "LinearElastic~MaterialStrain(linear_elastic)", "stress[2nd increment]", ms.gradient([F2, sv1])[0], le.gradient([F2, None])[0], sA, 1e-12,
                "linear:material-strain")
        # plane strain / plane stress vs the 3D law under the corresponding constraint
        F2d = np.eye(2).reshape(2, 2, 1, 1) + 0.01 * rng.standard_normal((2, 2) + batch)
        pe = fem.constitution.LinearElasticPlaneStrain(E=Ein, nu=nuin)
        ps = fem.LinearElasticPlaneStress(E=Ein, nu=nuin)
        F3 = np.zeros((3, 3) + batch)
        F3[:2, :2] = F2d
        F3[2, 2] = 1.0
        s3 = le.gradient([F3, None])[0]
        compare(run, "PlaneStrain~3D(eps33=0)", "stress", pe.gradient([F2d, None])[0], s3[:2, :2], sA, 1e-12, "linear:plane-strain")
        A3 = le.hessian([F3, None])[0][..., 0, 0]
        compare(run, "PlaneStrain~3D(eps33=0)", "elasticity", pe.hessian([F2d, None])[0][..., 0, 0], A3[:2, :2, :2, :2], sA, 1e-12, "linear:plane-strain")
        e33 = -nu / (1 - nu) * (F2d[0, 0] - 1 + F2d[1, 1] - 1)
        F3s = F3.copy()
        F3s[2, 2] = 1 + e33
        s3s = le.gradient([F3s, None])[0]
        compare(run, "PlaneStress~3D(sigma33=0)", "constraint", s3s[2, 2], 0 * s3s[2, 2], sA, 1e-12, "linear:plane-stress")
        compare(run, "PlaneStress~3D(sigma33=0)", "stress", ps.gradient([F2d, None])[0], s3s[:2, :2], sA, 1e-12, "linear:plane-stress")
        cond = A3[:2, :2, :2, :2] - np.einsum("ij,kl->ijkl", A3[:2, :2, 2, 2], A3[2, 2, :2, :2]) / A3[2, 2, 2, 2]
        compare(run, "PlaneStress~3D(sigma33=0)", "elasticity", ps.hessian([F2d, None])[0][..., 0, 0], cond, sA, 1e-12, "linear:plane-stress")
        compare(run, "PlaneStress~3D(sigma33=0)", "elasticity[x=None,shape]", ps.hessian(shape=batch)[0], np.broadcast_to(cond.reshape(2, 2, 2, 2, 1, 1), (2, 2, 2, 2) + batch), sA,
                1e-12, "linear:hessian-without-state")
        # the full (3x3) stress and strain the two plane laws report: the 3D law under the corresponding constraint
        sym3 = lambda G: 0.5 * (G + G.transpose(1, 0, 2, 3)) - np.eye(3).reshape(3, 3, 1, 1)
        for lab, law, F3c, unit in (("PlaneStrain~3D(eps33=0)", pe, F3, "linear:plane-strain:full"),
                                    ("PlaneStress~3D(sigma33=0)", ps, F3s, "linear:plane-stress:full")):
            compare(run, lab, "stress-3x3", law.stress([F2d, None])[0], le.gradient([F3c, None])[0], sA, 1e-12, unit)
            compare(run, lab, "strain-3x3", law.strain([F2d, None])[0], sym3(F3c), 1.0, 1e-12, unit)
        # orthotropic linear elasticity vs orthotropic Saint-Venant Kirchhoff at F = I through the provided converter
        Eo, nuo, Go = list(rng.uniform(5, 15, 3)), list(rng.uniform(0.1, 0.3, 3)), list(rng.uniform(1, 4, 3))
        lo = fem.LinearElasticOrthotropic(E=Eo, nu=nuo, G=Go)
        lmo, muo = fem.constitution.lame_converter_orthotropic(E=Eo, nu=nuo, G=Go)
        I3 = np.eye(3)
        svk = fem.Hyperelastic(fem.saint_venant_kirchhoff_orthotropic, mu=muo, lmbda=lmo, r1=I3[:, 0], r2=I3[:, 1], r3=I3[:, 2])
        Ao = lo.hessian([np.eye(3).reshape(3, 3, 1, 1), None])[0][..., 0, 0]
        As = svk.hessian([np.eye(3).reshape(3, 3, 1, 1), None])[0][..., 0, 0]
        compare(run, "LinearElasticOrthotropic~svk_orthotropic(F=I)", "elasticity", As, Ao, maxabs(Ao), 1e-10, "linear:orthotropic",
                sample={"pair": "orthotropic", "E": Eo, "nu": nuo, "G": Go})
        # the orthotropic law itself against its definition: normal block = inverse of the compliance matrix built from the
        # engineering constants E = (E1, E2, E3), nu = (nu12, nu23, nu31), G = (G12, G23, G31); shear terms = G
        Sm = np.array([[1 / Eo[0], -nuo[0] / Eo[0], -nuo[2] / Eo[2]], [-nuo[0] / Eo[0], 1 / Eo[1], -nuo[1] / Eo[1]], [-nuo[2] / Eo[2], -nuo[1] / Eo[1], 1 / Eo[2]]])
        Cm = np.linalg.inv(Sm)
        Adef = np.zeros((3, 3, 3, 3))
        for i_ in range(3):
            for j_ in range(3):
                Adef[i_, i_, j_, j_] = Cm[i_, j_]
        for (i_, j_), g_ in zip(((0, 1), (1, 2), (2, 0)), Go):
            Adef[i_, j_, i_, j_] = Adef[j_, i_, j_, i_] = Adef[i_, j_, j_, i_] = Adef[j_, i_, i_, j_] = g_
        compare(run, "LinearElasticOrthotropic~definition", "elasticity", Ao, Adef, maxabs(Adef), 1e-12, "linear:orthotropic:definition",
                sample={"pair": "orthotropic definition", "E": Eo, "nu": nuo, "G": Go})
        compare(run, "LinearElasticOrthotropic~definition", "elasticity[x=None,shape]", lo.hessian(shape=batch)[0], np.broadcast_to(Adef.reshape(3, 3, 3, 3, 1, 1), (3, 3, 3, 3) + batch),
                maxabs(Adef), 1e-12, "linear:hessian-without-state")
        Fo_ = np.eye(3).reshape(3, 3, 1, 1) + 0.01 * rng.standard_normal((3, 3) + batch)
        eo_ = 0.5 * (Fo_ + Fo_.transpose(1, 0, 2, 3)) - np.eye(3).reshape(3, 3, 1, 1)
        compare(run, "LinearElasticOrthotropic~definition", "stress", lo.gradient([Fo_, None])[0], np.einsum("ijkl,kl...->ij...", Adef, eo_), maxabs(Adef), 1e-12,
                "linear:orthotropic:definition")
        # ... for material axes in general position (the linear law is rotated into them by the oracle) and for every
        # Seth-Hill exponent (all strain measures coincide to first order at the undeformed state)
        from ..util import random_rotation
        Qr = random_rotation(rng, 3)
        for axes, Q in (("aligned", I3[:, [1, 2, 0]] if rep % 2 else I3), ("rotated", Qr)):
            Aq = np.einsum("ia,jb,kc,ld,abcd->ijkl", Q, Q, Q, Q, Ao)
            for k in (2, 1, 0, float(np.round(rng.uniform(-2, 3), 2))):
                kw = {} if k == 2 else {"k": k}
                # the third axis given, given as None, or left out (documented default: r1 x r2)
                r3kw = [{"r3": Q[:, 2]}, {"r3": None}, {}][(rep + int(k == 2)) % 3]
                svk = fem.Hyperelastic(fem.saint_venant_kirchhoff_orthotropic, mu=muo, lmbda=lmo, r1=Q[:, 0], r2=Q[:, 1], **r3kw, **kw)
                run.units["linear:orthotropic:r3-%s" % ("given" if r3kw.get("r3") is not None else ("None" if r3kw else "omitted"))] += 1
                As = svk.hessian([np.eye(3).reshape(3, 3, 1, 1), None])[0][..., 0, 0]
                kk = k if k in (2, 1, 0) else "real"
                pair = "LinearElasticOrthotropic~svk_orthotropic(F=I,%s axes,k%s%s)" % (axes, "=2" if k == 2 else "!=2", "" if (r3kw or k != 2) else ",r3 omitted")
                unit = "linear:orthotropic:%s:k=%s" % (axes, kk)
                compare(run, pair, "elasticity", As, Aq, maxabs(Ao), 1e-10 if k == 2 else 1e-5, unit,
                        sample={"pair": "orthotropic " + axes, "k": k, "E": Eo, "nu": nuo, "G": Go})
                Ps = svk.gradient([np.eye(3).reshape(3, 3, 1, 1), None])[0][..., 0, 0]
                compare(run, pair, "stress-free", Ps, 0 * Ps, maxabs(Ao), 1e-10 if k == 2 else 1e-5, unit)
                if k != 2 and axes == "rotated":
                    # the elasticity clause of this pair is a recorded finding (third-party eigh; its key passes at any size, non-
                    # finite included): finite entries and a size within the recorded range (5e-2..2e-1, largest of 1900 draws
                    # 0.24) stay judged under a key of their own; the model itself is judged at the stress level by case_svk
                    compare(run, pair, "elasticity[recorded size]", As, Aq, maxabs(Ao), 0.75, unit + ":recorded-size")
        # with equal constants the orthotropic law is the isotropic one
        G = E / (2 * (1 + nu))
        lo_iso = fem.LinearElasticOrthotropic(E=[Ein] * 3, nu=[nuin] * 3, G=[G] * 3)
        compare(run, "LinearElasticOrthotropic(isotropic constants)~LinearElastic", "stress", lo_iso.gradient([F, None])[0], s0, sA, 1e-12,
                "linear:orthotropic-iso")
    return fn


def case_moduli(name, rep):
    def fn(run):
        m = [x for x in C03.registry() if x.name == name][0]
        rng = rng_for(run.seed, "C12", "moduli", name, rep)
        um, p = m.make(rng)
        I = np.eye(3).reshape(3, 3, 1, 1).copy()
        sv0 = m.initial_statevars((1, 1))
        A = np.broadcast_to(np.asarray(um.hessian([I, sv0])[0], float), (3, 3, 3, 3, 1, 1))[..., 0, 0]
        mu0 = (A[0, 1, 0, 1] + A[0, 2, 0, 2] + A[1, 2, 1, 2]) / 3
        lam0 = (A[0, 0, 1, 1] + A[0, 0, 2, 2] + A[1, 1, 2, 2]) / 3
        K0 = lam0 + 2 * mu0 / 3
        s = max(maxabs(A), 1e-300)
        # measured effect of the regularisations on the moduli: <= 2 x (jax 1e-4 shift), <= 20 x (tensortrax eigvalsh) their size
        tol = (getattr(m, "moduli_tol", None) or 1e-7) + (10 if matreg.REG_SIZE[m.reg] > 1e-6 else 100) * matreg.REG_SIZE[m.reg]
        mon = "material.moduli"
        if m.isotropic and not m.microsphere:
            # (the shifts are not isotropic: diag(0, 1e-4, -1e-4) - this clause keeps 100 x their size)
            run.compare(mon, "model=%s clause=isotropic-tangent" % name, maxabs(A - iso_tensor(lam0, mu0)) / s, max(tol, 1e-7 + 100 * matreg.REG_SIZE[m.reg]),
                        "%s: tangent at F = I is not an isotropic linear-elastic tangent" % name, unit=name + ":isotropic-tangent",
                        config=(name, "isotropic"))
        if m.moduli is not None:
            mu_doc, K_doc = m.moduli(p)
            if mu_doc is not None:
                run.compare(mon, "model=%s clause=initial-shear-modulus" % name, abs(mu0 - mu_doc) / s, tol,
                            "%s: tangent at F = I has shear modulus %.6g, documented %.6g" % (name, mu0, mu_doc), unit=name + ":mu0",
                            config=(name, "mu0"), sample={"model": name, "params": {k: v for k, v in p.items() if not hasattr(v, 'shape')},
                                                          "mu0": float(mu0), "documented": float(mu_doc)})
            if name.endswith(".blatz_ko"):
                # the docstring states the Poisson ratio nu = 0.25 of the model: K = 2 mu (1 + nu) / (3 (1 - 2 nu)) = 5 mu / 3
                K_doc = 5 * p["mu"] / 3
            if K_doc is not None:
                run.compare(mon, "model=%s clause=initial-bulk-modulus" % name, abs(K0 - K_doc) / s, tol,
                            "%s: tangent at F = I has bulk modulus %.6g, documented %.6g" % (name, K0, K_doc), unit=name + ":K0",
                            config=(name, "K0"))
        if m.isochoric:
            run.compare(mon, "model=%s clause=isochoric-no-bulk-stiffness" % name, abs(K0) / s, tol,
                        "%s: a purely distortional model has a bulk stiffness at F = I" % name, unit=name + ":K0=0")
    return fn


EIG_TOL = 1e-7 + 100 * matreg.REG_SIZE["tt-eig"]  # class tolerance of results that go through tensortrax' perturbed eigvalsh / eigh


def case_svk(rep):
    """Saint-Venant Kirchhoff laws at finite strain.  The orthotropic law is judged at F = I only by case_linear, where every Seth-Hill
    strain coincides with the linear strain: a wrong strain family, exponent or eigenbasis contraction is invisible there."""
    def fn(run):
        import felupe as fem
        from ..util import random_rotation
        rng = rng_for(run.seed, "C12", "svk", rep)
        batch = (2, 3) if rep % 2 == 0 else (1, 4)
        F = batch_F(rng, batch, lo=0.8, hi=1.3)
        Eo, nuo, Go = list(rng.uniform(5, 15, 3)), list(rng.uniform(0.1, 0.3, 3)), list(rng.uniform(1, 4, 3))
        lmo, muo = fem.constitution.lame_converter_orthotropic(E=Eo, nu=nuo, G=Go)
        Adef = ortho_stiffness(Eo, nuo, Go)
        sA = maxabs(Adef)
        I3 = np.eye(3)
        ks = (2, 1, 0, float(np.round(rng.uniform(-2, 3), 2)))
        # (a) orthotropic law (engineering constants through the provided converter) against the definition written with numpy: the
        # energy E_k : C : E_k / 2 with the stiffness of the engineering constants rotated into the material axes; k = 2 in closed
        # form (stress and elasticity), k != 2 through the central difference of the energy (the stress only: the elasticity of
        # k != 2 is the recorded tensortrax eigh finding)
        for axes, Q in (("aligned", I3[:, [2, 0, 1]] if rep % 2 else I3), ("rotated", random_rotation(rng, 3))):
            Cq = rotate4(Q, Adef)
            for j, k in enumerate(ks):
                kw = {} if k == 2 else {"k": k}
                r3kw = [{"r3": Q[:, 2]}, {"r3": None}, {}][(rep + j) % 3]
                svk = fem.Hyperelastic(fem.saint_venant_kirchhoff_orthotropic, mu=muo, lmbda=lmo, r1=Q[:, 0], r2=Q[:, 1], **r3kw, **kw)
                P = svk.gradient([F, None])[0]
                kk = (2, 1, 0, "real")[j]  # (unit by position in the schedule: the drawn exponent may round to 0, 1 or 2)
                pair = "svk_orthotropic(%s axes,k%s)~definition" % (axes, "=2" if k == 2 else "!=2")
                unit = "svk:orthotropic:%s:k=%s" % (axes, kk)
                smp = {"pair": pair, "k": k, "E": Eo, "nu": nuo, "G": Go}
                if k == 2:
                    Pref, Aref = svk_closed_form(F, Cq)
                    compare(run, pair, "stress[finite strain]", P, Pref, sA, 1e-10, unit, sample=smp)
                    compare(run, pair, "elasticity[finite strain]", svk.hessian([F, None])[0], Aref, sA, 1e-10, unit)
                else:
                    Pref = MM.fd_wrt_F(lambda G: seth_hill_energy(G, Cq, k), F, 1e-5)
                    compare(run, pair, "stress[finite strain]", P, Pref, sA, 1e-5, unit, sample=smp)
        # (b) the isotropic law is the orthotropic one with equal constants, in any material axes and for every exponent (with equal
        # constants the recorded defect of the eigenbasis derivatives cancels: the elasticity is judged as well)
        mu, lm = float(rng.uniform(0.5, 2)), float(rng.uniform(1, 4))
        for j, k in enumerate(ks):
            Q = random_rotation(rng, 3)
            kw = {} if k == 2 else {"k": k}
            r3kw = [{}, {"r3": Q[:, 2]}, {"r3": None}][(rep + j) % 3]
            iso = fem.Hyperelastic(fem.saint_venant_kirchhoff, mu=mu, lmbda=lm, **kw)
            ort = fem.Hyperelastic(fem.saint_venant_kirchhoff_orthotropic, mu=[mu] * 3, lmbda=[lm] * 6, r1=Q[:, 0], r2=Q[:, 1], **r3kw, **kw)
            Pi, Ai = iso.gradient([F, None])[0], iso.hessian([F, None])[0]
            kk = (2, 1, 0, "real")[j]
            pair = "saint_venant_kirchhoff~svk_orthotropic(equal constants,k%s)" % ("=2" if k == 2 else "!=2")
            unit = "svk:iso~orthotropic:k=%s" % kk
            compare(run, pair, "stress", ort.gradient([F, None])[0], Pi, maxabs(Ai), 1e-9, unit, sample={"pair": pair, "k": k, "mu": mu, "lmbda": lm})
            compare(run, pair, "elasticity", ort.hessian([F, None])[0], Ai, maxabs(Ai), 1e-8, unit)
            # ... and the isotropic law against its definition: k = 2 closed form, k != 2 in principal axes (numpy SVD)
            pair = "saint_venant_kirchhoff(k%s)~definition" % ("=2" if k == 2 else "!=2")
            unit = "svk:iso:definition:k=%s" % kk
            if k == 2:
                Pref, Aref = svk_closed_form(F, iso_tensor(lm, mu))
                compare(run, pair, "stress", Pi, Pref, maxabs(Aref), 1e-12, unit)
                compare(run, pair, "elasticity", Ai, Aref, maxabs(Aref), 1e-12, unit)
            else:
                compare(run, pair, "stress", Pi, principal_stress(F, svk_dWdl(mu, lm, k)), maxabs(Ai), EIG_TOL, unit)
    return fn


def case_reduction(rep):
    """The same law offered twice for a subset of the parameters (tensortrax models; the jax copies are tied to them by the backend
    pairs): the only judgement of the higher-order terms (C20, C30, Ogden exponents, tube exponent, series terms), which the initial
    moduli do not see.  Ogden-type laws additionally against their definition in principal axes, with one to three terms."""
    def fn(run):
        import felupe.constitution.tensortrax as TT
        M = TT.models.hyperelastic
        rng = rng_for(run.seed, "C12", "reduction", rep)
        batch = (2, 3) if rep % 2 == 0 else (1, 5)
        F = batch_F(rng, batch, lo=0.75, hi=1.4)
        U = lambda a, b: float(rng.uniform(a, b))
        H = lambda name, **kw: TT.Hyperelastic(getattr(M, name), **kw)

        def both(pair, a, b, tolP, tolA, unit, sample=None):
            Pa, Aa = a.gradient([F, None])[0], a.hessian([F, None])[0]
            compare(run, pair, "stress", b.gradient([F, None])[0], Pa, maxabs(Aa), tolP, "reduction:" + unit, sample=sample)
            compare(run, pair, "elasticity", b.hessian([F, None])[0], Aa, maxabs(Aa), tolA, "reduction:" + unit)
        C10, C01, C20, C30 = U(0.3, 1), U(0.05, 0.5), U(-0.02, 0.1), U(0, 0.05)
        mu, G, b_ = U(0.5, 2), U(0.1, 0.5), U(0.1, 0.6)
        yeoh = H("yeoh", C10=C10, C20=C20, C30=C30)
        both("yeoh~third_order_deformation(C01=C11=0)", yeoh, H("third_order_deformation", C10=C10, C01=0.0, C11=0.0, C20=C20, C30=C30), 1e-12, 1e-12,
             "yeoh~third_order_deformation", sample={"pair": "yeoh~third_order_deformation", "C10": C10, "C20": C20, "C30": C30})
        mr = H("mooney_rivlin", C10=C10, C01=C01)
        both("mooney_rivlin~third_order_deformation(C11=C20=C30=0)", mr, H("third_order_deformation", C10=C10, C01=C01, C11=0.0, C20=0.0, C30=0.0), 1e-12, 1e-12,
             "mooney_rivlin~third_order_deformation")
        both("mooney_rivlin~alexander(C2=k=0)", mr, H("alexander", C1=C10, C2=0.0, C3=C01, gamma=U(1, 3), k=0.0), 1e-12, 1e-12, "mooney_rivlin~alexander")
        both("mooney_rivlin~ogden(alpha=[2,-2])", mr, H("ogden", mu=[2 * C10, 2 * C01], alpha=[2.0, -2.0]), EIG_TOL, 10 * EIG_TOL, "mooney_rivlin~ogden")
        nh = H("neo_hooke", mu=mu)
        both("neo_hooke~yeoh(C20=C30=0)", nh, H("yeoh", C10=mu / 2, C20=0.0, C30=0.0), 1e-12, 1e-12, "neo_hooke~yeoh")
        both("neo_hooke~ogden(alpha=[2])", nh, H("ogden", mu=[mu], alpha=[2.0]), EIG_TOL, 10 * EIG_TOL, "neo_hooke~ogden")
        both("neo_hooke~lopez_pamies(alpha=[1])", nh, H("lopez_pamies", mu=[mu], alpha=[1.0]), 1e-12, 1e-12, "neo_hooke~lopez_pamies")
        both("neo_hooke~extended_tube(Ge=delta=0)", nh, H("extended_tube", Gc=mu, delta=0.0, Ge=0.0, beta=b_), 1e-12, 1e-12, "neo_hooke~extended_tube")
        both("neo_hooke~alexander(C2=C3=k=0)", nh, H("alexander", C1=mu / 2, C2=0.0, C3=0.0, gamma=U(1, 3), k=0.0), 1e-12, 1e-12, "neo_hooke~alexander")
        # the series of Arruda-Boyce beyond its first term is O(1 / limit^2): 0.2 I1 / limit^2 = 7e-11 of the first term at limit = 1e5
        both("neo_hooke~arruda_boyce(limit=1e5)", nh, H("arruda_boyce", C1=mu, limit=1e5), 1e-8, 1e-8, "neo_hooke~arruda_boyce")
        both("ogden(alpha=[-beta])~extended_tube(Gc=delta=0)", H("ogden", mu=[G], alpha=[-b_]), H("extended_tube", Gc=0.0, delta=0.0, Ge=G, beta=b_), EIG_TOL, 10 * EIG_TOL,
             "ogden~extended_tube", sample={"pair": "ogden~extended_tube", "Ge": G, "beta": b_})
        both("blatz_ko~storakers(alpha=[-2],beta=[1/2])", H("blatz_ko", mu=mu), H("storakers", mu=[mu], alpha=[-2.0], beta=[0.5]), EIG_TOL, 10 * EIG_TOL, "blatz_ko~storakers")
        # Ogden-type laws with one, two, three terms against the documented energy differentiated in principal axes (numpy SVD); the
        # elasticity against central differences of that reference stress (distinct stretches: the generator keeps a gap)
        n = 1 + rep % 3
        mus = [U(0.3, 1.5) * (0.3 if i else 1.0) for i in range(n)]
        alphas = [U(1.2, 3) * (-1) ** i for i in range(n)]
        betas = [U(0.3, 2) for i in range(n)]
        I = np.eye(3).reshape(3, 3, 1, 1).copy()
        for name, kw, dWdl, K_doc in (("ogden", dict(mu=mus, alpha=alphas), ogden_dWdl(mus, alphas), 0.0),
                                      ("storakers", dict(mu=mus, alpha=alphas, beta=betas), storakers_dWdl(mus, alphas, betas),
                                       sum(2 * m * (1 / 3 + b) for m, b in zip(mus, betas)))):
            um = H(name, **kw)
            A = um.hessian([F, None])[0]
            pair, unit = "%s~definition" % name, "definition:%s:terms=%d" % (name, n)
            compare(run, pair, "stress[principal axes]", um.gradient([F, None])[0], principal_stress(F, dWdl), maxabs(A), EIG_TOL, unit,
                    sample={"pair": pair, "terms": n, "mu": mus, "alpha": alphas})
            compare(run, pair, "elasticity[principal axes]", A, MM.fd_wrt_F(lambda G: principal_stress(G, dWdl), F, 1e-6), maxabs(A), 1e-5, unit)
            # documented initial moduli for this number of terms: mu = sum mu_i (Storakers: K = sum 2 mu_i (1/3 + beta_i))
            A0 = np.asarray(um.hessian([I, None])[0], float)[..., 0, 0]
            mu0 = (A0[0, 1, 0, 1] + A0[0, 2, 0, 2] + A0[1, 2, 1, 2]) / 3
            K0 = (A0[0, 0, 1, 1] + A0[0, 0, 2, 2] + A0[1, 1, 2, 2]) / 3 + 2 * mu0 / 3
            run.compare("material.moduli", "model=tt.%s clause=initial-shear-modulus" % name, abs(mu0 - sum(mus)) / maxabs(A0), EIG_TOL,
                        "tt.%s with %d term(s): tangent at F = I has shear modulus %.6g, documented %.6g" % (name, n, mu0, sum(mus)), unit=unit + ":mu0")
            run.compare("material.moduli", "model=tt.%s clause=initial-bulk-modulus" % name, abs(K0 - K_doc) / maxabs(A0), EIG_TOL,
                        "tt.%s with %d term(s): tangent at F = I has bulk modulus %.6g, documented %.6g" % (name, n, K0, K_doc), unit=unit + ":K0")
    return fn


def case_statevar_wrappers(which, rep):
    """State variables through the wrappers of both backends: jax Hyperelastic(nstatevars > 0), the state branches of total_lagrange /
    updated_lagrange (tensortrax and jax) and the flags jit=, jacobian=, parallel= are reached by no other workload (the registry's
    wrapper laws are stateless, jax state variables occur only through Material(morph))."""
    def fn(run):
        import felupe as fem
        import felupe.constitution.jax as JX
        import felupe.constitution.tensortrax as TT
        import jax
        import jax.numpy as jnp
        rng = rng_for(run.seed, "C12", "wrappers", which, rep)
        mu = float(rng.uniform(0.5, 2))
        if which == "viscoelastic":
            # the library's tensortrax model and the example of the jax Hyperelastic docstring written for six stored components
            eta, dtime = float(rng.uniform(0.5, 3)), float(rng.uniform(0.2, 1))
            tri = lambda v: v[jnp.array([[0, 1, 2], [1, 3, 4], [2, 4, 5]])]

            def viscoelastic(C, Cin, mu, eta, dtime):
                Cu = jnp.linalg.det(C) ** (-1 / 3) * C
                Ci = tri(Cin) + mu / eta * dtime * Cu
                Ci = jnp.linalg.det(Ci) ** (-1 / 3) * Ci
                return mu / 2 * (jnp.trace(Cu @ jnp.linalg.inv(Ci)) - 3), Ci[jnp.triu_indices(3)]
            kw = dict(mu=mu, eta=eta, dtime=dtime)
            impl = {"tt.Hyperelastic(finite_strain_viscoelastic)": TT.Hyperelastic(TT.models.hyperelastic.finite_strain_viscoelastic, nstatevars=6, **kw),
                    "jax.Hyperelastic(viscoelastic,nstatevars=6)": JX.Hyperelastic(viscoelastic, nstatevars=6, **kw)}
            if rep % 2:
                impl["jax.Hyperelastic(viscoelastic,nstatevars=6,jit=False)"] = JX.Hyperelastic(viscoelastic, nstatevars=6, jit=False, **kw)
            else:
                impl["tt.Hyperelastic(finite_strain_viscoelastic,parallel=True)"] = TT.Hyperelastic(TT.models.hyperelastic.finite_strain_viscoelastic, nstatevars=6, parallel=True, **kw)
            batch = (2, 3) if rep % 2 else (1, 4)
            sv0 = np.broadcast_to(np.array([1.0, 0, 0, 1, 0, 1]).reshape(6, 1, 1), (6,) + batch).copy()  # C_i = 1
            amps = [(0.75, 1.4), (0.9, 1.15), (0.8, 1.3)]
        else:
            # pseudo-elastic (Ogden-Roxburgh) isochoric Neo-Hooke as a stress-based law with the stored maximum energy: second Piola-
            # Kirchhoff stress for total_lagrange, Cauchy stress for updated_lagrange, in both backends; sibling: the hand-coded class
            import tensortrax.math as tm
            from jax.scipy.special import erf as jerf
            from tensortrax.math.linalg import det as tdet, inv as tinv
            from tensortrax.math.special import erf as terf
            r, m, beta = float(rng.uniform(1.5, 4)), float(rng.uniform(0.5, 2)), float(rng.uniform(0, 0.3))
            kw = dict(mu=mu, r=r, m=m, beta=beta)

            def S_tt(F, Wn, mu, r, m, beta):
                C = F.T @ F
                J3 = tdet(C) ** (-1 / 3)
                W = mu / 2 * (J3 * tm.trace(C) - 3)
                Wmax = tm.maximum(W, tm.array(Wn[:1], like=W))
                eta = 1 - terf((Wmax - W) / (m + beta * Wmax)) / r
                return eta * mu * J3 * (C @ tinv(C) - tm.trace(C) / 3 * tinv(C)), Wmax.x[None, ...]

            def sigma_tt(F, Wn, mu, r, m, beta):
                S, sv = S_tt(F, Wn, mu, r, m, beta)
                return F @ S @ F.T / tdet(F), sv

            def S_jax(F, Wn, mu, r, m, beta):
                C = F.T @ F
                J3 = jnp.linalg.det(C) ** (-1 / 3)
                W = mu / 2 * (J3 * jnp.trace(C) - 3)
                Wmax = jnp.maximum(W, Wn[0])
                eta = 1 - jerf((Wmax - W) / (m + beta * Wmax)) / r
                return eta * mu * J3 * (jnp.eye(3) - jnp.trace(C) / 3 * jnp.linalg.inv(C)), jnp.array([Wmax])

            def sigma_jax(F, Wn, mu, r, m, beta):
                S, sv = S_jax(F, Wn, mu, r, m, beta)
                return F @ S @ F.T / jnp.linalg.det(F), sv
            impl = {"OgdenRoxburgh(NeoHooke)": fem.OgdenRoxburgh(fem.NeoHooke(mu=mu), r=r, m=m, beta=beta),
                    "tt.total_lagrange(S,Wmax)": TT.Material(TT.total_lagrange(S_tt), nstatevars=1, **kw),
                    "tt.updated_lagrange(sigma,Wmax)": TT.Material(TT.updated_lagrange(sigma_tt), nstatevars=1, parallel=bool(rep % 2), **kw)}
            # the two jax wrappers, one of them with a non-default flag of the jax Material (schedule by index)
            ftl, ful = [({}, dict(jacobian=jax.jacrev)), (dict(jit=False), {}), (dict(jacobian=jax.jacfwd), {}), ({}, dict(jit=False))][rep % 4]
            lab = lambda fl: "".join(",%s=%s" % (k_, getattr(v_, "__name__", v_)) for k_, v_ in fl.items())
            impl["jax.total_lagrange(S,Wmax%s)" % lab(ftl)] = JX.Material(JX.total_lagrange(S_jax), nstatevars=1, **ftl, **kw)
            impl["jax.updated_lagrange(sigma,Wmax%s)" % lab(ful)] = JX.Material(JX.updated_lagrange(sigma_jax), nstatevars=1, **ful, **kw)
            batch = (1, 5) if rep % 2 else (2, 3)
            sv0 = np.zeros((1,) + batch)
            amps = [(0.7, 1.6), (0.7, 1.6), (0.9, 1.15), (0.8, 1.35)]  # load, load, inside the history (unloading branch), mixed
        # the same history is fed to all (each keeps its own state); every step is judged
        names = list(impl)
        ref = names[0]
        svs = {nm: sv0.copy() for nm in names}
        for k, (lo_, hi_) in enumerate(amps):
            F = batch_F(rng, batch, lo=lo_, hi=hi_)
            Pr, svr = impl[ref].gradient([F, svs[ref]])
            Ar = impl[ref].hessian([F, svs[ref]])[0]
            sA = maxabs(Ar)
            for nm in names[1:]:
                pair = "%s~%s" % (ref, nm)
                P, sv = impl[nm].gradient([F, svs[nm]])
                compare(run, pair, "stress", P, Pr, sA, 1e-9, pair + ":stress", config=(pair, "stress", k), sample={"pair": pair, "mu": mu} if k == 0 else None)
                compare(run, pair, "elasticity", impl[nm].hessian([F, svs[nm]])[0], Ar, sA, 1e-8, pair + ":elasticity")
                compare(run, pair, "statevars", sv, svr, max(maxabs(svr), 1e-300), 1e-10, pair + ":statevars")
                svs[nm] = np.asarray(sv)
            svs[ref] = np.asarray(svr)
    return fn


MICROSPHERE = ("affine_stretch", "affine_tube", "nonaffine_stretch", "nonaffine_tube")


def case_microsphere_pair(framework, rep):
    """The public micro-sphere frameworks and chain laws of the jax backend against their tensortrax namesakes (the jax ones are reached
    by no other workload, except nonaffine_* with the Langevin chain through miehe_goektepe_lulei)."""
    def fn(run):
        import felupe.constitution.jax as JX
        import felupe.constitution.tensortrax as TT
        tm_, jm_ = TT.models.hyperelastic.microsphere, JX.models.hyperelastic.microsphere
        rng = rng_for(run.seed, "C12", "microsphere", framework, rep)
        batch = (2, 3) if rep % 2 == 0 else (1, 4)
        F = batch_F(rng, batch, lo=0.75, hi=1.4)
        mu, N = float(rng.uniform(0.5, 2)), float(rng.uniform(5, 20))
        extra = {"nonaffine_stretch": dict(p=float(rng.uniform(1.2, 3))), "nonaffine_tube": dict(q=float(rng.uniform(0.1, 1.5)))}.get(framework, {})
        for chain, kw in (("langevin", dict(mu=mu, N=N)), ("linear", dict(mu=mu))):
            a = TT.Hyperelastic(getattr(tm_, framework), f=getattr(tm_, chain), kwargs=kw, **extra)
            # (a callable is no valid argument of a compiled jax function: the chain law is bound by a closure)
            b = JX.Hyperelastic(lambda C, chain=chain, kw=kw: getattr(jm_, framework)(C, f=getattr(jm_, chain), kwargs=kw, **extra))
            Aa = a.hessian([F, None])[0]
            pair = "jax~tensortrax:microsphere.%s(%s)" % (framework, chain)
            compare(run, pair, "stress", b.gradient([F, None])[0], a.gradient([F, None])[0], maxabs(Aa), 1e-9, pair + ":stress",
                    sample={"pair": pair, "params": dict(kw, **extra)})
            compare(run, pair, "elasticity", b.hessian([F, None])[0], Aa, maxabs(Aa), 1e-8, pair + ":elasticity")
    return fn


def case_microsphere_statevars(rep):
    """affine_stretch_statevars / affine_tube_statevars of both backends with a chain law that carries a history (per direction: the
    largest stretch so far, which softens the chain): the jax frameworks have no caller in the library at all."""
    def fn(run):
        import felupe.constitution.jax as JX
        import felupe.constitution.tensortrax as TT
        import jax.numpy as jnp
        import tensortrax.math as tm
        from tensortrax.math.special import try_stack
        tm_, jm_ = TT.models.hyperelastic.microsphere, JX.models.hyperelastic.microsphere
        rng = rng_for(run.seed, "C12", "microsphere-statevars", rep)
        batch = (1, 3)
        kw = dict(mu=float(rng.uniform(0.5, 2)), c=float(rng.uniform(0.5, 3)))

        def chain_tt(stretch, statevars, mu, c):
            smax = tm.maximum(tm.abs(stretch - 1), tm.array(statevars[:21], like=stretch, shape=(21,)))
            return mu * (stretch - 1) ** 2 / (1 + c * smax), try_stack([smax], fallback=statevars)

        def chain_jax(stretch, statevars, mu, c):
            smax = jnp.maximum(jnp.abs(stretch - 1), statevars[:21])
            return mu * (stretch - 1) ** 2 / (1 + c * smax), smax
        for framework in ("affine_stretch_statevars", "affine_tube_statevars"):
            a = TT.Hyperelastic(lambda C, sv, **k_: getattr(tm_, framework)(C, sv, f=chain_tt, kwargs=k_), nstatevars=21, **kw)
            b = JX.Hyperelastic(lambda C, sv, mu, c: getattr(jm_, framework)(C, sv, f=chain_jax, kwargs=dict(mu=mu, c=c)), nstatevars=21, **kw)
            sva = svb = np.zeros((21,) + batch)
            pair = "jax~tensortrax:microsphere.%s(history chain)" % framework
            for k, (lo_, hi_) in enumerate([(0.75, 1.4), (0.9, 1.15), (0.8, 1.3)]):
                F = batch_F(rng, batch, lo=lo_, hi=hi_)
                Pa, sva2 = a.gradient([F, sva])
                Pb, svb2 = b.gradient([F, svb])
                Aa = a.hessian([F, sva])[0]
                compare(run, pair, "stress", Pb, Pa, maxabs(Aa), 1e-9, pair + ":stress", config=(pair, "stress", k))
                compare(run, pair, "elasticity", b.hessian([F, svb])[0], Aa, maxabs(Aa), 1e-8, pair + ":elasticity")
                compare(run, pair, "statevars", svb2, sva2, max(maxabs(sva2), 1e-300), 1e-10, pair + ":statevars")
                sva, svb = np.asarray(sva2), np.asarray(svb2)
    return fn


MS_TOL = 2e-10  # the sphere rule is tabulated with 12 digits: measured 2.0e-12 of the tangent at F = I (seeds 0-7), whatever the parameters


def case_microsphere_definition(rep):
    """(fourth audit) Every micro-sphere pair integrates with the same sphere rule on both sides (the jax and the tensortrax frameworks
    import one BazantOh object): points and weights cancel in the pairs, and the registry has no documented modulus for these models.
    References that use no quadrature rule: (a) the tangent at the undeformed state is the isotropic tangent with the closed-form initial
    shear modulus of the caller's chain law (exact fourth moments of the unit sphere) and no bulk stiffness - frameworks with the two chain
    laws of the library and one of the check, and miehe_goektepe_lulei of both backends; (b) at finite strain, chain laws for which the
    average over the sphere is a polynomial in the invariants of the unimodular C (even powers up to 6, inside the documented degree 9)."""
    def fn(run):
        import felupe.constitution.jax as JX
        import felupe.constitution.tensortrax as TT
        tm_ = TT.models.hyperelastic.microsphere
        rng = rng_for(run.seed, "C12", "microsphere-definition", rep)
        U = lambda a, b: float(rng.uniform(a, b))
        I = np.eye(3).reshape(3, 3, 1, 1).copy()
        mon = "material.moduli"

        def tangent(name, um, mu0, unit, params):
            A = np.asarray(um.hessian([I, None])[0], float)[..., 0, 0]
            P = np.asarray(um.gradient([I, None])[0], float)[..., 0, 0]
            s = max(4 * abs(mu0) / 3, 1e-300)  # (largest entry of the expected tangent: the scale comes from the caller's parameters)
            run.compare(mon, "model=%s clause=initial-tangent" % name, maxabs(A - iso_tensor(-2 * mu0 / 3, mu0)) / s, MS_TOL,
                        "%s: tangent at F = I is not the isotropic tangent with the closed-form shear modulus %.6g (exact sphere averages) and no bulk stiffness; "
                        "found shear modulus %.6g" % (name, mu0, (A[0, 1, 0, 1] + A[0, 2, 0, 2] + A[1, 2, 1, 2]) / 3), unit=unit, config=(name, "initial-tangent"),
                        sample={"model": name, "params": params, "mu0": float(mu0)})
            run.compare(mon, "model=%s clause=stress-free" % name, maxabs(P) / s, MS_TOL, "%s: stress at F = I" % name, unit=unit)
        # (a) initial tangent
        mu, N, c, n = U(0.5, 2), U(5, 20), U(0.5, 2), U(1.5, 4)
        p, q = U(1.2, 3), U(0.1, 1.5)
        chains = (("langevin", tm_.langevin, dict(mu=mu, N=N), langevin_derivatives(mu, N)), ("linear", tm_.linear, dict(mu=mu), (mu, 0.0)),
                  ("own power law", chain_power, dict(c=c, n=n), (c, c * (n - 1))))
        for chain, f, kw, (f1, f2) in chains:
            for framework, extra in (("affine_stretch", {}), ("affine_tube", {}), ("nonaffine_stretch", dict(p=p)), ("nonaffine_tube", dict(q=q))):
                um = TT.Hyperelastic(getattr(tm_, framework), f=f, kwargs=kw, **extra)
                mu0 = microsphere_mu0(framework, f1, f2, *extra.values())
                tangent("tt.microsphere.%s(%s)" % (framework, chain), um, mu0, "microsphere:moduli:%s(%s)" % (framework, chain), dict(kw, **extra))
        # miehe_goektepe_lulei = nonaffine_stretch(p, langevin(mu, N)) + nonaffine_tube(q, linear(mu N U)), as documented in the source
        pm = dict(mu=U(0.1, 0.5), N=U(10, 30), U=U(5, 15), p=U(1.2, 2), q=U(0.1, 0.5))
        mu0 = (microsphere_mu0("nonaffine_stretch", langevin_derivatives(pm["mu"], pm["N"])[0], None, pm["p"])
               + microsphere_mu0("nonaffine_tube", pm["mu"] * pm["N"] * pm["U"], None, pm["q"]))
        for lab, B in (("tt", TT), ("jax", JX)):
            tangent("%s.miehe_goektepe_lulei" % lab, B.Hyperelastic(B.models.hyperelastic.miehe_goektepe_lulei, **pm), mu0,
                    "microsphere:moduli:%s.miehe_goektepe_lulei" % lab, pm)
        # (b) finite strain: stress and elasticity against the closed-form energy written here (differentiated by tensortrax); measured
        # 8.6e-13 / 3.5e-12 of the tangent (seeds 0-7)
        batch = (2, 3) if rep % 2 == 0 else (1, 5)
        F = batch_F(rng, batch, lo=0.75, hi=1.4)
        a = [U(0.2, 1.5), 0.3 * U(0.2, 1.5), 0.1 * U(0.2, 1.5)]
        for framework in MICROSPHERE:
            for e in ((2,) if framework.startswith("affine") else (2, 4, 6)):
                if framework.startswith("affine"):
                    um = TT.Hyperelastic(getattr(tm_, framework), f=chain_even, kwargs=dict(a=a))
                    lab, unit = "%s(own even chain)" % framework, "microsphere:exact:%s" % framework
                else:
                    um = TT.Hyperelastic(getattr(tm_, framework), f=chain_power, kwargs=dict(c=c, n=n), **{"p" if framework == "nonaffine_stretch" else "q": float(e)})
                    lab, unit = "%s(%s=%d,own power law)" % (framework, "p" if framework == "nonaffine_stretch" else "q", e), "microsphere:exact:%s:%d" % (framework, e)
                ref = TT.Hyperelastic(microsphere_exact, framework=framework, a=a, c=c, n=n, e=e)
                A = um.hessian([F, None])[0]
                pair = "tt.microsphere.%s~exact sphere average" % lab
                compare(run, pair, "stress", um.gradient([F, None])[0], ref.gradient([F, None])[0], maxabs(A), 1e-10, unit, sample={"pair": pair, "a": a, "c": c, "n": n})
                compare(run, pair, "elasticity", A, ref.hessian([F, None])[0], maxabs(A), 5e-10, unit)
    return fn


def case_representative_directions(rep):
    """MORPH by representative directions is offered twice inside the tensortrax backend: as an energy (hyperelastic., through
    affine_stretch_statevars and real_to_dual) and as a stress (lagrange., through affine_force_statevars).  With the same
    regularisation eps (the two defaults differ: 1e-8 / 1e-6) they are the same law."""
    def fn(run):
        import felupe.constitution.tensortrax as TT
        rng = rng_for(run.seed, "C12", "representative-directions", rep)
        p = [0.039, 0.371, 0.174, 2.41, 0.0094, 6.84, 5.65, 0.244]
        eps = [1e-6, 1e-8, 1e-7, 1e-5][rep % 4]
        a = TT.Hyperelastic(TT.models.hyperelastic.morph_representative_directions, p=p, nstatevars=84, ε=eps)
        b = TT.Material(TT.models.lagrange.morph_representative_directions, p=p, nstatevars=84, ε=eps)
        batch = (1, 2)
        sva = svb = np.zeros((84,) + batch)
        pair = "tt.hyperelastic~tt.lagrange:morph_representative_directions"
        for k, (lo_, hi_) in enumerate([(0.8, 1.3), (0.93, 1.08), (0.7, 1.45)]):
            F = batch_F(rng, batch, lo=lo_, hi=hi_)
            Pa, sva2 = a.gradient([F, sva])
            Pb, svb2 = b.gradient([F, svb])
            Ab = b.hessian([F, svb])[0]
            compare(run, pair, "stress", Pa, Pb, maxabs(Ab), 1e-9, pair + ":stress", config=(pair, "stress", k))
            compare(run, pair, "elasticity", a.hessian([F, sva])[0], Ab, maxabs(Ab), 1e-8, pair + ":elasticity")
            compare(run, pair, "statevars", sva2, svb2, max(maxabs(svb2), 1e-300), 1e-10, pair + ":statevars")
            sva, svb = np.asarray(sva2), np.asarray(svb2)
    return fn


def case_meanings(rep):
    """Documented parameter meanings and magnitudes that no other clause reads: the default lmbda=None of NeoHookeCompressible, the
    softening parameter r of the two Ogden-Roxburgh implementations (a typo shared by both copies of eta passes the pair), and the
    hand-coded family in another unit system (the other cases draw moduli of O(1), where an absolute threshold is invisible)."""
    def fn(run):
        import felupe as fem
        rng = rng_for(run.seed, "C12", "meanings", rep)
        batch = (1, 5) if rep % 2 == 0 else (2, 3)
        F = batch_F(rng, batch, lo=0.75, hi=1.4)
        mu, lm, bulk = float(rng.uniform(0.5, 2)), float(rng.uniform(1, 4)), float(rng.uniform(2, 30))
        r, m, beta = float(rng.uniform(1.5, 4)), float(rng.uniform(0.5, 2)), float(rng.uniform(0, 0.3))
        # (a) the first Lame parameter left out (documented default None: no such term) is the law with lmbda = 0
        a, b = fem.NeoHookeCompressible(mu=mu), fem.NeoHookeCompressible(mu=mu, lmbda=0.0)
        Ab = b.hessian([F, None])[0]
        compare(run, "NeoHookeCompressible(mu)~NeoHookeCompressible(mu,lmbda=0)", "stress", a.gradient([F, None])[0], b.gradient([F, None])[0], maxabs(Ab), 1e-12, "meanings:lmbda=None")
        compare(run, "NeoHookeCompressible(mu)~NeoHookeCompressible(mu,lmbda=0)", "elasticity", a.hessian([F, None])[0], Ab, maxabs(Ab), 1e-12, "meanings:lmbda=None")
        # (b) documented meaning of r: at maximum softening the shear modulus of the base material is scaled to 1 - 1/r.  Undeformed
        # state, stored maximum energy far above the softening modulus (erf = 1 to round-off), beta = 0: the tangent is (1 - 1/r) times
        # the isochoric Neo-Hookean tangent at F = I (shear modulus mu, no bulk stiffness)
        I = np.eye(3).reshape(3, 3, 1, 1).copy()
        Aref = (1 - 1 / r) * iso_tensor(-2 * mu / 3, mu)
        for lab, um in (("OgdenRoxburgh(NeoHooke)", fem.OgdenRoxburgh(fem.NeoHooke(mu=mu), r=r, m=m, beta=0.0)),
                        ("tt.ogden_roxburgh(neo_hooke)", fem.Hyperelastic(fem.ogden_roxburgh, material=fem.neo_hooke, mu=mu, r=r, m=m, beta=0.0, nstatevars=1))):
            A = np.asarray(um.hessian([I, np.full((1, 1, 1), 50 * m)])[0], float)[..., 0, 0]
            run.compare("material.moduli", "model=%s clause=softened-shear-modulus" % lab, maxabs(A - Aref) / maxabs(Aref), 1e-10,
                        "%s: tangent at F = I under maximum softening is not (1 - 1/r) times the tangent of the base material" % lab,
                        unit="meanings:r:" + lab, config=(lab, "softened-shear-modulus"), sample={"model": lab, "mu": mu, "r": r, "m": m})
        # (c) the hand-coded family and its siblings with all moduli (and the softening modulus m, an energy density) x 1e-9 / 1e+9:
        # the siblings agree, and every result is exactly the scaled result of the O(1) system
        reg = {x.name: x for x in C03.registry()}

        def family(s):
            E, nu = s * mu * (3 * lm + 2 * mu) / (lm + mu), lm / (2 * (lm + mu))
            tl, _ = reg["tt.total_lagrange(neo-hooke S)"].make(rng_for(0))
            ul, _ = reg["tt.updated_lagrange(neo-hooke sigma)"].make(rng_for(0))
            tl.kwargs.update(mu=s * mu, lmbda=s * lm)
            ul.kwargs.update(mu=s * mu, lmbda=s * lm)
            return {"NeoHooke": {"NeoHooke(mu)": fem.NeoHooke(mu=s * mu), "tt.neo_hooke": fem.Hyperelastic(fem.neo_hooke, mu=s * mu)},
                    "composite": {"NeoHooke(mu,bulk)": fem.NeoHooke(mu=s * mu, bulk=s * bulk), "NeoHooke(mu)&Volumetric(bulk)": fem.NeoHooke(mu=s * mu) & fem.Volumetric(bulk=s * bulk)},
                    "NeoHookeCompressible": {"NeoHookeCompressible": fem.NeoHookeCompressible(mu=s * mu, lmbda=s * lm), "LinearElasticLargeStrain(lame_converter)": fem.LinearElasticLargeStrain(E=E, nu=nu),
                                             "total_lagrange(S)": tl, "updated_lagrange(sigma)": ul},
                    "OgdenRoxburgh": {"OgdenRoxburgh(NeoHooke)": fem.OgdenRoxburgh(fem.NeoHooke(mu=s * mu), r=r, m=s * m, beta=beta),
                                      "tt.ogden_roxburgh(neo_hooke)": fem.Hyperelastic(fem.ogden_roxburgh, material=fem.neo_hooke, mu=s * mu, r=r, m=s * m, beta=beta, nstatevars=1)}}
        Fh = [batch_F(rng, batch, lo=0.7, hi=1.6), batch_F(rng, batch, lo=0.9, hi=1.15)]  # load, then a state inside the history
        Fv = F * rng.uniform(0.85, 1.2, (1, 1) + batch)  # volume-changing states for the compressible laws

        def evaluate(fam, impl):
            if fam == "OgdenRoxburgh":
                sv = np.asarray(impl.gradient([Fh[0], np.zeros((1,) + batch)])[-1])
                return impl.gradient([Fh[1], sv])[0], impl.hessian([Fh[1], sv])[0]
            G = F if fam == "NeoHooke" else Fv
            return impl.gradient([G, None])[0], impl.hessian([G, None])[0]
        s_ = 10.0 ** [-9, 9, -6, 6][rep % 4]
        one, scaled = family(1.0), family(s_)
        for fam in one:
            names = list(one[fam])
            P1, A1 = evaluate(fam, one[fam][names[0]])
            sA = maxabs(A1)
            for nm in names:
                Ps, As = evaluate(fam, scaled[fam][nm])
                if nm != names[0]:
                    pair = "%s~%s" % (names[0], nm)
                    Pr, Ar = evaluate(fam, scaled[fam][names[0]])
                    compare(run, pair, "stress[scaled units]", Ps, Pr, sA * s_, 1e-9, "meanings:units:" + fam)
                    compare(run, pair, "elasticity[scaled units]", As, Ar, sA * s_, 1e-8, "meanings:units:" + fam)
                Pn, An = evaluate(fam, one[fam][nm])
                compare(run, nm, "stress[linear in the stiffness parameters]", Ps, s_ * np.asarray(Pn), sA * s_, 1e-12, "meanings:units:" + fam)
                compare(run, nm, "elasticity[linear in the stiffness parameters]", As, s_ * np.asarray(An), sA * s_, 1e-12, "meanings:units:" + fam)
        # (fourth audit) both members of the composite family share the code of the bulk part: the law in one piece against its
        # definition written with numpy, in the scaled unit system as well
        Ps, As = evaluate("composite", scaled["composite"]["NeoHooke(mu,bulk)"])
        Pd, Ad = neo_hooke_bulk_closed_form(Fv, s_ * mu, s_ * bulk)
        compare(run, "NeoHooke(mu,bulk)~definition", "stress[scaled units]", Ps, Pd, maxabs(Ad), 1e-12, "meanings:units:bulk:definition")
        compare(run, "NeoHooke(mu,bulk)~definition", "elasticity[scaled units]", As, Ad, maxabs(Ad), 1e-12, "meanings:units:bulk:definition")
    return fn


MODULI = [n for n in C03.NAMES if not any(k in n for k in ("representative_directions", "lagrange.morph"))]


def cases(tier, seed):
    out = []
    reps = 2 if tier == "quick" else 8
    for name in SHARED:
        for rep in range(reps):
            out.append(("pair:%s:%d" % (name, rep), case_backend_pair(name, rep)))
    for name in ("morph", "morph_representative_directions"):
        for rep in range(1 if tier == "quick" else 3):
            out.append(("lagrange:%s:%d" % (name, rep), case_lagrange_pair(name, rep)))
    for which in ("NeoHooke", "NeoHookeCompressible", "OgdenRoxburgh"):
        for rep in range(reps):
            out.append(("hand:%s:%d" % (which, rep), case_hand_vs_ad(which, rep)))
    for rep in range(3 if tier == "quick" else 20):
        out.append(("linear:%d" % rep, case_linear(rep)))
    for name in MODULI:
        for rep in range(1 if tier == "quick" else 4):
            out.append(("moduli:%s:%d" % (name, rep), case_moduli(name, rep)))
    # families of the third audit, appended so that the cases above keep their shards.  Those that compile jax functions come first:
    # in the quick tier (80 cases before them, round-robin over 12 shards) each lands on a shard of its own and none joins
    # lagrange:morph, the longest case
    n1, n2, n4 = (1, 1, 1) if tier == "quick" else (2, 3, 4)
    heavy = [("microsphere:%s:%d" % (fw, rep), case_microsphere_pair(fw, rep)) for rep in range(n1) for fw in MICROSPHERE[:3]]
    heavy += [("pair:storakers[terms=1]", case_backend_pair("storakers", 101, nterms=1))]
    heavy += [("wrappers:pseudo-elastic:%d" % rep, case_statevar_wrappers("pseudo-elastic", rep)) for rep in range(n4)]
    heavy += [("microsphere:%s:%d" % (MICROSPHERE[3], rep), case_microsphere_pair(MICROSPHERE[3], rep)) for rep in range(n1)]
    heavy += [("microsphere:statevars:%d" % rep, case_microsphere_statevars(rep)) for rep in range(n1)]
    heavy += [("wrappers:viscoelastic:%d" % rep, case_statevar_wrappers("viscoelastic", rep)) for rep in range(n4)]
    heavy += [("pair:storakers[terms=3]", case_backend_pair("storakers", 103, nterms=3))]
    out += heavy
    out.append(("svk:0", case_svk(0)))
    for rep in range(3 if tier == "quick" else 6):
        out.append(("linear:auxetic:%d" % rep, case_linear(rep, flavour="auxetic")))
    for rep in range(1, reps):
        out.append(("svk:%d" % rep, case_svk(rep)))
    for rep in range(3 if tier == "quick" else 9):
        out.append(("reduction:%d" % rep, case_reduction(rep)))
    for rep in range(reps):
        out.append(("meanings:%d" % rep, case_meanings(rep)))
    for rep in range(n4):
        out.append(("representative-directions:%d" % rep, case_representative_directions(rep)))
    # fourth audit, appended so that the cases above keep their shards
    for rep in range(1 if tier == "quick" else 3):
        out.append(("microsphere:definition:%d" % rep, case_microsphere_definition(rep)))
    return out


def _required():
    req = []
    for n in SHARED:
        req += ["jax~tensortrax:%s:stress" % n, "jax~tensortrax:%s:elasticity" % n]
    req += ["jax~tensortrax:lagrange.morph:stress", "jax~tensortrax:lagrange.morph_representative_directions:stress",
            "NeoHooke(mu)~tt.neo_hooke:stress", "NeoHooke(mu)~jax.neo_hooke:elasticity", "hand:composite:stress", "hand:composite:elasticity", "NeoHookeCompressible~LinearElasticLargeStrain(lame_converter):stress",
            "NeoHookeCompressible~total_lagrange(S):stress", "NeoHookeCompressible~updated_lagrange(sigma):elasticity", "NeoHookeCompressible~jax.updated_lagrange(sigma):stress",
            "NeoHookeCompressible~jax.total_lagrange(S):stress",
            "OgdenRoxburgh(NeoHooke)~tt.ogden_roxburgh(neo_hooke):stress", "OgdenRoxburgh(NeoHooke)~tt.ogden_roxburgh(neo_hooke):statevars",
            "linear:definition", "linear:tensor-notation", "linear:material-strain", "linear:plane-strain", "linear:plane-stress",
            "linear:orthotropic", "linear:orthotropic-iso", "linear:orthotropic:definition", "linear:orthotropic:r3-omitted", "linear:orthotropic:r3-None", "linear:orthotropic:r3-given", "linear:plane-strain:full", "linear:plane-stress:full", "linear:orthotropic:rotated:k=2", "linear:orthotropic:rotated:k=1", "linear:orthotropic:rotated:k=0", "linear:orthotropic:rotated:k=real", "linear:orthotropic:aligned:k=2", "linear:orthotropic:aligned:k=1", "linear:orthotropic:aligned:k=0", "linear:orthotropic:aligned:k=real"]
    reg_mu = ["NeoHooke(mu,bulk)", "NeoHookeCompressible(mu,lmbda)", "LinearElasticLargeStrain(E,nu)", "tt.neo_hooke", "tt.mooney_rivlin", "tt.yeoh",
              "tt.third_order_deformation", "tt.blatz_ko", "tt.van_der_waals", "tt.storakers", "tt.extended_tube[delta=0]", "tt.ogden",
              "tt.arruda_boyce", "tt.alexander", "tt.anssari_benam_bucchi", "tt.lopez_pamies", "tt.saint_venant_kirchhoff", "jax.neo_hooke",
              "jax.mooney_rivlin", "jax.yeoh", "jax.third_order_deformation", "jax.blatz_ko", "jax.van_der_waals", "jax.storakers",
              "jax.extended_tube[delta=0]"]
    req += [n + ":mu0" for n in reg_mu]
    req += ["NeoHooke(mu,bulk):K0", "tt.storakers:K0", "jax.storakers:K0", "tt.neo_hooke:isotropic-tangent", "tt.ogden:isotropic-tangent"]
    # third audit (every unit below is reached by the index schedule of the quick tier, whatever the seed)
    req += ["tt.blatz_ko:K0", "jax.blatz_ko:K0"]
    req += ["jax~tensortrax:%s:units" % n for n in STIFFNESS]
    req += ["pairs:storakers:terms=1", "pairs:storakers:terms=3", "jax~tensortrax:lagrange.morph:stress:virgin", "jax~tensortrax:lagrange.morph:elasticity:finite",
            "jax~tensortrax:lagrange.morph:elasticity:recorded-size", "linear:orthotropic:rotated:k=1:recorded-size", "linear:orthotropic:rotated:k=0:recorded-size",
            "linear:auxetic", "linear:hessian-without-state", "linear:lame-converter"]
    for k in (2, 1, 0, "real"):
        req += ["svk:orthotropic:aligned:k=%s" % k, "svk:orthotropic:rotated:k=%s" % k, "svk:iso~orthotropic:k=%s" % k, "svk:iso:definition:k=%s" % k]
    req += ["reduction:" + n for n in ("yeoh~third_order_deformation", "mooney_rivlin~third_order_deformation", "mooney_rivlin~alexander", "mooney_rivlin~ogden", "neo_hooke~yeoh",
                                       "neo_hooke~ogden", "neo_hooke~lopez_pamies", "neo_hooke~extended_tube", "neo_hooke~alexander", "neo_hooke~arruda_boyce", "ogden~extended_tube",
                                       "blatz_ko~storakers")]
    for n in (1, 2, 3):
        req += ["definition:%s:terms=%d%s" % (m, n, c) for m in ("ogden", "storakers") for c in ("", ":mu0", ":K0")]
    for nm in ("tt.total_lagrange(S,Wmax)", "tt.updated_lagrange(sigma,Wmax)", "jax.total_lagrange(S,Wmax)", "jax.updated_lagrange(sigma,Wmax,jacobian=jacrev)"):
        req += ["OgdenRoxburgh(NeoHooke)~%s:%s" % (nm, c) for c in ("stress", "elasticity", "statevars")]
    for nm in ("jax.Hyperelastic(viscoelastic,nstatevars=6)", "tt.Hyperelastic(finite_strain_viscoelastic,parallel=True)"):
        req += ["tt.Hyperelastic(finite_strain_viscoelastic)~%s:%s" % (nm, c) for c in ("stress", "elasticity", "statevars")]
    for fw in MICROSPHERE:
        req += ["jax~tensortrax:microsphere.%s(%s):%s" % (fw, ch, c) for ch in ("langevin", "linear") for c in ("stress", "elasticity")]
    for fw in ("affine_stretch_statevars", "affine_tube_statevars"):
        req += ["jax~tensortrax:microsphere.%s(history chain):%s" % (fw, c) for c in ("stress", "elasticity", "statevars")]
    req += ["tt.hyperelastic~tt.lagrange:morph_representative_directions:%s" % c for c in ("stress", "elasticity", "statevars")]
    req += ["meanings:lmbda=None", "meanings:r:OgdenRoxburgh(NeoHooke)", "meanings:r:tt.ogden_roxburgh(neo_hooke)", "meanings:units:NeoHooke", "meanings:units:composite",
            "meanings:units:NeoHookeCompressible", "meanings:units:OgdenRoxburgh"]
    # fourth audit (reached by the index schedule of the quick tier, whatever the seed)
    req += ["hand:bulk:definition:stress", "hand:bulk:definition:elasticity", "hand:bulk:ad:stress", "hand:bulk:ad:elasticity", "hand:volumetric:definition",
            "meanings:units:bulk:definition", "microsphere:moduli:tt.miehe_goektepe_lulei", "microsphere:moduli:jax.miehe_goektepe_lulei"]
    req += ["microsphere:moduli:%s(%s)" % (fw, ch) for fw in MICROSPHERE for ch in ("langevin", "linear", "own power law")]
    req += ["microsphere:exact:%s" % fw for fw in MICROSPHERE[:2]] + ["microsphere:exact:%s:%d" % (fw, e) for fw in MICROSPHERE[2:] for e in (2, 4, 6)]
    return req


SPEC = {
    "required_units": _required(),
    "rule": ("pair registry: 9 jax~tensortrax hyperelastic namesakes and 2 lagrange namesakes, hand-coded NeoHooke / NeoHookeCompressible / "
             "OgdenRoxburgh vs their AD versions (same history for state-variable models), total/updated Lagrange wrappers, the linear-"
             "elastic family (component, tensor notation, small-strain framework, plane strain/stress vs constrained 3D, orthotropic vs "
             "orthotropic SVK at F = I through lame_converter_orthotropic); random parameters and states; documented initial moduli of "
             "every model with a closed form; a configuration is distinct by (pair or model, clause).  Third audit: Saint-Venant Kirchhoff laws "
             "at finite strain (orthotropic vs the energy of the engineering constants written with numpy, isotropic vs orthotropic with equal "
             "constants, every Seth-Hill exponent); reductions between tensortrax models for parameter subsets and Ogden-type laws vs their "
             "definition in principal axes (1-3 terms); state variables through jax Hyperelastic / total_lagrange / updated_lagrange of both "
             "backends and the flags jit, jacobian, parallel; the jax micro-sphere frameworks vs their tensortrax namesakes; the two tensortrax "
             "MORPH-by-representative-directions; scaled unit systems; recorded findings keep their keys, their finiteness and size are judged "
             "under keys of their own.  Fourth audit: the bulk part of the hand-coded NeoHooke (shared with its subclass Volumetric) vs the "
             "documented energy differentiated by hand and by tensortrax at volume-changing states; micro-sphere frameworks (one sphere rule "
             "on both sides of every pair) vs the exact averages over the unit sphere: closed-form initial shear modulus of the chain law, and "
             "finite-strain energies that are polynomials in the invariants of the unimodular C"),
    "assumptions": ["jax storakers / extended_tube perturb C by diag(0,+-1e-4,-+1e-4): the tensortrax model function is evaluated on the "
                    "identically perturbed C (tolerance 1e-6) and the raw difference is bounded by 20 x 1e-4 x |A|",
                    "recorded findings (lagrange.morph elasticity, orthotropic SVK k != 2 in rotated axes): size bounds 0.5 / 0.75 of the tensor "
                    "(largest observed over 1500 / 1900 draws: 0.07 / 0.24); they guard against non-finite or grossly different results only",
                    "scaled unit systems: the compiled jax material object is kept and its parameters (umat.kwargs) are replaced",
                    "documented moduli: the docstring equations (arruda_boyce: the series; extended tube at delta = 0; van der Waals within 1e-2: its unconditional Im += 1e-4 shifts the initial modulus by O(sqrt(1e-4 / (limit^2 - 3)) + a sqrt(1e-4)))"],
    "jobs": {"quick": 12, "thorough": 16},
    "timeout": {"quick": 1200, "thorough": 5400},
}
