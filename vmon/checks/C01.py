"""C01 - the assembled tangent matrix is the exact derivative of the assembled vector.

Deciding monitor: vmon.monitors.items.check_tangent on (fun_items, jac_items) - what Newton really sums, incl.
the items' multipliers - using central differences on deep copies with two step sizes and a rate test.
"""
import numpy as np

from .. import gen
from ..monitors import items as MI
from ..util import maxabs, rng_for


def materials(rng, which):
    import felupe as fem
    if which == "NeoHooke":
        return fem.NeoHooke(mu=float(rng.uniform(0.5, 2)), bulk=float(rng.uniform(1, 5)))
    if which == "NeoHookeCompressible":
        return fem.NeoHookeCompressible(mu=float(rng.uniform(0.5, 2)), lmbda=float(rng.uniform(1, 4)))
    if which == "Yeoh(tensortrax)":
        return fem.Hyperelastic(fem.yeoh, C10=0.5, C20=-0.05, C30=0.02) & fem.Volumetric(bulk=float(rng.uniform(2, 6)))
    if which == "MooneyRivlin(jax)":
        import felupe.constitution.jax as fj
        return fj.Hyperelastic(fj.models.hyperelastic.mooney_rivlin, C10=0.4, C01=0.2) & fem.Volumetric(bulk=3.0)
    if which == "OgdenRoxburgh":
        return fem.OgdenRoxburgh(fem.NeoHooke(mu=1.0, bulk=3.0), r=3.0, m=1.0, beta=0.1)
    if which == "LinearElasticLargeStrain":
        return fem.LinearElasticLargeStrain(E=2.0, nu=0.3)
    if which == "SaintVenantKirchhoff(tensortrax)":
        return fem.Hyperelastic(fem.saint_venant_kirchhoff, mu=1.0, lmbda=2.0)
    raise KeyError(which)


MATS = ["NeoHooke", "NeoHookeCompressible", "Yeoh(tensortrax)", "MooneyRivlin(jax)", "OgdenRoxburgh",
        "LinearElasticLargeStrain"]


def random_state(rng, field, grad=0.2):
    field[0].values[:] = gen.random_displacement(rng, field.region.mesh, grad=grad)
    import zlib
    if zlib.crc32(np.ascontiguousarray(field[0].values).tobytes()) % 4 == 0:
        # the same values stored column-wise (what (R @ X.T).T or np.array([ux, uy, uz]).T produce): the memory layout of a
        # value array carries no meaning (decided by the values themselves, the random stream is not touched)
        field[0].values = np.asfortranarray(field[0].values)
    if len(field.fields) > 1:
        field[1].values[:] = 0.3 * rng.standard_normal(field[1].values.shape)
    if len(field.fields) > 2:
        field[2].values[:] = 1 + 0.1 * rng.standard_normal(field[2].values.shape)


def make_field(kind, fam, geometry, rng):
    import felupe as fem
    mesh, _ = gen.build_mesh(fam, geometry, rng)
    if kind.endswith("axisymmetric"):
        # keep the body away from the axis, in units of its own size (the affine class scales meshes from 4e-3 to 250)
        size = float(np.ptp(mesh.points[:, 1]))
        mesh = mesh.copy(points=mesh.points + np.array([0.0, 1.5 * size - mesh.points[:, 1].min()]))
    reg = gen.make_region(fam, mesh)
    d = mesh.dim
    if kind == "3d" or (kind == "plain" and d == 3):
        return fem.FieldContainer([fem.Field(reg, dim=3)]), mesh, reg
    if kind == "planestrain":
        return fem.FieldContainer([fem.FieldPlaneStrain(reg, dim=2)]), mesh, reg
    if kind == "axisymmetric":
        return fem.FieldContainer([fem.FieldAxisymmetric(reg, dim=2)]), mesh, reg
    if kind.startswith("mixed"):
        return fem.FieldsMixed(reg, n=3, planestrain=kind == "mixed-planestrain", axisymmetric=kind == "mixed-axisymmetric"), mesh, reg
    raise KeyError(kind)


def evaluate(run, items, x, label, rng, conservative, order=0, inplace=False, more=True, explicit=None):
    """Drive fun_items/jac_items in different call orders (out= buffers inside the items are state)."""
    _evaluate(run, items, x, label, rng, conservative, order, inplace)
    if more:
        # the same items again the way later Newton iterations see them: after an evaluation at another state (3), with a
        # container that is not the items' own (4), with threaded assembly (5)
        _evaluate(run, items, x, label, rng, conservative, 3 + order % 3, inplace)
    if explicit if explicit is not None else order % 3 == 0:
        # and the way code outside Newton asks for a matrix (6): item.assemble.matrix(field) with an explicit field, matrix first
        # (a generator of its own: the states of the calls above and of whatever the case draws afterwards stay what they were)
        _evaluate(run, items, x, label, rng_for(run.seed, "C01", "matrix(field)", label, order), conservative, 6, inplace)


def explicit_matrix(items, x):
    """sum_i multiplier_i * item_i.assemble.matrix(field) with an explicit field and no vector assembled before - the call style of
    ``FreeVibration`` and of user code (the property's ``observe_at`` lists it), summed and resized the way ``jac_items`` does.
    ``jac_items`` itself calls ``assemble.matrix()`` without a field, which leaves the branches ``if field is not None`` of every
    item unexecuted (third coverage audit): there the matrix call itself has to bring the kinematics to the given state.
    The field handed over is the global container, except for items that live on a container of their own without taking
    their values from another one (a form item on a boundary region): these get their own container, linked as Newton links it."""
    from scipy.sparse import csr_matrix
    n = int(np.sum(x.fieldsizes))
    K = csr_matrix((n, n))
    for it in items:
        if it.field is x or hasattr(it, "_update"):
            Ki = it.assemble.matrix(x)
        else:
            it.field.link(x)
            Ki = it.assemble.matrix(it.field)
        m = it.assemble.multiplier
        Ki = (Ki * m if m is not None else Ki.copy()).tocsr()
        if Ki.shape != (n, n):
            Ki.resize(n, n)
        K = K + Ki
    return K


def _evaluate(run, items, x, label, rng, conservative, order, inplace):
    import copy
    from felupe.tools._newton import fun_items, jac_items
    settle = MI.needs_settle(items)
    kw = {}
    if order == 6:
        keep = [f.values.copy() for f in x.fields]
        for k, f in enumerate(x.fields):
            # the last evaluation of the items was at another admissible state nearby (as in order 3, in units of the body)
            unit = float(np.ptp(f.region.mesh.points, axis=0).max()) / 1.5 if k == 0 else 1.0
            f.values[:] = f.values + 0.02 * max(unit, float(np.abs(f.values).max())) * rng.standard_normal(f.values.shape)
        fun_items(items, x)
        jac_items(items, x)
        for f, v in zip(x.fields, keep):
            f.values[:] = v
        if settle:
            # the property speaks about the condensed body at a settled state: its explicit-field matrix call then runs the
            # state update (p, J) inside a *matrix* call with a zero increment; the other items of the list still come from the other state
            for it in items:
                if type(it).__name__ == "SolidBodyNearlyIncompressible":
                    it.assemble.vector(x)
                    it.assemble.vector(x)
        K = explicit_matrix(items, x)
        run.units["order:explicit-field-matrix"] += 1
        # one random direction (plus one per field of a mixed container): a matrix of another state differs in every direction
        MI.check_tangent(run, items, x, K, label + "@matrix(field)", conservative=conservative, ndir=1, rng=rng, inplace=inplace)
        return
    if order == 3:
        keep = [f.values.copy() for f in x.fields]
        for k, f in enumerate(x.fields):
            # another admissible state nearby: displacements move by 2 % of the body (whatever its length unit), the other fields by 0.02
            unit = float(np.ptp(f.region.mesh.points, axis=0).max()) / 1.5 if k == 0 else 1.0
            f.values[:] = f.values + 0.02 * max(unit, float(np.abs(f.values).max())) * rng.standard_normal(f.values.shape)
        fun_items(items, x)
        jac_items(items, x)
        for f, v in zip(x.fields, keep):
            f.values[:] = v
        run.units["order:after-another-state"] += 1
    elif order == 4:
        x = copy.deepcopy(x)
        run.units["order:foreign-container"] += 1
    elif order == 5:
        kw = {"parallel": True}
        run.units["order:parallel"] += 1
    if kw:
        fun_items(items, x, **kw)
        if settle:
            fun_items(items, x, **kw)
        K = jac_items(items, x, **kw)
        MI.check_tangent(run, items, x, K, label, conservative=conservative, rng=rng, inplace=inplace)
        return
    fun_items(items, x)
    if settle:
        fun_items(items, x)
    if order == 1:
        jac_items(items, x)
        fun_items(items, x)
    elif order == 2:
        fun_items(items, x)
        fun_items(items, x)
    K = jac_items(items, x)
    if order == 2:
        K = jac_items(items, x)
    MI.check_tangent(run, items, x, K, label, conservative=conservative, rng=rng, inplace=inplace)


class UmatPath:
    """``tools.fun`` / ``tools.jac`` - the ``umat`` call style ``newtonrhapson(x0, args=(umat,), kwargs=flags)``, Newton's defaults
    for ``fun`` and ``jac`` - behind the interface of an item, so that the deciding monitor differentiates what that call style
    really evaluates (``fun_items`` / ``jac_items`` only forward to the two functions, with the flags of the call)."""

    def __init__(self, umat, field, **flags):
        import types
        self.umat, self.field, self.flags = umat, field, flags
        self.assemble = types.SimpleNamespace(vector=self._vector, matrix=self._matrix, multiplier=None)

    def _flags(self, parallel):
        return dict(self.flags, parallel=True) if parallel else self.flags

    def _vector(self, field=None, parallel=False):
        from felupe.tools._newton import fun
        from scipy.sparse import csr_matrix
        return csr_matrix(fun(self.field if field is None else field, self.umat, **self._flags(parallel)).reshape(-1, 1))

    def _matrix(self, field=None, parallel=False):
        from felupe.tools._newton import jac
        return jac(self.field if field is None else field, self.umat, **self._flags(parallel))


def case_umat_path(kind, fam, rep):
    """The second anchored pair of ``tools/_newton.py``: ``jac(x, umat, **flags)`` against differences of ``fun(x, umat, **flags)``
    with the documented flags (third coverage audit: nothing executed the pair; a flag dropped or swapped in ``jac`` only - ``sym`` not
    forwarded to ``extract`` - still converges, which is all the other checks see of this call style)."""
    def fn(run):
        import felupe as fem
        rng = rng_for(run.seed, "C01", "umat-path", kind, fam, rep)
        field, mesh, reg = make_field(kind, fam, "distorted", rng)
        flagset = ["default", "parallel", "sym"][rep % 3]
        if flagset == "sym" and not kind.startswith("mixed"):
            # the small-strain call style: symmetric part of the displacement gradient, no identity added
            field[0].values[:] = gen.random_displacement(rng, mesh, grad=0.05)
            umat = fem.LinearElastic(E=float(rng.uniform(1, 3)), nu=float(rng.uniform(0.1, 0.4)))
            flags = {"sym": True, "add_identity": False, "parallel": bool(rep // 3 % 2)}
        else:
            random_state(rng, field)
            if kind.startswith("mixed"):
                umat = [fem.ThreeFieldVariation(fem.NeoHookeCompressible(mu=1.0, lmbda=float(rng.uniform(1, 4)))),
                        fem.NearlyIncompressible(fem.NeoHooke(mu=1.0), bulk=float(rng.uniform(5, 30))),
                        fem.ThreeFieldVariation(fem.NeoHooke(mu=1.0, bulk=float(rng.uniform(5, 30))))][rep % 3]
            else:
                umat = [fem.NeoHooke(mu=1.0, bulk=float(rng.uniform(1, 5))), fem.NeoHookeCompressible(mu=1.0, lmbda=float(rng.uniform(1, 4)))][rep % 3]
            # every documented flag spelled out once (the values of the defaults), threaded once
            flags = [{}, {"parallel": True}, {"grad": True, "add_identity": True, "sym": False, "parallel": True}][rep % 3]
            flagset = ["default", "parallel", "spelled-out"][rep % 3]
        run.units["umat-path-flags:" + flagset] += 1
        label = "tools.fun/jac[%s]" % kind
        evaluate(run, [UmatPath(umat, field, **flags)], field, label, rng, conservative=True, order=rep % 3, explicit=False)
        run.configs.add(str((label, fam, type(umat).__name__, flagset)))
    return fn


def case_solid(kind, fam, geometry, mat, rep):
    def fn(run):
        import felupe as fem
        rng = rng_for(run.seed, "C01", kind, fam, geometry, mat, rep)
        field, mesh, reg = make_field(kind, fam, geometry, rng)
        random_state(rng, field)
        if kind.startswith("mixed"):
            # wrapped laws with and without a distortional / volumetric split (the u-J block vanishes for split laws)
            inner = ["NeoHooke", "NeoHookeCompressible", "SaintVenantKirchhoff(tensortrax)", "LinearElasticLargeStrain"][(rep + len(fam)) % 4]
            base = fem.NeoHooke(mu=1.0, bulk=float(rng.uniform(5, 30))) if inner == "NeoHooke" else materials(rng, inner)
            if mat == "ThreeFieldVariation":
                umat = fem.ThreeFieldVariation(base)
                run.units["mixed-inner:" + inner] += 1
            else:
                umat = fem.NearlyIncompressible(fem.NeoHooke(mu=1.0), bulk=float(rng.uniform(5, 30)))
            body = fem.SolidBody(umat, field)
            label = "SolidBody[%s,%s]" % (mat, kind)
        else:
            umat = materials(rng, mat)
            use_mult = (len(fam) + len(mat) + rep) % 2 == 1
            body = fem.SolidBody(umat, field, **({"multiplier": float(rng.uniform(0.3, 2))} if use_mult else {}))
            if use_mult:
                run.units["solidbody-multiplier"] += 1
            if mat == "OgdenRoxburgh":
                # stored state variables from a prior history: drive the body through a larger state and commit
                big = field.copy()
                big[0].values[:] = 3.0 * field[0].values
                body.assemble.vector(big)
                body.results.update_statevars()
                body.assemble.vector(field)
            label = "SolidBody[%s]" % ({"3d": "Field", "planestrain": "FieldPlaneStrain", "axisymmetric": "FieldAxisymmetric"}[kind])
        # (the explicit-field call style in every second configuration, chosen by the names: the large families make it the costly part of the tier)
        evaluate(run, [body], field, label, rng, conservative=True, order=rep % 3, explicit=rep % 3 == 0 and (len(fam) + len(mat)) % 2 == 0)
        run.configs.add(str((label, fam, geometry, mat)))
    return fn


def case_history_material(which, kind, fam, rep):
    """Materials whose tangent depends on the *committed* state variables: the vector (which computes the trial state) is
    assembled before the matrix, at an increment in which the state really changes."""
    def fn(run):
        import felupe as fem
        rng = rng_for(run.seed, "C01", "history", which, kind, fam, rep)
        field, mesh, reg = make_field(kind, fam, "distorted", rng)
        if which == "viscoelastic":
            umat = fem.Hyperelastic(fem.finite_strain_viscoelastic, mu=1.0, eta=float(rng.uniform(0.5, 2)), dtime=float(rng.uniform(0.2, 1)), nstatevars=6) \
                & fem.Volumetric(bulk=3.0)
            amp = 0.2
        elif which == "plasticity":
            umat = fem.LinearElasticPlasticIsotropicHardening(E=100.0, nu=0.3, sy=1.0, K=float(rng.uniform(5, 30)))
            amp = 0.03
        else:
            umat = fem.OgdenRoxburgh(fem.NeoHooke(mu=1.0, bulk=3.0), r=3.0, m=1.0, beta=0.1)
            amp = 0.2
        clear = which != "ogden-roxburgh"
        for attempt in range(8):
            body = fem.SolidBody(umat, field)
            # committed history: one converged-like increment
            field[0].values[:] = gen.random_displacement(rng, mesh, grad=0.6 * amp)
            body.assemble.vector(field)
            body.results.update_statevars()
            # next increment (state changes), evaluated in the order Newton uses: vector, then matrix
            if attempt == 0:
                field[0].values[:] = field[0].values + gen.random_displacement(rng, mesh, grad=0.6 * amp)
            else:
                # (further attempts of the pseudo-elastic case only: the body unloads / reloads as a whole, which keeps most points clear
                # of the switch; sweep #14, seed 38, had every draw of the first kind with one quadrature point inside the band - the unit
                # must not depend on the luck of the draw)
                field[0].values[:] = [0.5, 1.6, 0.3, 2.0, 0.7, 1.35, 0.4][attempt - 1] * field[0].values + 0.1 * gen.random_displacement(rng, mesh, grad=0.6 * amp)
            if clear:
                break
            # the response has a kink where the strain energy passes the stored maximum (loading <-> unloading switch): such
            # points are outside the quantifier (the response is not differentiable there); a point closer to the switch than
            # the finite-difference stencil would look like a small tangent error
            Fq = field.extract()[0]
            W = np.asarray(umat.material.function([Fq, None])[0], float)
            Wmax = np.asarray(body.results.statevars[0], float)
            # (the model also switches its softening derivative off where eta is within 1e-5 of one, i.e. z < ~3e-5)
            z = np.abs(Wmax - W) / (umat.m + umat.beta * np.maximum(Wmax, W))
            if not (np.min(np.abs(W - Wmax)) < 2e-3 * max(maxabs(Wmax), maxabs(W)) or np.min(z) < 2e-4):
                clear = True
                break
        if not clear:
            run.skip("items.tangent", "a quadrature point sits on the loading/unloading switch of the pseudo-elastic model (kink) in all 8 draws")
            return
        label = "SolidBody[%s,history]" % which
        evaluate(run, [body], field, label, rng, conservative=False, order=rep % 3)
        run.configs.add(str((label, kind, fam)))
    return fn


def case_history_more(which, kind, fam, rep):
    """The same three laws with committed state variables on the field kinds the plan above leaves out (third coverage audit):
    axisymmetric bodies, plasticity on the 2D kinds, and mixed containers, where the law sits inside ``ThreeFieldVariation`` /
    ``NearlyIncompressible`` and the state variables travel behind three kinematic entries. In every second repetition the judged
    body is a new one that receives the committed state through the documented constructor argument ``statevars=`` (a restart)."""
    def fn(run):
        import felupe as fem
        rng = rng_for(run.seed, "C01", "history-more", which, kind, fam, rep)
        field, mesh, reg = make_field(kind, fam, "distorted", rng)
        mixed = kind.startswith("mixed")
        split = mixed and rep % 2 == 1  # the wrapper that adds the volumetric part itself gets a law without one
        if which == "viscoelastic":
            umat = fem.Hyperelastic(fem.finite_strain_viscoelastic, mu=1.0, eta=float(rng.uniform(0.5, 2)), dtime=float(rng.uniform(0.2, 1)), nstatevars=6)
            umat = umat if split else umat & fem.Volumetric(bulk=3.0)
            amp = 0.2
        elif which == "plasticity":
            umat = fem.LinearElasticPlasticIsotropicHardening(E=100.0, nu=0.3, sy=1.0, K=float(rng.uniform(5, 30)))
            amp = 0.03
        else:
            umat = inner = fem.OgdenRoxburgh(fem.NeoHooke(mu=1.0) if split else fem.NeoHooke(mu=1.0, bulk=3.0), r=3.0, m=1.0, beta=0.1)
            amp = 0.2
        if mixed:
            umat = fem.NearlyIncompressible(umat, bulk=float(rng.uniform(5, 30))) if split else fem.ThreeFieldVariation(umat)
            run.units["history-wrapper:%s(%s)" % (type(umat).__name__, which)] += 1

        def duals(scale):
            if mixed:
                field[1].values[:] = scale * 0.3 * rng.standard_normal(field[1].values.shape)
                field[2].values[:] = 1 + scale * 0.1 * rng.standard_normal(field[2].values.shape)

        body = fem.SolidBody(umat, field)
        # committed history: one converged-like increment
        field[0].values[:] = gen.random_displacement(rng, mesh, grad=0.6 * amp)
        duals(0.5)
        body.assemble.vector(field)
        body.results.update_statevars()
        committed = body.results.statevars.copy()
        # next increment (state changes), evaluated in the order Newton uses: vector, then matrix
        if which == "ogden-roxburgh":
            # unloading / further loading along the committed state: a random increment raises the energy in one part of the body and
            # lowers it in another, so that some quadrature point nearly always sits on the switch in between (the cases above lose
            # about every second draw to that precondition)
            field[0].values[:] = [0.6, 1.3][(rep + rep // 2) % 2] * field[0].values
        else:
            field[0].values[:] = field[0].values + gen.random_displacement(rng, mesh, grad=0.6 * amp)
        duals(1.0)
        if which == "ogden-roxburgh":
            # the kink of the pseudo-elastic model (see case_history_material), at the deformation gradient the wrapped law sees
            x = field.extract()
            Fq = x[0]
            if mixed and not split:
                Fq = (x[2] / np.linalg.det(Fq.transpose([2, 3, 0, 1]))) ** (1 / 3) * Fq
            W = np.asarray(inner.material.function([Fq, None])[0], float)
            Wmax = np.asarray(committed[0], float)
            z = np.abs(Wmax - W) / (inner.m + inner.beta * np.maximum(Wmax, W))
            if np.min(np.abs(W - Wmax)) < 2e-3 * max(maxabs(Wmax), maxabs(W)) or np.min(z) < 2e-4:
                run.skip("items.tangent", "a quadrature point sits on the loading/unloading switch of the pseudo-elastic model (kink)")
                return
        restart = rep // 2 % 2 == 1 if mixed else rep % 2 == 1
        if restart:
            # a restart: the committed state of the first body is all the new one knows about the history
            body = fem.SolidBody(umat, field, statevars=committed)
            run.units["history-restart(statevars=)"] += 1
        label = "SolidBody[%s,history,%s]" % (which, kind)
        evaluate(run, [body], field, label, rng, conservative=False, order=rep % 3)
        run.configs.add(str((label, fam, type(umat).__name__, "restart" if restart else "same body")))
    return fn


def case_nearly_incompressible(kind, fam, rep):
    def fn(run):
        import felupe as fem
        rng = rng_for(run.seed, "C01", "ni", kind, fam, rep)
        field, mesh, reg = make_field(kind, fam, "distorted", rng)
        random_state(rng, field)
        # isochoric parts with and without an out= argument, without a volumetric part of their own, with state variables
        which = ["NeoHooke", "tt.yeoh", "NeoHookeCompressible", "OgdenRoxburgh"][rep % 4]
        umat = {"NeoHooke": lambda: fem.NeoHooke(mu=float(rng.uniform(0.5, 2))),
                "tt.yeoh": lambda: fem.Hyperelastic(fem.yeoh, C10=0.5, C20=-0.05, C30=0.02),
                "NeoHookeCompressible": lambda: fem.NeoHookeCompressible(mu=float(rng.uniform(0.5, 2))),
                "OgdenRoxburgh": lambda: fem.OgdenRoxburgh(fem.NeoHooke(mu=1.0), r=3.0, m=1.0, beta=0.1)}[which]()
        body = fem.SolidBodyNearlyIncompressible(umat, field, bulk=float(rng.uniform(10, 500)))
        if which == "OgdenRoxburgh":
            # committed history from a larger state; the values are changed in place (the condensed body keeps a reference
            # to the value array of the field it was built on, so handing it another container would overwrite this one)
            keep = field[0].values.copy()
            field[0].values[:] = 2.5 * keep
            body.assemble.vector(field)
            body.results.update_statevars()
            field[0].values[:] = keep
            body.assemble.vector(field)
        run.units["ni-umat:" + which] += 1
        label = "SolidBodyNearlyIncompressible[%s]" % kind
        evaluate(run, [body], field, label, rng, conservative=True, order=rep % 3, explicit=rep == 0)
        run.configs.add(str((label, fam)))
        if which in ("NeoHooke", "tt.yeoh"):
            # two condensed bodies on one field (two materials in one model; the layout of sub-mesh bodies linked to one top-level
            # field before they are created): each keeps its own record of the displacements of its last evaluation
            field2, mesh2, reg2 = make_field(kind, fam, "distorted", rng)
            random_state(rng, field2)
            ba = fem.SolidBodyNearlyIncompressible(fem.NeoHooke(mu=float(rng.uniform(0.5, 2))), field2, bulk=float(rng.uniform(10, 500)))
            bb = fem.SolidBodyNearlyIncompressible(fem.NeoHooke(mu=float(rng.uniform(0.5, 2))), field2, bulk=float(rng.uniform(10, 500)))
            evaluate(run, [ba, bb], field2, "two-condensed-bodies-on-one-field[%s]" % kind, rng, conservative=True, order=rep % 3)
    return fn


def boundary_field(kind, rng, closed=True):
    import felupe as fem
    if kind == "hex":
        mesh, _ = gen.build_mesh("hexahedron", "distorted", rng)
        reg = fem.RegionHexahedron(mesh)
        field = fem.FieldContainer([fem.Field(reg, dim=3)])
        mask = None if closed else np.isclose(mesh.points[:, 0], mesh.points[:, 0].max())
        rb = fem.RegionHexahedronBoundary(mesh, mask=mask)
        fb = fem.FieldContainer([fem.Field(rb, dim=3)])
    else:
        mesh, _ = gen.build_mesh("quad", "distorted", rng)
        mesh = mesh.copy(points=mesh.points + np.array([0.0, 1.5 - mesh.points[:, 1].min()]))
        reg = fem.RegionQuad(mesh)
        F = fem.FieldAxisymmetric if kind == "axisymmetric" else fem.FieldPlaneStrain
        field = fem.FieldContainer([F(reg, dim=2)])
        mask = None if closed else np.isclose(mesh.points[:, 0], mesh.points[:, 0].max())
        rb = fem.RegionQuadBoundary(mesh, mask=mask, ensure_3d=True)
        fb = fem.FieldContainer([F(rb, dim=2)])
    return field, fb, mesh


def case_load(what, kind, rep):
    def fn(run):
        import felupe as fem
        rng = rng_for(run.seed, "C01", what, kind, rep)
        closed = bool(rep % 2)
        field, fb, mesh = boundary_field(kind, rng, closed)
        random_state(rng, field)
        solid = fem.SolidBody(fem.NeoHooke(mu=1.0, bulk=2.0), field)
        variant = (rep // 2) % 3  # 0: as constructed, 1: value replaced by update(), 2: general value (array pressure, non-symmetric stress)
        if what == "pressure":
            pv = rng.uniform(-1, 1, fb.region.dV.shape) if variant == 2 else float(rng.uniform(-1, 1))
            load = fem.SolidBodyPressure(fb, pressure=float(rng.uniform(-1, 1)) if variant == 1 else pv)
            if variant == 1:
                load.assemble.vector(field)
                load.update(pv)
            name = "SolidBodyPressure[%s]" % kind
        else:
            s = rng.standard_normal((3, 3))
            sv = s if variant == 2 else s + s.T
            load = fem.SolidBodyCauchyStress(fb, cauchy_stress=(s - s.T + np.eye(3)) if variant == 1 else sv)
            if variant == 1:
                load.assemble.vector(field)
                load.update(sv)
            name = "SolidBodyCauchyStress[%s]" % kind
        run.units["load-variant:%s:%d" % (what, variant)] += 1
        with_solid = bool((rep // 2) % 2)
        items = [solid, load] if with_solid else [load]
        label = name + ("+SolidBody" if with_solid else "")
        evaluate(run, items, field, name, rng, conservative=False, order=rep % 3)
        run.configs.add(str((label, "closed" if closed else "open")))
        if with_solid:
            run.units["multi-item-list-with-multiplier=-1"] += 1
    return fn


def pressure_twin(run, field, fb, p, name, dim=3):
    """A second reference for the follower loads, which the difference quotient cannot give: the Cauchy stress -p I *is* the
    pressure p (sigma n da = -p n da), so ``SolidBodyCauchyStress(-p I)`` and ``SolidBodyPressure(p)`` have to assemble the same
    vector and the same matrix. The two items contract the area change differently (``fun *= -p`` against ``dot(sigma, fun)``,
    modes (2, 2) and (2, 4), each with its own copy of the normals); a slip common to the vector and the matrix of one of them - a
    sign convention, a factor, the normals it keeps - is consistent, passes the derivative clause, and shows here (a transposed
    contraction does not: the stress is isotropic). Both sides are new objects on containers of their own; measured difference 0.0."""
    import felupe as fem
    from felupe.tools._newton import fun_items, jac_items
    a = fem.SolidBodyPressure(fb.copy(), pressure=p)
    b = fem.SolidBodyCauchyStress(fb.copy(), cauchy_stress=-float(p) * np.eye(dim))
    va, vb = fun_items([a], field), fun_items([b], field)
    Ka, Kb = jac_items([a], field).toarray(), jac_items([b], field).toarray()
    for clause, ra, rb in (("vector", va, vb), ("matrix", Ka, Kb)):
        err = maxabs(ra - rb) / max(maxabs(ra), maxabs(rb), 1e-300)
        run.compare("items.tangent", "item=%s clause=pressure-equals-cauchy-stress(-pI):%s" % (name, clause), err, 1e-12,
                    "%s: the %s of SolidBodyPressure(p) differs from that of SolidBodyCauchyStress(-p I)" % (name, clause),
                    unit="twin:pressure=cauchy-stress(-pI):%s" % clause, config=name + " twin " + clause)


def case_load_more(kind, rep):
    """Follower loads with the value types and field kinds that ``case_load`` leaves out (third coverage audit): integer and 0-d
    pressures, one (integer) pressure per cell, stresses given as nested lists, integer or column-major arrays; a plain 2D ``Field``
    with a 2D boundary region (2 x 2 kinematics and stress); loads summed into the system of a mixed axisymmetric container. Where the
    pressure is one number its Cauchy-stress twin is compared."""
    def fn(run):
        import felupe as fem
        rng = rng_for(run.seed, "C01", "load-more", kind, rep)
        closed = bool(rep % 2)
        if kind in ("hex", "planestrain", "axisymmetric"):
            field, fb, mesh = boundary_field(kind, rng, closed)
            dim = 3
        else:
            mesh, _ = gen.build_mesh("quad", "distorted", rng)
            mesh = mesh.copy(points=mesh.points + np.array([0.0, 1.5 - mesh.points[:, 1].min()]))
            reg = fem.RegionQuad(mesh)
            mask = None if closed else np.isclose(mesh.points[:, 0], mesh.points[:, 0].max())
            if kind == "plain2d":
                field = fem.FieldContainer([fem.Field(reg, dim=2)])
                fb = fem.FieldContainer([fem.Field(fem.RegionQuadBoundary(mesh, mask=mask), dim=2)])
                dim = 2
            else:
                field = fem.FieldsMixed(reg, n=3, axisymmetric=True)
                fb = fem.FieldContainer([fem.FieldAxisymmetric(fem.RegionQuadBoundary(mesh, mask=mask, ensure_3d=True), dim=2)])
                dim = 3
        random_state(rng, field)
        if kind == "mixed-axisymmetric":
            solid = fem.SolidBody(fem.ThreeFieldVariation(fem.NeoHooke(mu=1.0, bulk=5.0)), field)
        else:
            solid = fem.SolidBody(fem.NeoHookeCompressible(mu=1.0, lmbda=2.0), field)
        ncells = fb.region.dV.shape[1]
        ptype = ["int", "0-d", "per-cell-int"][rep % 3]
        pv = {"int": lambda: int(rng.choice([-2, -1, 1, 2])), "0-d": lambda: np.array(float(rng.choice([-1, 1])) * float(rng.uniform(0.2, 1))),
              "per-cell-int": lambda: rng.integers(-2, 3, (1, ncells))}[ptype]()
        stype = ["list", "int", "column-major"][rep % 3]
        s = rng.standard_normal((dim, dim))
        sv = {"list": lambda: (s + s.T).tolist(), "int": lambda: rng.integers(-2, 3, (dim, dim)), "column-major": lambda: np.asfortranarray(s)}[stype]()
        with_solid = bool(rep // 2 % 2) or kind == "mixed-axisymmetric"
        for what, load, vtype in (("SolidBodyPressure", fem.SolidBodyPressure(fb.copy(), pressure=pv), ptype),
                                  ("SolidBodyCauchyStress", fem.SolidBodyCauchyStress(fb.copy(), cauchy_stress=sv), stype)):
            name = "%s[%s,%s]" % (what, kind, vtype)
            run.units["load-value-type:%s:%s" % (what, vtype)] += 1
            evaluate(run, [solid, load] if with_solid else [load], field, name, rng, conservative=False, order=rep % 3, explicit=rep % 2 == 0)
            run.configs.add(str((name, vtype, "closed" if closed else "open", with_solid)))
        if ptype != "per-cell-int":
            pressure_twin(run, field, fb, pv, "SolidBodyPressure[%s]" % kind, dim=dim)
    return fn


def case_axis_load(rep):
    """Axisymmetric follower loads on a body that touches the axis - the geometry of the class docstrings (``Rectangle``, r from 0) - where
    every case above keeps the bodies at r >= 1.5 (third coverage audit). The loaded surface is chosen by a mask that leaves out the
    edge on the axis, which is no surface of the revolved body: the face perpendicular to the axis, which reaches the axis with one
    corner (the docstring's mask), or the whole outline but the axis edge. The states keep u_r = 0 on the axis."""
    def fn(run):
        import felupe as fem
        rng = rng_for(run.seed, "C01", "axis-load", rep)
        fam, Rv, Rb = [("quad", "RegionQuad", "RegionQuadBoundary"), ("quad8", "RegionQuadraticQuad", "RegionQuadraticQuadBoundary"),
                       ("quad9", "RegionBiQuadraticQuad", "RegionBiQuadraticQuadBoundary")][rep % 3]
        mesh, _ = gen.build_mesh(fam, "distorted", rng)
        X = mesh.points.copy()
        X[:, 1] -= X[:, 1].min()
        mesh = mesh.copy(points=X)
        r, z = X[:, 1], X[:, 0]
        on_axis = r == 0
        assert on_axis.sum() >= 3  # the generator moves boundary points along the boundary only
        field = fem.FieldContainer([fem.FieldAxisymmetric(getattr(fem, Rv)(mesh), dim=2)])
        u = gen.random_displacement(rng, mesh, grad=0.2)
        u[:, 1] *= r / r.max()  # no radial displacement on the axis, hoop stretch 1 + u_r / r bounded like the gradient
        field[0].values[:] = u
        ends = np.isclose(z, z.max()) | np.isclose(z, z.min())
        surface = ["end-face", "outline-without-axis-edge"][rep // 3 % 2]
        mask = np.isclose(z, z.max()) if surface == "end-face" else (~on_axis | ends)
        rb = getattr(fem, Rb)(mesh, mask=mask, ensure_3d=True)
        fb = fem.FieldContainer([fem.FieldAxisymmetric(rb, dim=2)])
        s = rng.standard_normal((3, 3))
        solid = fem.SolidBody(fem.NeoHooke(mu=1.0, bulk=2.0), field)
        with_solid = bool(rep % 2)
        pv = float(rng.choice([-1, 1])) * float(rng.uniform(0.2, 1))
        for what, load in (("SolidBodyPressure", fem.SolidBodyPressure(fb.copy(), pressure=pv)),
                           ("SolidBodyCauchyStress", fem.SolidBodyCauchyStress(fb.copy(), cauchy_stress=s + s.T if rep % 2 else s))):
            name = "%s[axisymmetric,on-axis]" % what
            evaluate(run, [solid, load] if with_solid else [load], field, name, rng, conservative=False, order=rep % 3)
            run.configs.add(str((name, Rb, surface, with_solid)))
        run.units["axis-load-surface:" + surface] += 1
        pressure_twin(run, field, fb, pv, "SolidBodyPressure[axisymmetric,on-axis]")
    return fn


def case_multipoint(contact, rep):
    def fn(run):
        import felupe as fem
        rng = rng_for(run.seed, "C01", "mpc", contact, rep)
        mesh = fem.Cube(n=(3, 3, 2))
        mesh.update(points=np.vstack([mesh.points, [0.5, 0.5, 1.4]]))
        reg = fem.RegionHexahedron(mesh)
        field = fem.FieldContainer([fem.Field(reg, dim=3)])
        field[0].values[:] = 0.03 * rng.standard_normal(field[0].values.shape)
        pts = np.arange(mesh.npoints)[np.isclose(mesh.points[:, 2], 1.0)]
        c = mesh.npoints - 1
        solid = fem.SolidBody(fem.NeoHooke(mu=1, bulk=2), field)
        if contact:
            state = ["open", "closed", "mixed", "touching", "all-axes"][rep % 5]
            skip = (1, 1, 0)
            if state == "closed":
                field[0].values[pts, 2] += 0.6  # all points penetrate the plane of the centre point (gap 0.4)
            elif state == "mixed":
                field[0].values[pts[::2], 2] += 0.6
            elif state == "touching":
                # the wall (centre point) touches the surface in the reference configuration: zero reference gap
                mesh.points[c, 2] = 1.0
                field[0].values[:] *= 0.3
                field[0].values[pts, 2] += rng.choice([-1.0, 1.0], len(pts)) * rng.uniform(0.2, 0.3, len(pts))
            elif state == "all-axes":
                # contact in every axis; points at x = 0.5 or y = 0.5 have a zero reference gap to the centre in that axis
                skip = (0, 0, 0)
                field[0].values[:] *= 0.3  # small noise only: the gaps below stay clear of the switching point
                field[0].values[pts, :2] += rng.choice([-1.0, 1.0], (len(pts), 2)) * rng.uniform(0.2, 0.3, (len(pts), 2))
                field[0].values[pts[::2], 2] += 0.7
            # keep every gap of an active axis at least 0.1 away from the switching point
            act = [ax for ax in range(3) if not skip[ax]]
            gap = (mesh.points[c] + field[0].values[c])[act] - (mesh.points[pts] + field[0].values[pts])[:, act]
            if np.any(np.abs(gap) < 0.1):
                run.skip("items.tangent", "contact gap too close to the switching point")
                return
            it = fem.MultiPointContact(field, points=pts, centerpoint=c, skip=skip, multiplier=float(rng.uniform(10, 1000)))
            label = "MultiPointContact[%s]" % state
        else:
            skip = [(0, 0, 0), (0, 1, 0), (1, 1, 0)][rep % 3]
            it = fem.MultiPointConstraint(field, points=pts, centerpoint=c, skip=skip, multiplier=float(rng.uniform(10, 1000)))
            label = "MultiPointConstraint"
        # the large relative point motions of the touching / all-axes states are no admissible states of a solid
        with_solid = bool(rep % 2) and not (contact and state in ("touching", "all-axes"))
        evaluate(run, [it, solid] if with_solid else [it], field, label, rng, conservative=True, order=rep % 3)
        run.configs.add(str((label, with_solid)))
    return fn


def case_dead_loads(rep):
    def fn(run):
        import felupe as fem
        import warnings
        rng = rng_for(run.seed, "C01", "dead", rep)
        for kind, fam in (("3d", "hexahedron"), ("axisymmetric", "quad"), ("mixed", "hexahedron")):
            field, mesh, reg = make_field(kind, fam, "distorted", rng)
            random_state(rng, field)
            d = field[0].dim
            pts = rng.choice(mesh.npoints, 3, replace=False)
            # body-force vectors of an axisymmetric body are given with three components (z, r, hoop = 0);
            # two components raise loudly on the pinned tree
            bvec = lambda: np.append(rng.standard_normal(d), 0.0) if kind == "axisymmetric" else rng.standard_normal(d)
            items = {
                "PointLoad": fem.PointLoad(field, pts, values=rng.standard_normal((1, d)), axisymmetric=kind == "axisymmetric"),
                "SolidBodyForce": fem.SolidBodyForce(field, values=bvec(), scale=float(rng.uniform(0.5, 2))),
            }
            with warnings.catch_warnings():
                warnings.simplefilter("ignore")
                items["SolidBodyGravity"] = fem.SolidBodyGravity(field, gravity=bvec(), density=float(rng.uniform(0.5, 2)))
            for name, it in items.items():
                evaluate(run, [it], field, name, rng, conservative=True, order=rep % 3)
                run.configs.add(str((name, kind)))
    return fn


def case_formitem(rep):
    def fn(run):
        import felupe as fem
        from felupe.math import ddot, grad
        rng = rng_for(run.seed, "C01", "formitem", rep)
        field, mesh, reg = make_field("3d", "hexahedron", "distorted", rng)
        random_state(rng, field)
        umat = fem.NeoHookeCompressible(mu=1.0, lmbda=2.0)

        @fem.Form(v=field)
        def linearform():
            def L(v, **kwargs):
                P = umat.gradient(field.extract())[0]
                return ddot(grad(v), P)
            return [L]

        @fem.Form(v=field, u=field)
        def bilinearform():
            def a(v, u, **kwargs):
                A = umat.hessian(field.extract())[0]
                return ddot(ddot(grad(v), A, mode=(2, 4)), grad(u))
            return [a]

        item = fem.FormItem(bilinearform, linearform, sym=bool(rep % 2), kwargs={})
        evaluate(run, [item], field, "FormItem", rng, conservative=True, order=0, inplace=True)
        run.configs.add(str(("FormItem", "sym=%s" % bool(rep % 2))))
    return fn


def case_formitem_more(which, rep):
    """Form items beyond the one serial single-field configuration above (third coverage audit): the remaining call orders
    (foreign container, threaded integration incl. its ``sym`` branch), the documented mixed three-field item (six upper-triangle
    forms), items with only one of the two forms (zero vector / zero matrix sized by the whole container) and the documented
    penalty boundary condition on a boundary-region container in a list with a solid (keyword arguments, ``update``).
    The forms read the state from the container they were written for, so the differences are taken in place."""
    def fn(run):
        import felupe as fem
        from felupe.math import ddot, grad
        rng = rng_for(run.seed, "C01", "formitem", which, rep)
        sym = bool(rep % 2)
        if which == "single":
            field, mesh, reg = make_field("3d", "hexahedron", "distorted", rng)
            random_state(rng, field)
            umat = fem.NeoHookeCompressible(mu=1.0, lmbda=2.0)

            @fem.Form(v=field)
            def linearform():
                return [lambda v, **kwargs: ddot(grad(v), umat.gradient(field.extract())[0])]

            @fem.Form(v=field, u=field)
            def bilinearform():
                return [lambda v, u, **kwargs: ddot(ddot(grad(v), umat.hessian(field.extract())[0], mode=(2, 4)), grad(u))]

            order = [1, 2, 2, 1][rep % 4]
            evaluate(run, [fem.FormItem(bilinearform, linearform, sym=sym, kwargs={})], field, "FormItem", rng, conservative=True, order=order, inplace=True)
            run.configs.add(str(("FormItem", "sym=%s" % sym, "order=%d" % order)))
            return
        if which in ("mixed", "none-forms"):
            # the class docstring's "Hu-Washizu (Mixed) Three-Field Formulation": law and container arrive as keyword arguments; the
            # p-p block, which the law returns as None, is written as a zero
            mesh, _ = gen.build_mesh("hexahedron", "distorted", rng, n=(3, 2, 3))
            field = fem.FieldsMixed(fem.RegionHexahedron(mesh), n=3)
            random_state(rng, field)
            umat = fem.ThreeFieldVariation(fem.NeoHooke(mu=1.0, bulk=float(rng.uniform(5, 30))) if rep % 4 < 2 else
                                           fem.NeoHookeCompressible(mu=1.0, lmbda=float(rng.uniform(1, 4))))

            memo = {}

            def law(what, kwargs):
                # (the docstring evaluates the law for every pair of shape functions; here once per state and call)
                key = (what, b"".join(f.values.tobytes() for f in kwargs["field"].fields))
                if memo.get("key") != key:
                    memo.update(key=key, value=getattr(kwargs["umat"], what)(kwargs["field"].extract()))
                return memo["value"]

            @fem.Form(v=field)
            def linearform():
                def L1(du, **kwargs):
                    dW = linearform.dW = law("gradient", kwargs)
                    return ddot(grad(du), dW[0])
                return [L1, lambda dp, **kwargs: dp[0] * linearform.dW[1], lambda dJ, **kwargs: dJ[0] * linearform.dW[2]]

            @fem.Form(v=field, u=field)
            def bilinearform():
                def a11(du, Du, **kwargs):
                    d2W = bilinearform.d2W = law("hessian", kwargs)
                    return ddot(ddot(grad(du), d2W[0], mode=(2, 4)), grad(Du))
                return [a11,
                        lambda du, Dp, **kwargs: ddot(grad(du), bilinearform.d2W[1]) * Dp[0],
                        lambda du, DJ, **kwargs: ddot(grad(du), bilinearform.d2W[2]) * DJ[0],
                        lambda dp, Dp, **kwargs: dp[0] * 0.0 * Dp[0],
                        lambda dp, DJ, **kwargs: dp[0] * bilinearform.d2W[4] * DJ[0],
                        lambda dJ, DJ, **kwargs: dJ[0] * bilinearform.d2W[5] * DJ[0]]

            kwargs = {"umat": umat, "field": field}
            if which == "mixed":
                items, label = [fem.FormItem(bilinearform, linearform, sym=sym, kwargs=kwargs)], "FormItem[mixed]"
            else:
                # the two halves of the same item: a matrix without a vector and a vector without a matrix; their sum is consistent, each
                # half contributes a zero block sized by all fields of the container
                items, label = [fem.FormItem(bilinearform, None, sym=sym, kwargs=kwargs), fem.FormItem(None, linearform, kwargs=kwargs)], "FormItem[none-forms]"
                if rep % 4 >= 2:
                    items = items[::-1]
            evaluate(run, items, field, label, rng, conservative=True, order=rep % 3, inplace=True)
            run.configs.add(str((label, "sym=%s" % sym, "order=%d" % (rep % 3), type(umat.material).__name__)))
            return
        # the class docstring's "Boundary Condition": a penalty term on a face, written on a boundary-region container of its own,
        # in a list with the solid; here with a stiffness that depends on the ramped keyword argument
        mesh, _ = gen.build_mesh("hexahedron", "distorted", rng, n=(3, 2, 3))
        field = fem.FieldContainer([fem.Field(fem.RegionHexahedron(mesh), dim=3)])
        random_state(rng, field)
        solid = fem.SolidBody(fem.NeoHookeCompressible(mu=1.0, lmbda=2.0), field)
        face = np.isclose(mesh.points[:, 0], mesh.points[:, 0].max())
        right = fem.FieldContainer([fem.Field(fem.RegionHexahedronBoundary(mesh, mask=face), dim=3)])
        direction = rng.standard_normal(3).reshape(3, 1, 1)

        @fem.Form(v=right)
        def linearform():
            def L(v, value, multiplier=100):
                u = right.extract(grad=False)[0]
                return (1 + value ** 2) * multiplier * ddot(v, u - value * direction)
            return [L]

        @fem.Form(v=right, u=right)
        def bilinearform():
            return [lambda v, u, value, multiplier=100: (1 + value ** 2) * multiplier * ddot(v, u)]

        by_key = bool(rep // 2 % 2)
        kw = {"multiplier": float(rng.uniform(5, 50)), "value": 0.0} if by_key else {"value": 0.0, "multiplier": float(rng.uniform(5, 50))}
        move = fem.FormItem(bilinearform, linearform, sym=sym, kwargs=kw, ramp_item="value" if by_key else 0)
        items = [solid, move] if rep % 2 else [move, solid]
        from felupe.tools._newton import fun_items, jac_items
        fun_items(items, field)
        jac_items(items, field)
        move.update(float(rng.uniform(0.2, 1.0)))  # what a Step does between two substeps
        evaluate(run, items, field, "FormItem[boundary]+SolidBody", rng, conservative=True, order=rep % 3, inplace=True)
        run.configs.add(str(("FormItem[boundary]+SolidBody", "sym=%s" % sym, "order=%d" % (rep % 3), "ramp_item by key" if by_key else "ramp_item 0")))
    return fn


def case_wider(which, rep):
    """Item / field / family combinations of the quantifier that the main plan leaves out (second coverage audit)."""
    def fn(run):
        import felupe as fem
        rng = rng_for(run.seed, "C01", "wider", which, rep)
        if which.startswith("quadratic-boundary"):
            # follower loads on the quadratic boundary templates
            fam, Rv, Rb, kind = [("hexahedron20", "RegionQuadraticHexahedron", "RegionQuadraticHexahedronBoundary", "3d"),
                                 ("hexahedron27", "RegionTriQuadraticHexahedron", "RegionTriQuadraticHexahedronBoundary", "3d"),
                                 ("quad8", "RegionQuadraticQuad", "RegionQuadraticQuadBoundary", "planestrain"),
                                 ("quad9", "RegionBiQuadraticQuad", "RegionBiQuadraticQuadBoundary", "axisymmetric"),
                                 ("quad8", "RegionQuadraticQuad", "RegionQuadraticQuadBoundary", "axisymmetric"),
                                 ("quad9", "RegionBiQuadraticQuad", "RegionBiQuadraticQuadBoundary", "planestrain")][rep % 6]
            mesh, _ = gen.build_mesh(fam, ["distorted", "curved"][rep % 2], rng)
            if kind != "3d":
                mesh = mesh.copy(points=mesh.points + np.array([0.0, 1.5 - mesh.points[:, 1].min()]))
            reg = getattr(fem, Rv)(mesh)
            closed = bool((rep // 2) % 2)
            mask = None if closed else np.isclose(mesh.points[:, 0], mesh.points[:, 0].max())
            if kind == "3d":
                field = fem.FieldContainer([fem.Field(reg, dim=3)])
                fb = fem.FieldContainer([fem.Field(getattr(fem, Rb)(mesh, mask=mask), dim=3)])
            else:
                F = fem.FieldAxisymmetric if kind == "axisymmetric" else fem.FieldPlaneStrain
                field = fem.FieldContainer([F(reg, dim=2)])
                fb = fem.FieldContainer([F(getattr(fem, Rb)(mesh, mask=mask, ensure_3d=True), dim=2)])
            random_state(rng, field)
            s = rng.standard_normal((3, 3))
            loads = {"SolidBodyPressure": fem.SolidBodyPressure(fb, pressure=rng.uniform(-1, 1, fb.region.dV.shape) if rep % 3 == 0 else float(rng.uniform(-1, 1))),
                     "SolidBodyCauchyStress": fem.SolidBodyCauchyStress(fb, cauchy_stress=s if rep % 2 else s + s.T)}
            for name, load in loads.items():
                evaluate(run, [load], field, "%s[%s]" % (name, Rb), rng, conservative=False, order=rep % 3)
                run.configs.add(str((name, Rb, kind, closed)))
        elif which == "mixed-list":
            # loads / constraints sized by the displacement field summed into a system of a mixed container (Newton's resize)
            mesh, _ = gen.build_mesh("hexahedron", "distorted", rng)
            mesh.update(points=np.vstack([mesh.points, mesh.points.max(0) + np.array([0.0, 0.0, 0.4])]))
            reg = fem.RegionHexahedron(mesh)
            x = fem.FieldsMixed(reg, n=3)
            random_state(rng, x)
            top = np.arange(mesh.npoints - 1)[np.isclose(mesh.points[:-1, 2], mesh.points[:-1, 2].max())]
            rb = fem.RegionHexahedronBoundary(mesh, mask=np.isclose(mesh.points[:, 0], mesh.points[:-1, 0].max()))
            press = fem.SolidBodyPressure(fem.FieldContainer([fem.Field(rb, dim=3)]), pressure=float(rng.uniform(-1, 1)))
            mpc = fem.MultiPointConstraint(x, points=top, centerpoint=mesh.npoints - 1, skip=[(0, 0, 0), (0, 1, 0)][rep % 2], multiplier=float(rng.uniform(10, 100)))
            if rep % 2:
                body = fem.SolidBody(fem.ThreeFieldVariation(fem.NeoHooke(mu=1.0, bulk=5.0)), x)
                lists = [[press, body, mpc], [body, mpc, press]][(rep // 2) % 2]
                evaluate(run, lists, x, "mixed-list[SolidBody(mixed)+pressure+constraint]", rng, conservative=False, order=rep % 3)
            else:
                f1 = fem.FieldContainer([fem.Field(reg, dim=3)])
                f1[0].values[:] = x[0].values
                body = fem.SolidBodyNearlyIncompressible(fem.NeoHooke(mu=1.0), f1, bulk=float(rng.uniform(20, 200)))
                mpc1 = fem.MultiPointConstraint(f1, points=top, centerpoint=mesh.npoints - 1, multiplier=float(rng.uniform(10, 100)))
                evaluate(run, [body, press, mpc1], f1, "mixed-list[condensed+pressure+constraint]", rng, conservative=False, order=0)
            run.configs.add(str(("mixed-list", rep % 2)))
        elif which == "multipoint-2d":
            # constraints / contact on 2D fields, negative centre index (documented), mixed unknowns
            kind = ["planestrain", "axisymmetric", "mixed-axisymmetric"][rep % 3]
            mesh = fem.Rectangle(a=(0, 1.0), b=(1, 2.0), n=(4, 3))
            mesh.update(points=np.vstack([mesh.points, [1.4, 1.5]]))
            reg = fem.RegionQuad(mesh)
            if kind.startswith("mixed"):
                field = fem.FieldsMixed(reg, n=3, axisymmetric=True)
            else:
                field = fem.FieldContainer([(fem.FieldAxisymmetric if kind == "axisymmetric" else fem.FieldPlaneStrain)(reg, dim=2)])
            field[0].values[:] = 0.03 * rng.standard_normal(field[0].values.shape)
            top = np.arange(mesh.npoints - 1)[np.isclose(mesh.points[:-1, 0], 1.0)]
            c = [-1, mesh.npoints - 1][rep % 2]
            contact = bool((rep // 2) % 2)
            if contact:
                field[0].values[top[::2], 0] += 0.6
                gap = (mesh.points[-1, 0] + field[0].values[-1, 0]) - (mesh.points[top, 0] + field[0].values[top, 0])
                if np.any(np.abs(gap) < 0.1):
                    run.skip("items.tangent", "contact gap too close to the switching point")
                    return
                it = fem.MultiPointContact(field, points=top, centerpoint=c, skip=(0, 1), multiplier=float(rng.uniform(10, 100)))
            else:
                it = fem.MultiPointConstraint(field, points=top, centerpoint=c, skip=[(0, 0), (0, 1), (1, 0)][rep % 3], multiplier=float(rng.uniform(10, 100)))
            evaluate(run, [it], field, "%s[2d]" % type(it).__name__, rng, conservative=True, order=rep % 3)
            run.configs.add(str((type(it).__name__, kind, c)))
        elif which == "volumetric-law":
            # the documented dUdJ= / d2UdJdJ= callables of the (u, p, J) wrapper with volumetric energies whose second derivative depends on J
            # (round 10: a J-J block frozen at its value for J = 1 is invisible with the default quadratic energy and at J = 1)
            kind, fam = [("mixed", "hexahedron"), ("mixed-planestrain", "quad"), ("mixed-axisymmetric", "quad"), ("mixed", "hexahedron20")][rep % 4]
            field, mesh, reg = make_field(kind, fam, "distorted", rng)
            random_state(rng, field)
            bulk = float(rng.uniform(3, 30))
            law = ["ln2", "J2-lnJ"][(rep // 4) % 2] if rep >= 4 else ["ln2", "J2-lnJ"][rep % 2]
            dU, d2U = {"ln2": (lambda J, K: K * np.log(J) / J, lambda J, K: K * (1 - np.log(J)) / J ** 2),
                       "J2-lnJ": (lambda J, K: K / 2 * (J - 1 / J), lambda J, K: K / 2 * (1 + 1 / J ** 2))}[law]
            um = fem.NearlyIncompressible(fem.NeoHooke(mu=float(rng.uniform(0.5, 2))), bulk=bulk, dUdJ=dU, d2UdJdJ=d2U)
            evaluate(run, [fem.SolidBody(um, field)], field, "SolidBody[mixed,U=%s]" % law, rng, conservative=True, order=rep % 3)
            run.configs.add(str(("volumetric-law", kind, law)))
        elif which == "families":
            # mixed / condensed bodies on further families, bodies on arbitrary-order Lagrange regions
            sel = rep % 8
            if sel < 4:
                kind, fam = [("mixed", "tetraMINI"), ("mixed-axisymmetric", "triangleMINI"), ("mixed-planestrain", "triangle6"), ("mixed", "hexahedron27")][sel]
                field, mesh, reg = make_field(kind, fam, "distorted" if fam == "hexahedron27" else "affine", rng)
                random_state(rng, field)
                um = fem.NearlyIncompressible(fem.NeoHooke(mu=1.0), bulk=7.0) if rep % 2 else fem.ThreeFieldVariation(fem.NeoHooke(mu=1.0, bulk=7.0))
                evaluate(run, [fem.SolidBody(um, field)], field, "SolidBody[mixed,%s]" % fam, rng, conservative=True, order=rep % 3)
            elif sel < 6:
                kind, fam = [("3d", "tetra10"), ("axisymmetric", "triangle6")][sel - 4]
                field, mesh, reg = make_field(kind, fam, "affine", rng)
                random_state(rng, field)
                evaluate(run, [fem.SolidBodyNearlyIncompressible(fem.NeoHooke(mu=1.0), field, bulk=float(rng.uniform(20, 200)))], field,
                         "SolidBodyNearlyIncompressible[%s]" % fam, rng, conservative=True, order=0)
            else:
                dim, order = [(2, 3), (3, 2)][sel - 6]
                m = gen.lagrange_mesh(order, dim)
                reg = fem.RegionLagrange(m, order=order, dim=dim)
                field = fem.FieldContainer([fem.Field(reg, dim=dim)])
                field[0].values[:] = gen.random_displacement(rng, m, grad=0.2, noise=0)
                evaluate(run, [fem.SolidBody(fem.NeoHookeCompressible(mu=1.0, lmbda=2.0), field)], field, "SolidBody[RegionLagrange]", rng, conservative=True, order=rep % 3)
            run.configs.add(str(("families", sel)))
        elif which == "more-families":
            # third coverage audit: the condensed body on regions with a bubble point inside the cells (MINI), on triangles, tri-quadratic
            # hexahedra and arbitrary-order Lagrange regions; mixed bodies on continuous dual fields (disconnect=False) and on the duals of a
            # Lagrange region; bodies on uniform=True regions (size-one cell axis of dhdX and dV against h (x) h / V, also threaded)
            sel = rep % 8
            condensed = lambda f: fem.SolidBodyNearlyIncompressible(fem.NeoHooke(mu=float(rng.uniform(0.5, 2))), f, bulk=float(rng.uniform(20, 200)))
            if sel in (0, 1, 2, 3):
                # (not on tetraMINI, nor on triangleMINI in plane strain: the rows of the bubble are so small there that the round-off of the
                # difference quotient of the condensed vector reaches 0.05 .. 0.4 of the row-wise tolerance - no margin for a clause)
                kind, fam = [("planestrain", "triangle"), ("axisymmetric", "triangleMINI"), ("axisymmetric", "triangle"), ("3d", "hexahedron27")][sel]
                field, mesh, reg = make_field(kind, fam, "distorted", rng)
                random_state(rng, field)
                evaluate(run, [condensed(field)], field, "SolidBodyNearlyIncompressible[%s,%s]" % (fam, kind), rng, conservative=True, order=rep % 3)
            elif sel in (4, 5):
                kind, fam = [("mixed", "tetra10"), ("mixed-axisymmetric", "quad8")][sel - 4]
                mesh, _ = gen.build_mesh(fam, "curved", rng)
                if kind.endswith("axisymmetric"):
                    mesh = mesh.copy(points=mesh.points + np.array([0.0, 1.5 * float(np.ptp(mesh.points[:, 1])) - mesh.points[:, 1].min()]))
                field = fem.FieldsMixed(gen.make_region(fam, mesh), n=3, axisymmetric=kind.endswith("axisymmetric"), disconnect=False)
                random_state(rng, field)
                um = fem.NearlyIncompressible(fem.NeoHooke(mu=1.0), bulk=7.0) if rep // 8 % 2 else fem.ThreeFieldVariation(fem.NeoHookeCompressible(mu=1.0, lmbda=2.0))
                evaluate(run, [fem.SolidBody(um, field)], field, "SolidBody[mixed,%s,disconnect=False]" % fam, rng, conservative=True, order=rep % 3)
            elif sel == 6:
                mesh, _ = gen.build_mesh("hexahedron", "undistorted", rng)
                field = fem.FieldContainer([fem.Field(fem.RegionHexahedron(mesh, uniform=True), dim=3)])
                random_state(rng, field)
                evaluate(run, [fem.SolidBody(fem.NeoHooke(mu=1.0, bulk=float(rng.uniform(1, 5))), field)], field, "SolidBody[uniform=True]", rng, conservative=True, order=2)
                evaluate(run, [condensed(field)], field, "SolidBodyNearlyIncompressible[uniform=True]", rng, conservative=True, order=rep // 8 % 2 * 2)
            else:
                m = gen.lagrange_mesh(2, 2)
                m = m.copy(points=m.points + np.array([0.0, 1.5]))
                reg = fem.RegionLagrange(m, order=2, dim=2)
                field = fem.FieldContainer([fem.FieldAxisymmetric(reg, dim=2)])
                field[0].values[:] = gen.random_displacement(rng, m, grad=0.2, noise=0)
                evaluate(run, [condensed(field)], field, "SolidBodyNearlyIncompressible[RegionLagrange]", rng, conservative=True, order=rep % 3)
                x = fem.FieldsMixed(reg, n=3, planestrain=True)
                x[0].values[:] = gen.random_displacement(rng, m, grad=0.2, noise=0)
                x[1].values[:] = 0.3 * rng.standard_normal(x[1].values.shape)
                x[2].values[:] = 1 + 0.1 * rng.standard_normal(x[2].values.shape)
                evaluate(run, [fem.SolidBody(fem.ThreeFieldVariation(fem.NeoHooke(mu=1.0, bulk=7.0)), x)], x, "SolidBody[mixed,RegionLagrange]", rng, conservative=True, order=rep % 3)
            run.configs.add(str(("more-families", sel, rep // 8 % 2)))
    return fn


def cases(tier, seed):
    out = []
    reps = 1 if tier == "quick" else 3
    # solid bodies: field kind x family x geometry x material
    plan = []
    fam3 = ["hexahedron", "tetra", "hexahedron20", "tetra10", "hexahedron27", "tetraMINI"]
    fam2 = ["quad", "triangle", "quad8", "quad9", "triangle6", "triangleMINI"]
    geos = ["distorted", "curved", "affine"]
    k = 0
    for fam in fam3:
        for mat in (MATS if tier == "thorough" else [MATS[k % len(MATS)], MATS[(k + 3) % len(MATS)]]):
            plan.append(("3d", fam, geos[k % 3], mat))
            k += 1
    for kind in ("planestrain", "axisymmetric"):
        for fam in fam2:
            for mat in (MATS[:4] if tier == "thorough" else [MATS[k % 4]]):
                plan.append((kind, fam, geos[k % 3], mat))
                k += 1
    for kind, fam in (("mixed", "hexahedron"), ("mixed", "hexahedron20"), ("mixed", "tetra10"), ("mixed-planestrain", "quad"),
                      ("mixed-planestrain", "quad9"), ("mixed-axisymmetric", "quad"), ("mixed-axisymmetric", "quad8")):
        for mat in ("ThreeFieldVariation", "NearlyIncompressible"):
            plan.append((kind, fam, "distorted", mat))
    for kind, fam, geo, mat in plan:
        for rep in range(reps):
            out.append(("solid:%s:%s:%s:%s:%d" % (kind, fam, geo, mat, rep), case_solid(kind, fam, geo, mat, rep)))
    for which in ("viscoelastic", "plasticity", "ogden-roxburgh"):
        for kind, fam in (("3d", "hexahedron"), ("planestrain", "quad"), ("3d", "tetra")):
            if which == "plasticity" and kind != "3d":
                continue
            for rep in range(3):
                out.append(("history:%s:%s:%s:%d" % (which, kind, fam, rep), case_history_material(which, kind, fam, rep)))
    for kind, fams in (("3d", ("hexahedron", "hexahedron20", "tetra")), ("planestrain", ("quad", "quad8")),
                       ("axisymmetric", ("quad", "quad9"))):
        for fam in fams:
            for rep in range(4):
                out.append(("ni:%s:%s:%d" % (kind, fam, rep), case_nearly_incompressible(kind, fam, rep)))
    for what in ("pressure", "cauchy"):
        for kind in ("hex", "planestrain", "axisymmetric"):
            for rep in range(6):
                out.append(("load:%s:%s:%d" % (what, kind, rep), case_load(what, kind, rep)))
    for contact in (False, True):
        for rep in range(10 if contact else 6):
            out.append(("mpc:%s:%d" % (contact, rep), case_multipoint(contact, rep)))
    for which, n in (("quadratic-boundary", 6), ("mixed-list", 4), ("multipoint-2d", 6), ("families", 8), ("volumetric-law", 4)):
        for rep in range(n if tier == "quick" else 3 * n):
            out.append(("wider:%s:%d" % (which, rep), case_wider(which, rep)))
    for rep in range(2):
        out.append(("dead:%d" % rep, case_dead_loads(rep)))
        out.append(("formitem:%d" % rep, case_formitem(rep)))
    # third coverage audit: call styles, configurations and members of the quantifier that nothing above executes
    for k, (kind, fam) in enumerate((("3d", "hexahedron"), ("planestrain", "quad"), ("axisymmetric", "quad8"), ("mixed", "hexahedron"),
                                     ("mixed-axisymmetric", "quad"))):
        for rep in ([k % 3, (k + 1) % 3] if tier == "quick" else range(6)):
            out.append(("umat-path:%s:%s:%d" % (kind, fam, rep), case_umat_path(kind, fam, rep)))
    for rep in ([0, 1, 4, 6] if tier == "quick" else range(16)):
        out.append(("wider:more-families:%d" % rep, case_wider("more-families", rep)))
    for kind in ("hex", "planestrain", "axisymmetric", "plain2d", "mixed-axisymmetric"):
        for rep in (([1] if kind == "mixed-axisymmetric" else range(3)) if tier == "quick" else range(6)):
            out.append(("load-more:%s:%d" % (kind, rep), case_load_more(kind, rep)))
    for rep in range(6 if tier == "quick" else 12):
        out.append(("axis-load:%d" % rep, case_axis_load(rep)))
    # (repetitions: wrapper = rep % 2 and restart = rep // 2 % 2 on mixed containers, restart = rep % 2 elsewhere; call order rep % 3)
    for which, kind, fam, quick, n in (("viscoelastic", "axisymmetric", "quad", [0, 1], 6), ("plasticity", "axisymmetric", "quad", [0, 1], 6),
                                       ("ogden-roxburgh", "axisymmetric", "quad", [0, 1], 6), ("plasticity", "planestrain", "quad", [0, 1], 6),
                                       ("viscoelastic", "mixed", "hexahedron", [0, 3], 12), ("ogden-roxburgh", "mixed", "hexahedron", [0, 1, 2, 3], 12),
                                       ("viscoelastic", "mixed-axisymmetric", "quad", [2], 12), ("ogden-roxburgh", "mixed-axisymmetric", "quad", [2, 3], 12)):
        for rep in (quick if tier == "quick" else range(n)):
            out.append(("history-more:%s:%s:%s:%d" % (which, kind, fam, rep), case_history_more(which, kind, fam, rep)))
    # (threaded integration of a form starts a thread per pair of shape functions: the quick tier keeps one such case, the mixed item with sym=True)
    for which, quick, n in (("single", [0], 4), ("mixed", [0, 1, 3, 5], 12), ("none-forms", [0, 1], 4), ("boundary", [0, 1], 6)):
        for rep in (quick if tier == "quick" else range(n)):
            out.append(("formitem:%s:%d" % (which, rep), case_formitem_more(which, rep)))
    return out


def _required():
    req = []
    for u in ("SolidBody[Field]", "SolidBody[FieldPlaneStrain]", "SolidBody[FieldAxisymmetric]", "SolidBody[ThreeFieldVariation,mixed]",
              "SolidBody[NearlyIncompressible,mixed]", "SolidBody[ThreeFieldVariation,mixed-planestrain]",
              "SolidBody[ThreeFieldVariation,mixed-axisymmetric]", "SolidBodyNearlyIncompressible[3d]",
              "SolidBodyNearlyIncompressible[planestrain]", "SolidBodyNearlyIncompressible[axisymmetric]",
              "SolidBodyPressure[hex]", "SolidBodyPressure[planestrain]", "SolidBodyPressure[axisymmetric]",
              "SolidBodyCauchyStress[hex]", "MultiPointConstraint", "MultiPointContact[open]", "MultiPointContact[closed]",
              "MultiPointContact[mixed]", "MultiPointContact[touching]", "MultiPointContact[all-axes]", "PointLoad", "SolidBodyForce", "SolidBodyGravity", "FormItem", "SolidBody[viscoelastic,history]",
              "SolidBody[plasticity,history]", "SolidBody[ogden-roxburgh,history]", "SolidBody[mixed,U=ln2]", "SolidBody[mixed,U=J2-lnJ]"):
        req.append("tangent:" + u)
    for u in ("SolidBody[Field]", "SolidBody[FieldPlaneStrain]", "SolidBody[FieldAxisymmetric]", "SolidBody[ThreeFieldVariation,mixed]",
              "SolidBodyNearlyIncompressible[3d]", "MultiPointConstraint", "MultiPointContact[closed]", "FormItem"):
        req.append("tangent-symmetry:" + u)
    req += ["tangent:" + u for u in ("SolidBodyPressure[RegionQuadraticHexahedronBoundary]", "SolidBodyPressure[RegionTriQuadraticHexahedronBoundary]",
                                     "SolidBodyPressure[RegionQuadraticQuadBoundary]", "SolidBodyPressure[RegionBiQuadraticQuadBoundary]",
                                     "SolidBodyCauchyStress[RegionTriQuadraticHexahedronBoundary]", "mixed-list[SolidBody(mixed)+pressure+constraint]",
                                     "mixed-list[condensed+pressure+constraint]", "MultiPointConstraint[2d]", "MultiPointContact[2d]",
                                     "SolidBody[mixed,tetraMINI]", "SolidBody[mixed,triangleMINI]", "SolidBody[mixed,hexahedron27]",
                                     "SolidBodyNearlyIncompressible[tetra10]", "SolidBody[RegionLagrange]")]
    req += ["mixed-inner:NeoHooke", "mixed-inner:NeoHookeCompressible", "tangent:two-condensed-bodies-on-one-field[3d]"]
    req.append("multi-item-list-with-multiplier=-1")
    req += ["order:after-another-state", "order:foreign-container", "order:parallel", "solidbody-multiplier"]
    req += ["ni-umat:" + w for w in ("NeoHooke", "tt.yeoh", "NeoHookeCompressible", "OgdenRoxburgh")]
    req += ["load-variant:%s:%d" % (w, v) for w in ("pressure", "cauchy") for v in (0, 1, 2)]
    # third coverage audit: labels of the plan above that were left to chance (scheduled by index, no precondition can remove them all) ...
    req += ["tangent:" + u for u in ("SolidBodyCauchyStress[planestrain]", "SolidBodyCauchyStress[axisymmetric]", "SolidBody[NearlyIncompressible,mixed-planestrain]",
                                     "SolidBody[NearlyIncompressible,mixed-axisymmetric]", "SolidBody[mixed,triangle6]", "SolidBodyNearlyIncompressible[triangle6]",
                                     "two-condensed-bodies-on-one-field[planestrain]", "two-condensed-bodies-on-one-field[axisymmetric]",
                                     "SolidBodyCauchyStress[RegionQuadraticHexahedronBoundary]", "SolidBodyCauchyStress[RegionQuadraticQuadBoundary]",
                                     "SolidBodyCauchyStress[RegionBiQuadraticQuadBoundary]")]
    # ... the explicit-field call style of the assembler ...
    req.append("order:explicit-field-matrix")
    req += ["tangent:%s@matrix(field)" % u for u in ("SolidBody[Field]", "SolidBody[FieldPlaneStrain]", "SolidBody[FieldAxisymmetric]", "SolidBody[ThreeFieldVariation,mixed]",
                                                     "SolidBodyNearlyIncompressible[3d]", "SolidBodyPressure[hex]", "SolidBodyCauchyStress[hex]", "MultiPointConstraint",
                                                     "PointLoad", "SolidBody[viscoelastic,history]", "FormItem", "FormItem[mixed]")]
    # ... the umat call style of Newton, form items beyond the single-field one ...
    req += ["tangent:tools.fun/jac[%s]" % k for k in ("3d", "planestrain", "axisymmetric", "mixed", "mixed-axisymmetric")]
    req += ["tangent-symmetry:tools.fun/jac[3d]", "tangent-symmetry:tools.fun/jac[mixed]"]
    req += ["umat-path-flags:" + f for f in ("default", "parallel", "sym", "spelled-out")]
    req += ["tangent:FormItem[mixed]", "tangent-symmetry:FormItem[mixed]", "tangent:FormItem[none-forms]", "tangent:FormItem[boundary]+SolidBody"]
    # ... state-variable laws on the remaining field kinds (the pseudo-elastic law is left out: its switch precondition can remove every draw) ...
    req += ["tangent:SolidBody[%s,history,%s]" % wk for wk in (("viscoelastic", "axisymmetric"), ("viscoelastic", "mixed"), ("viscoelastic", "mixed-axisymmetric"),
                                                               ("plasticity", "planestrain"), ("plasticity", "axisymmetric"))]
    req += ["history-wrapper:%s(%s)" % (w, l) for w in ("ThreeFieldVariation", "NearlyIncompressible") for l in ("viscoelastic", "ogden-roxburgh")]
    req.append("history-restart(statevars=)")
    # ... and value types, twins and the axis for the follower loads
    req += ["load-value-type:SolidBodyPressure:" + t for t in ("int", "0-d", "per-cell-int")] + ["load-value-type:SolidBodyCauchyStress:" + t for t in ("list", "int", "column-major")]
    req += ["twin:pressure=cauchy-stress(-pI):vector", "twin:pressure=cauchy-stress(-pI):matrix"]
    req += ["tangent:" + u for u in ("SolidBodyPressure[plain2d,int]", "SolidBodyCauchyStress[plain2d,list]", "SolidBodyPressure[mixed-axisymmetric,0-d]",
                                     "SolidBodyCauchyStress[mixed-axisymmetric,int]", "SolidBodyPressure[axisymmetric,on-axis]", "SolidBodyCauchyStress[axisymmetric,on-axis]")]
    req += ["axis-load-surface:end-face", "axis-load-surface:outline-without-axis-edge"]
    req += ["tangent:" + u for u in ("SolidBodyNearlyIncompressible[triangle,planestrain]", "SolidBodyNearlyIncompressible[triangleMINI,axisymmetric]",
                                     "SolidBody[mixed,tetra10,disconnect=False]", "SolidBody[uniform=True]", "SolidBodyNearlyIncompressible[uniform=True]")]
    return req


SPEC = {
    "required_units": _required(),
    "rule": ("every Newton item type x field kind (3D, plane strain, axisymmetric, mixed u/p/J) x 12 element families x geometry "
             "classes (straight-distorted, curved, affine) x 6 materials (hand-coded, tensortrax, jax, pseudo-elastic with stored "
             "history) at random nodal states with det F > 0.2; jac_items is compared with central differences of fun_items on deep "
             "copies in 3 random directions plus one per field of a mixed container, with three different call orders of vector and "
             "matrix; a configuration is distinct by (item, field kind, family, geometry, material[, open/closed surface]); "
             "third audit: the matrix is also taken as sum_i m_i item_i.assemble.matrix(field) with an explicit field after an evaluation at "
             "another state (1 + one per field directions), tools.fun / tools.jac (the umat call style of Newton) with the documented flags on "
             "5 field kinds, form items on mixed containers (sym x threaded), with one form only and on a boundary container with a solid, "
             "state-variable laws on axisymmetric and mixed bodies (also restarted through statevars=), plasticity on the 2D kinds, follower "
             "loads with integer / 0-d / per-cell / list / column-major values, on a plain 2D field, in a mixed axisymmetric list and on "
             "bodies that touch the axis (surface without the axis edge); SolidBodyPressure(p) against SolidBodyCauchyStress(-p I), vector and matrix"),
    "assumptions": ["central differences with steps 2e-5 and 1e-5: a mismatch that still shrinks like h^2 is inconclusive, not a violation",
                    "errors are normalised by max|K|", "contact states are generated at least 0.1 away from the switching point",
                    "a form item is judged together with the forms the user wrote: pairs of forms that are consistent by construction",
                    "axisymmetric loads on a body that touches the axis: the loaded surface leaves out the edge on the axis (the default "
                    "closed outline contains it and gives 0/0 there - reported, not judged); u_r = 0 on the axis",
                    "the pressure twin is a comparison of two items of the library with each other (tolerance 1e-12 of the larger side, measured 0.0)"],
    "jobs": {"quick": 8, "thorough": 16},
    "timeout": {"quick": 900, "thorough": 5400},
}
