"""C01 - the assembled tangent matrix is the exact derivative of the assembled vector.

Deciding monitor: vmon.monitors.items.check_tangent on (fun_items, jac_items) - what Newton really sums, incl.
the items' multipliers - using central differences on deep copies with two step sizes and a rate test.
"""
import numpy as np

from .. import gen
from ..monitors import items as MI
from ..util import maxabs, rng_for


def materials(rng, which):
    import felupe as fem
    if which == "NeoHooke":
        return fem.NeoHooke(mu=float(rng.uniform(0.5, 2)), bulk=float(rng.uniform(1, 5)))
    if which == "NeoHookeCompressible":
        return fem.NeoHookeCompressible(mu=float(rng.uniform(0.5, 2)), lmbda=float(rng.uniform(1, 4)))
    if which == "Yeoh(tensortrax)":
        return fem.Hyperelastic(fem.yeoh, C10=0.5, C20=-0.05, C30=0.02) & fem.Volumetric(bulk=float(rng.uniform(2, 6)))
    if which == "MooneyRivlin(jax)":
        import felupe.constitution.jax as fj
        return fj.Hyperelastic(fj.models.hyperelastic.mooney_rivlin, C10=0.4, C01=0.2) & fem.Volumetric(bulk=3.0)
    if which == "OgdenRoxburgh":
        return fem.OgdenRoxburgh(fem.NeoHooke(mu=1.0, bulk=3.0), r=3.0, m=1.0, beta=0.1)
    if which == "LinearElasticLargeStrain":
        return fem.LinearElasticLargeStrain(E=2.0, nu=0.3)
    if which == "SaintVenantKirchhoff(tensortrax)":
        return fem.Hyperelastic(fem.saint_venant_kirchhoff, mu=1.0, lmbda=2.0)
    raise KeyError(which)


MATS = ["NeoHooke", "NeoHookeCompressible", "Yeoh(tensortrax)", "MooneyRivlin(jax)", "OgdenRoxburgh",
        "LinearElasticLargeStrain"]


def random_state(rng, field, grad=0.2):
    field[0].values[:] = gen.random_displacement(rng, field.region.mesh, grad=grad)
    import zlib
    if zlib.crc32(np.ascontiguousarray(field[0].values).tobytes()) % 4 == 0:
        # the same values stored column-wise (what (R @ X.T).T or np.array([ux, uy, uz]).T produce): the memory layout of a
        # value array carries no meaning (decided by the values themselves, the random stream is not touched)
        field[0].values = np.asfortranarray(field[0].values)
    if len(field.fields) > 1:
        field[1].values[:] = 0.3 * rng.standard_normal(field[1].values.shape)
    if len(field.fields) > 2:
        field[2].values[:] = 1 + 0.1 * rng.standard_normal(field[2].values.shape)


def make_field(kind, fam, geometry, rng):
    import felupe as fem
    mesh, _ = gen.build_mesh(fam, geometry, rng)
    if kind.endswith("axisymmetric"):
        # keep the body away from the axis, in units of its own size (the affine class scales meshes from 4e-3 to 250)
        size = float(np.ptp(mesh.points[:, 1]))
        mesh = mesh.copy(points=mesh.points + np.array([0.0, 1.5 * size - mesh.points[:, 1].min()]))
    reg = gen.make_region(fam, mesh)
    d = mesh.dim
    if kind == "3d" or (kind == "plain" and d == 3):
        return fem.FieldContainer([fem.Field(reg, dim=3)]), mesh, reg
    if kind == "planestrain":
        return fem.FieldContainer([fem.FieldPlaneStrain(reg, dim=2)]), mesh, reg
    if kind == "axisymmetric":
        return fem.FieldContainer([fem.FieldAxisymmetric(reg, dim=2)]), mesh, reg
    if kind.startswith("mixed"):
        return fem.FieldsMixed(reg, n=3, planestrain=kind == "mixed-planestrain", axisymmetric=kind == "mixed-axisymmetric"), mesh, reg
    raise KeyError(kind)


def evaluate(run, items, x, label, rng, conservative, order=0, inplace=False, more=True):
    """Drive fun_items/jac_items in different call orders (out= buffers inside the items are state)."""
    _evaluate(run, items, x, label, rng, conservative, order, inplace)
    if more:
        # the same items again the way later Newton iterations see them: after an evaluation at another state (3), with a
        # container that is not the items' own (4), with threaded assembly (5)
        _evaluate(run, items, x, label, rng, conservative, 3 + order % 3, inplace)


def _evaluate(run, items, x, label, rng, conservative, order, inplace):
    import copy
    from felupe.tools._newton import fun_items, jac_items
    settle = MI.needs_settle(items)
    kw = {}
    if order == 3:
        keep = [f.values.copy() for f in x.fields]
        for k, f in enumerate(x.fields):
            # another admissible state nearby: displacements move by 2 % of the body (whatever its length unit), the other fields by 0.02
            unit = float(np.ptp(f.region.mesh.points, axis=0).max()) / 1.5 if k == 0 else 1.0
            f.values[:] = f.values + 0.02 * max(unit, float(np.abs(f.values).max())) * rng.standard_normal(f.values.shape)
        fun_items(items, x)
        jac_items(items, x)
        for f, v in zip(x.fields, keep):
            f.values[:] = v
        run.units["order:after-another-state"] += 1
    elif order == 4:
        x = copy.deepcopy(x)
        run.units["order:foreign-container"] += 1
    elif order == 5:
        kw = {"parallel": True}
        run.units["order:parallel"] += 1
    if kw:
        fun_items(items, x, **kw)
        if settle:
            fun_items(items, x, **kw)
        K = jac_items(items, x, **kw)
        MI.check_tangent(run, items, x, K, label, conservative=conservative, rng=rng, inplace=inplace)
        return
    fun_items(items, x)
    if settle:
        fun_items(items, x)
    if order == 1:
        jac_items(items, x)
        fun_items(items, x)
    elif order == 2:
        fun_items(items, x)
        fun_items(items, x)
    K = jac_items(items, x)
    if order == 2:
        K = jac_items(items, x)
    MI.check_tangent(run, items, x, K, label, conservative=conservative, rng=rng, inplace=inplace)


def case_solid(kind, fam, geometry, mat, rep):
    def fn(run):
        import felupe as fem
        rng = rng_for(run.seed, "C01", kind, fam, geometry, mat, rep)
        field, mesh, reg = make_field(kind, fam, geometry, rng)
        random_state(rng, field)
        if kind.startswith("mixed"):
            # wrapped laws with and without a distortional / volumetric split (the u-J block vanishes for split laws)
            inner = ["NeoHooke", "NeoHookeCompressible", "SaintVenantKirchhoff(tensortrax)", "LinearElasticLargeStrain"][(rep + len(fam)) % 4]
            base = fem.NeoHooke(mu=1.0, bulk=float(rng.uniform(5, 30))) if inner == "NeoHooke" else materials(rng, inner)
            if mat == "ThreeFieldVariation":
                umat = fem.ThreeFieldVariation(base)
                run.units["mixed-inner:" + inner] += 1
            else:
                umat = fem.NearlyIncompressible(fem.NeoHooke(mu=1.0), bulk=float(rng.uniform(5, 30)))
            body = fem.SolidBody(umat, field)
            label = "SolidBody[%s,%s]" % (mat, kind)
        else:
            umat = materials(rng, mat)
            use_mult = (len(fam) + len(mat) + rep) % 2 == 1
            body = fem.SolidBody(umat, field, **({"multiplier": float(rng.uniform(0.3, 2))} if use_mult else {}))
            if use_mult:
                run.units["solidbody-multiplier"] += 1
            if mat == "OgdenRoxburgh":
                # stored state variables from a prior history: drive the body through a larger state and commit
                big = field.copy()
                big[0].values[:] = 3.0 * field[0].values
                body.assemble.vector(big)
                body.results.update_statevars()
                body.assemble.vector(field)
            label = "SolidBody[%s]" % ({"3d": "Field", "planestrain": "FieldPlaneStrain", "axisymmetric": "FieldAxisymmetric"}[kind])
        evaluate(run, [body], field, label, rng, conservative=True, order=rep % 3)
        run.configs.add(str((label, fam, geometry, mat)))
    return fn


def case_history_material(which, kind, fam, rep):
    """Materials whose tangent depends on the *committed* state variables: the vector (which computes the trial state) is
    assembled before the matrix, at an increment in which the state really changes."""
    def fn(run):
        import felupe as fem
        rng = rng_for(run.seed, "C01", "history", which, kind, fam, rep)
        field, mesh, reg = make_field(kind, fam, "distorted", rng)
        if which == "viscoelastic":
            umat = fem.Hyperelastic(fem.finite_strain_viscoelastic, mu=1.0, eta=float(rng.uniform(0.5, 2)), dtime=float(rng.uniform(0.2, 1)), nstatevars=6) \
                & fem.Volumetric(bulk=3.0)
            amp = 0.2
        elif which == "plasticity":
            umat = fem.LinearElasticPlasticIsotropicHardening(E=100.0, nu=0.3, sy=1.0, K=float(rng.uniform(5, 30)))
            amp = 0.03
        else:
            umat = fem.OgdenRoxburgh(fem.NeoHooke(mu=1.0, bulk=3.0), r=3.0, m=1.0, beta=0.1)
            amp = 0.2
        body = fem.SolidBody(umat, field)
        # committed history: one converged-like increment
        field[0].values[:] = gen.random_displacement(rng, mesh, grad=0.6 * amp)
        body.assemble.vector(field)
        body.results.update_statevars()
        # next increment (state changes), evaluated in the order Newton uses: vector, then matrix
        field[0].values[:] = field[0].values + gen.random_displacement(rng, mesh, grad=0.6 * amp)
        label = "SolidBody[%s,history]" % which
        if which == "ogden-roxburgh":
            # the response has a kink where the strain energy passes the stored maximum (loading <-> unloading switch): such
            # points are outside the quantifier (the response is not differentiable there); a point closer to the switch than
            # the finite-difference stencil would look like a small tangent error
            Fq = field.extract()[0]
            W = np.asarray(umat.material.function([Fq, None])[0], float)
            Wmax = np.asarray(body.results.statevars[0], float)
            # (the model also switches its softening derivative off where eta is within 1e-5 of one, i.e. z < ~3e-5)
            z = np.abs(Wmax - W) / (umat.m + umat.beta * np.maximum(Wmax, W))
            if np.min(np.abs(W - Wmax)) < 2e-3 * max(maxabs(Wmax), maxabs(W)) or np.min(z) < 2e-4:
                run.skip("items.tangent", "a quadrature point sits on the loading/unloading switch of the pseudo-elastic model (kink)")
                return
        label = "SolidBody[%s,history]" % which
        evaluate(run, [body], field, label, rng, conservative=False, order=rep % 3)
        run.configs.add(str((label, kind, fam)))
    return fn


def case_nearly_incompressible(kind, fam, rep):
    def fn(run):
        import felupe as fem
        rng = rng_for(run.seed, "C01", "ni", kind, fam, rep)
        field, mesh, reg = make_field(kind, fam, "distorted", rng)
        random_state(rng, field)
        # isochoric parts with and without an out= argument, without a volumetric part of their own, with state variables
        which = ["NeoHooke", "tt.yeoh", "NeoHookeCompressible", "OgdenRoxburgh"][rep % 4]
        umat = {"NeoHooke": lambda: fem.NeoHooke(mu=float(rng.uniform(0.5, 2))),
                "tt.yeoh": lambda: fem.Hyperelastic(fem.yeoh, C10=0.5, C20=-0.05, C30=0.02),
                "NeoHookeCompressible": lambda: fem.NeoHookeCompressible(mu=float(rng.uniform(0.5, 2))),
                "OgdenRoxburgh": lambda: fem.OgdenRoxburgh(fem.NeoHooke(mu=1.0), r=3.0, m=1.0, beta=0.1)}[which]()
        body = fem.SolidBodyNearlyIncompressible(umat, field, bulk=float(rng.uniform(10, 500)))
        if which == "OgdenRoxburgh":
            # committed history from a larger state; the values are changed in place (the condensed body keeps a reference
            # to the value array of the field it was built on, so handing it another container would overwrite this one)
            keep = field[0].values.copy()
            field[0].values[:] = 2.5 * keep
            body.assemble.vector(field)
            body.results.update_statevars()
            field[0].values[:] = keep
            body.assemble.vector(field)
        run.units["ni-umat:" + which] += 1
        label = "SolidBodyNearlyIncompressible[%s]" % kind
        evaluate(run, [body], field, label, rng, conservative=True, order=rep % 3)
        run.configs.add(str((label, fam)))
        if which in ("NeoHooke", "tt.yeoh"):
            # two condensed bodies on one field (two materials in one model; the layout of sub-mesh bodies linked to one top-level
            # field before they are created): each keeps its own record of the displacements of its last evaluation
            field2, mesh2, reg2 = make_field(kind, fam, "distorted", rng)
            random_state(rng, field2)
            ba = fem.SolidBodyNearlyIncompressible(fem.NeoHooke(mu=float(rng.uniform(0.5, 2))), field2, bulk=float(rng.uniform(10, 500)))
            bb = fem.SolidBodyNearlyIncompressible(fem.NeoHooke(mu=float(rng.uniform(0.5, 2))), field2, bulk=float(rng.uniform(10, 500)))
            evaluate(run, [ba, bb], field2, "two-condensed-bodies-on-one-field[%s]" % kind, rng, conservative=True, order=rep % 3)
    return fn


def boundary_field(kind, rng, closed=True):
    import felupe as fem
    if kind == "hex":
        mesh, _ = gen.build_mesh("hexahedron", "distorted", rng)
        reg = fem.RegionHexahedron(mesh)
        field = fem.FieldContainer([fem.Field(reg, dim=3)])
        mask = None if closed else np.isclose(mesh.points[:, 0], mesh.points[:, 0].max())
        rb = fem.RegionHexahedronBoundary(mesh, mask=mask)
        fb = fem.FieldContainer([fem.Field(rb, dim=3)])
    else:
        mesh, _ = gen.build_mesh("quad", "distorted", rng)
        mesh = mesh.copy(points=mesh.points + np.array([0.0, 1.5 - mesh.points[:, 1].min()]))
        reg = fem.RegionQuad(mesh)
        F = fem.FieldAxisymmetric if kind == "axisymmetric" else fem.FieldPlaneStrain
        field = fem.FieldContainer([F(reg, dim=2)])
        mask = None if closed else np.isclose(mesh.points[:, 0], mesh.points[:, 0].max())
        rb = fem.RegionQuadBoundary(mesh, mask=mask, ensure_3d=True)
        fb = fem.FieldContainer([F(rb, dim=2)])
    return field, fb, mesh


def case_load(what, kind, rep):
    def fn(run):
        import felupe as fem
        rng = rng_for(run.seed, "C01", what, kind, rep)
        closed = bool(rep % 2)
        field, fb, mesh = boundary_field(kind, rng, closed)
        random_state(rng, field)
        solid = fem.SolidBody(fem.NeoHooke(mu=1.0, bulk=2.0), field)
        variant = (rep // 2) % 3  # 0: as constructed, 1: value replaced by update(), 2: general value (array pressure, non-symmetric stress)
        if what == "pressure":
            pv = rng.uniform(-1, 1, fb.region.dV.shape) if variant == 2 else float(rng.uniform(-1, 1))
            load = fem.SolidBodyPressure(fb, pressure=float(rng.uniform(-1, 1)) if variant == 1 else pv)
            if variant == 1:
                load.assemble.vector(field)
                load.update(pv)
            name = "SolidBodyPressure[%s]" % kind
        else:
            s = rng.standard_normal((3, 3))
            sv = s if variant == 2 else s + s.T
            load = fem.SolidBodyCauchyStress(fb, cauchy_stress=(s - s.T + np.eye(3)) if variant == 1 else sv)
            if variant == 1:
                load.assemble.vector(field)
                load.update(sv)
            name = "SolidBodyCauchyStress[%s]" % kind
        run.units["load-variant:%s:%d" % (what, variant)] += 1
        with_solid = bool((rep // 2) % 2)
        items = [solid, load] if with_solid else [load]
        label = name + ("+SolidBody" if with_solid else "")
        evaluate(run, items, field, name, rng, conservative=False, order=rep % 3)
        run.configs.add(str((label, "closed" if closed else "open")))
        if with_solid:
            run.units["multi-item-list-with-multiplier=-1"] += 1
    return fn


def case_multipoint(contact, rep):
    def fn(run):
        import felupe as fem
        rng = rng_for(run.seed, "C01", "mpc", contact, rep)
        mesh = fem.Cube(n=(3, 3, 2))
        mesh.update(points=np.vstack([mesh.points, [0.5, 0.5, 1.4]]))
        reg = fem.RegionHexahedron(mesh)
        field = fem.FieldContainer([fem.Field(reg, dim=3)])
        field[0].values[:] = 0.03 * rng.standard_normal(field[0].values.shape)
        pts = np.arange(mesh.npoints)[np.isclose(mesh.points[:, 2], 1.0)]
        c = mesh.npoints - 1
        solid = fem.SolidBody(fem.NeoHooke(mu=1, bulk=2), field)
        if contact:
            state = ["open", "closed", "mixed", "touching", "all-axes"][rep % 5]
            skip = (1, 1, 0)
            if state == "closed":
                field[0].values[pts, 2] += 0.6  # all points penetrate the plane of the centre point (gap 0.4)
            elif state == "mixed":
                field[0].values[pts[::2], 2] += 0.6
            elif state == "touching":
                # the wall (centre point) touches the surface in the reference configuration: zero reference gap
                mesh.points[c, 2] = 1.0
                field[0].values[:] *= 0.3
                field[0].values[pts, 2] += rng.choice([-1.0, 1.0], len(pts)) * rng.uniform(0.2, 0.3, len(pts))
            elif state == "all-axes":
                # contact in every axis; points at x = 0.5 or y = 0.5 have a zero reference gap to the centre in that axis
                skip = (0, 0, 0)
                field[0].values[:] *= 0.3  # small noise only: the gaps below stay clear of the switching point
                field[0].values[pts, :2] += rng.choice([-1.0, 1.0], (len(pts), 2)) * rng.uniform(0.2, 0.3, (len(pts), 2))
                field[0].values[pts[::2], 2] += 0.7
            # keep every gap of an active axis at least 0.1 away from the switching point
            act = [ax for ax in range(3) if not skip[ax]]
            gap = (mesh.points[c] + field[0].values[c])[act] - (mesh.points[pts] + field[0].values[pts])[:, act]
            if np.any(np.abs(gap) < 0.1):
                run.skip("items.tangent", "contact gap too close to the switching point")
                return
            it = fem.MultiPointContact(field, points=pts, centerpoint=c, skip=skip, multiplier=float(rng.uniform(10, 1000)))
            label = "MultiPointContact[%s]" % state
        else:
            skip = [(0, 0, 0), (0, 1, 0), (1, 1, 0)][rep % 3]
            it = fem.MultiPointConstraint(field, points=pts, centerpoint=c, skip=skip, multiplier=float(rng.uniform(10, 1000)))
            label = "MultiPointConstraint"
        # the large relative point motions of the touching / all-axes states are no admissible states of a solid
        with_solid = bool(rep % 2) and not (contact and state in ("touching", "all-axes"))
        evaluate(run, [it, solid] if with_solid else [it], field, label, rng, conservative=True, order=rep % 3)
        run.configs.add(str((label, with_solid)))
    return fn


def case_dead_loads(rep):
    def fn(run):
        import felupe as fem
        import warnings
        rng = rng_for(run.seed, "C01", "dead", rep)
        for kind, fam in (("3d", "hexahedron"), ("axisymmetric", "quad"), ("mixed", "hexahedron")):
            field, mesh, reg = make_field(kind, fam, "distorted", rng)
            random_state(rng, field)
            d = field[0].dim
            pts = rng.choice(mesh.npoints, 3, replace=False)
            # body-force vectors of an axisymmetric body are given with three components (z, r, hoop = 0);
            # two components raise loudly on the pinned tree
            bvec = lambda: np.append(rng.standard_normal(d), 0.0) if kind == "axisymmetric" else rng.standard_normal(d)
            items = {
                "PointLoad": fem.PointLoad(field, pts, values=rng.standard_normal((1, d)), axisymmetric=kind == "axisymmetric"),
                "SolidBodyForce": fem.SolidBodyForce(field, values=bvec(), scale=float(rng.uniform(0.5, 2))),
            }
            with warnings.catch_warnings():
                warnings.simplefilter("ignore")
                items["SolidBodyGravity"] = fem.SolidBodyGravity(field, gravity=bvec(), density=float(rng.uniform(0.5, 2)))
            for name, it in items.items():
                evaluate(run, [it], field, name, rng, conservative=True, order=rep % 3)
                run.configs.add(str((name, kind)))
    return fn


def case_formitem(rep):
    def fn(run):
        import felupe as fem
        from felupe.math import ddot, grad
        rng = rng_for(run.seed, "C01", "formitem", rep)
        field, mesh, reg = make_field("3d", "hexahedron", "distorted", rng)
        random_state(rng, field)
        umat = fem.NeoHookeCompressible(mu=1.0, lmbda=2.0)

        @fem.Form(v=field)
        def linearform():
            def L(v, **kwargs):
                P = umat.gradient(field.extract())[0]
                return ddot(grad(v), P)
            return [L]

        @fem.Form(v=field, u=field)
        def bilinearform():
            def a(v, u, **kwargs):
                A = umat.hessian(field.extract())[0]
                return ddot(ddot(grad(v), A, mode=(2, 4)), grad(u))
            return [a]

        item = fem.FormItem(bilinearform, linearform, sym=bool(rep % 2), kwargs={})
        evaluate(run, [item], field, "FormItem", rng, conservative=True, order=0, inplace=True)
        run.configs.add(str(("FormItem", "sym=%s" % bool(rep % 2))))
    return fn


def case_wider(which, rep):
    """Item / field / family combinations of the quantifier that the main plan leaves out (second coverage audit)."""
    def fn(run):
        import felupe as fem
        rng = rng_for(run.seed, "C01", "wider", which, rep)
        if which.startswith("quadratic-boundary"):
            # follower loads on the quadratic boundary templates
            fam, Rv, Rb, kind = [("hexahedron20", "RegionQuadraticHexahedron", "RegionQuadraticHexahedronBoundary", "3d"),
                                 ("hexahedron27", "RegionTriQuadraticHexahedron", "RegionTriQuadraticHexahedronBoundary", "3d"),
                                 ("quad8", "RegionQuadraticQuad", "RegionQuadraticQuadBoundary", "planestrain"),
                                 ("quad9", "RegionBiQuadraticQuad", "RegionBiQuadraticQuadBoundary", "axisymmetric"),
                                 ("quad8", "RegionQuadraticQuad", "RegionQuadraticQuadBoundary", "axisymmetric"),
                                 ("quad9", "RegionBiQuadraticQuad", "RegionBiQuadraticQuadBoundary", "planestrain")][rep % 6]
            mesh, _ = gen.build_mesh(fam, ["distorted", "curved"][rep % 2], rng)
            if kind != "3d":
                mesh = mesh.copy(points=mesh.points + np.array([0.0, 1.5 - mesh.points[:, 1].min()]))
            reg = getattr(fem, Rv)(mesh)
            closed = bool((rep // 2) % 2)
            mask = None if closed else np.isclose(mesh.points[:, 0], mesh.points[:, 0].max())
            if kind == "3d":
                field = fem.FieldContainer([fem.Field(reg, dim=3)])
                fb = fem.FieldContainer([fem.Field(getattr(fem, Rb)(mesh, mask=mask), dim=3)])
            else:
                F = fem.FieldAxisymmetric if kind == "axisymmetric" else fem.FieldPlaneStrain
                field = fem.FieldContainer([F(reg, dim=2)])
                fb = fem.FieldContainer([F(getattr(fem, Rb)(mesh, mask=mask, ensure_3d=True), dim=2)])
            random_state(rng, field)
            s = rng.standard_normal((3, 3))
            loads = {"SolidBodyPressure": fem.SolidBodyPressure(fb, pressure=rng.uniform(-1, 1, fb.region.dV.shape) if rep % 3 == 0 else float(rng.uniform(-1, 1))),
                     "SolidBodyCauchyStress": fem.SolidBodyCauchyStress(fb, cauchy_stress=s if rep % 2 else s + s.T)}
            for name, load in loads.items():
                evaluate(run, [load], field, "%s[%s]" % (name, Rb), rng, conservative=False, order=rep % 3)
                run.configs.add(str((name, Rb, kind, closed)))
        elif which == "mixed-list":
            # loads / constraints sized by the displacement field summed into a system of a mixed container (Newton's resize)
            mesh, _ = gen.build_mesh("hexahedron", "distorted", rng)
            mesh.update(points=np.vstack([mesh.points, mesh.points.max(0) + np.array([0.0, 0.0, 0.4])]))
            reg = fem.RegionHexahedron(mesh)
            x = fem.FieldsMixed(reg, n=3)
            random_state(rng, x)
            top = np.arange(mesh.npoints - 1)[np.isclose(mesh.points[:-1, 2], mesh.points[:-1, 2].max())]
            rb = fem.RegionHexahedronBoundary(mesh, mask=np.isclose(mesh.points[:, 0], mesh.points[:-1, 0].max()))
            press = fem.SolidBodyPressure(fem.FieldContainer([fem.Field(rb, dim=3)]), pressure=float(rng.uniform(-1, 1)))
            mpc = fem.MultiPointConstraint(x, points=top, centerpoint=mesh.npoints - 1, skip=[(0, 0, 0), (0, 1, 0)][rep % 2], multiplier=float(rng.uniform(10, 100)))
            if rep % 2:
                body = fem.SolidBody(fem.ThreeFieldVariation(fem.NeoHooke(mu=1.0, bulk=5.0)), x)
                lists = [[press, body, mpc], [body, mpc, press]][(rep // 2) % 2]
                evaluate(run, lists, x, "mixed-list[SolidBody(mixed)+pressure+constraint]", rng, conservative=False, order=rep % 3)
            else:
                f1 = fem.FieldContainer([fem.Field(reg, dim=3)])
                f1[0].values[:] = x[0].values
                body = fem.SolidBodyNearlyIncompressible(fem.NeoHooke(mu=1.0), f1, bulk=float(rng.uniform(20, 200)))
                mpc1 = fem.MultiPointConstraint(f1, points=top, centerpoint=mesh.npoints - 1, multiplier=float(rng.uniform(10, 100)))
                evaluate(run, [body, press, mpc1], f1, "mixed-list[condensed+pressure+constraint]", rng, conservative=False, order=0)
            run.configs.add(str(("mixed-list", rep % 2)))
        elif which == "multipoint-2d":
            # constraints / contact on 2D fields, negative centre index (documented), mixed unknowns
            kind = ["planestrain", "axisymmetric", "mixed-axisymmetric"][rep % 3]
            mesh = fem.Rectangle(a=(0, 1.0), b=(1, 2.0), n=(4, 3))
            mesh.update(points=np.vstack([mesh.points, [1.4, 1.5]]))
            reg = fem.RegionQuad(mesh)
            if kind.startswith("mixed"):
                field = fem.FieldsMixed(reg, n=3, axisymmetric=True)
            else:
                field = fem.FieldContainer([(fem.FieldAxisymmetric if kind == "axisymmetric" else fem.FieldPlaneStrain)(reg, dim=2)])
            field[0].values[:] = 0.03 * rng.standard_normal(field[0].values.shape)
            top = np.arange(mesh.npoints - 1)[np.isclose(mesh.points[:-1, 0], 1.0)]
            c = [-1, mesh.npoints - 1][rep % 2]
            contact = bool((rep // 2) % 2)
            if contact:
                field[0].values[top[::2], 0] += 0.6
                gap = (mesh.points[-1, 0] + field[0].values[-1, 0]) - (mesh.points[top, 0] + field[0].values[top, 0])
                if np.any(np.abs(gap) < 0.1):
                    run.skip("items.tangent", "contact gap too close to the switching point")
                    return
                it = fem.MultiPointContact(field, points=top, centerpoint=c, skip=(0, 1), multiplier=float(rng.uniform(10, 100)))
            else:
                it = fem.MultiPointConstraint(field, points=top, centerpoint=c, skip=[(0, 0), (0, 1), (1, 0)][rep % 3], multiplier=float(rng.uniform(10, 100)))
            evaluate(run, [it], field, "%s[2d]" % type(it).__name__, rng, conservative=True, order=rep % 3)
            run.configs.add(str((type(it).__name__, kind, c)))
        elif which == "families":
            # mixed / condensed bodies on further families, bodies on arbitrary-order Lagrange regions
            sel = rep % 8
            if sel < 4:
                kind, fam = [("mixed", "tetraMINI"), ("mixed-axisymmetric", "triangleMINI"), ("mixed-planestrain", "triangle6"), ("mixed", "hexahedron27")][sel]
                field, mesh, reg = make_field(kind, fam, "distorted" if fam == "hexahedron27" else "affine", rng)
                random_state(rng, field)
                um = fem.NearlyIncompressible(fem.NeoHooke(mu=1.0), bulk=7.0) if rep % 2 else fem.ThreeFieldVariation(fem.NeoHooke(mu=1.0, bulk=7.0))
                evaluate(run, [fem.SolidBody(um, field)], field, "SolidBody[mixed,%s]" % fam, rng, conservative=True, order=rep % 3)
            elif sel < 6:
                kind, fam = [("3d", "tetra10"), ("axisymmetric", "triangle6")][sel - 4]
                field, mesh, reg = make_field(kind, fam, "affine", rng)
                random_state(rng, field)
                evaluate(run, [fem.SolidBodyNearlyIncompressible(fem.NeoHooke(mu=1.0), field, bulk=float(rng.uniform(20, 200)))], field,
                         "SolidBodyNearlyIncompressible[%s]" % fam, rng, conservative=True, order=0)
            else:
                dim, order = [(2, 3), (3, 2)][sel - 6]
                m = gen.lagrange_mesh(order, dim)
                reg = fem.RegionLagrange(m, order=order, dim=dim)
                field = fem.FieldContainer([fem.Field(reg, dim=dim)])
                field[0].values[:] = gen.random_displacement(rng, m, grad=0.2, noise=0)
                evaluate(run, [fem.SolidBody(fem.NeoHookeCompressible(mu=1.0, lmbda=2.0), field)], field, "SolidBody[RegionLagrange]", rng, conservative=True, order=rep % 3)
            run.configs.add(str(("families", sel)))
    return fn


def cases(tier, seed):
    out = []
    reps = 1 if tier == "quick" else 3
    # solid bodies: field kind x family x geometry x material
    plan = []
    fam3 = ["hexahedron", "tetra", "hexahedron20", "tetra10", "hexahedron27", "tetraMINI"]
    fam2 = ["quad", "triangle", "quad8", "quad9", "triangle6", "triangleMINI"]
    geos = ["distorted", "curved", "affine"]
    k = 0
    for fam in fam3:
        for mat in (MATS if tier == "thorough" else [MATS[k % len(MATS)], MATS[(k + 3) % len(MATS)]]):
            plan.append(("3d", fam, geos[k % 3], mat))
            k += 1
    for kind in ("planestrain", "axisymmetric"):
        for fam in fam2:
            for mat in (MATS[:4] if tier == "thorough" else [MATS[k % 4]]):
                plan.append((kind, fam, geos[k % 3], mat))
                k += 1
    for kind, fam in (("mixed", "hexahedron"), ("mixed", "hexahedron20"), ("mixed", "tetra10"), ("mixed-planestrain", "quad"),
                      ("mixed-planestrain", "quad9"), ("mixed-axisymmetric", "quad"), ("mixed-axisymmetric", "quad8")):
        for mat in ("ThreeFieldVariation", "NearlyIncompressible"):
            plan.append((kind, fam, "distorted", mat))
    for kind, fam, geo, mat in plan:
        for rep in range(reps):
            out.append(("solid:%s:%s:%s:%s:%d" % (kind, fam, geo, mat, rep), case_solid(kind, fam, geo, mat, rep)))
    for which in ("viscoelastic", "plasticity", "ogden-roxburgh"):
        for kind, fam in (("3d", "hexahedron"), ("planestrain", "quad"), ("3d", "tetra")):
            if which == "plasticity" and kind != "3d":
                continue
            for rep in range(3):
                out.append(("history:%s:%s:%s:%d" % (which, kind, fam, rep), case_history_material(which, kind, fam, rep)))
    for kind, fams in (("3d", ("hexahedron", "hexahedron20", "tetra")), ("planestrain", ("quad", "quad8")),
                       ("axisymmetric", ("quad", "quad9"))):
        for fam in fams:
            for rep in range(4):
                out.append(("ni:%s:%s:%d" % (kind, fam, rep), case_nearly_incompressible(kind, fam, rep)))
    for what in ("pressure", "cauchy"):
        for kind in ("hex", "planestrain", "axisymmetric"):
            for rep in range(6):
                out.append(("load:%s:%s:%d" % (what, kind, rep), case_load(what, kind, rep)))
    for contact in (False, True):
        for rep in range(10 if contact else 6):
            out.append(("mpc:%s:%d" % (contact, rep), case_multipoint(contact, rep)))
    for which, n in (("quadratic-boundary", 6), ("mixed-list", 4), ("multipoint-2d", 6), ("families", 8)):
        for rep in range(n if tier == "quick" else 3 * n):
            out.append(("wider:%s:%d" % (which, rep), case_wider(which, rep)))
    for rep in range(2):
        out.append(("dead:%d" % rep, case_dead_loads(rep)))
        out.append(("formitem:%d" % rep, case_formitem(rep)))
    return out


def _required():
    req = []
    for u in ("SolidBody[Field]", "SolidBody[FieldPlaneStrain]", "SolidBody[FieldAxisymmetric]", "SolidBody[ThreeFieldVariation,mixed]",
              "SolidBody[NearlyIncompressible,mixed]", "SolidBody[ThreeFieldVariation,mixed-planestrain]",
              "SolidBody[ThreeFieldVariation,mixed-axisymmetric]", "SolidBodyNearlyIncompressible[3d]",
              "SolidBodyNearlyIncompressible[planestrain]", "SolidBodyNearlyIncompressible[axisymmetric]",
              "SolidBodyPressure[hex]", "SolidBodyPressure[planestrain]", "SolidBodyPressure[axisymmetric]",
              "SolidBodyCauchyStress[hex]", "MultiPointConstraint", "MultiPointContact[open]", "MultiPointContact[closed]",
              "MultiPointContact[mixed]", "MultiPointContact[touching]", "MultiPointContact[all-axes]", "PointLoad", "SolidBodyForce", "SolidBodyGravity", "FormItem", "SolidBody[viscoelastic,history]",
              "SolidBody[plasticity,history]", "SolidBody[ogden-roxburgh,history]"):
        req.append("tangent:" + u)
    for u in ("SolidBody[Field]", "SolidBody[FieldPlaneStrain]", "SolidBody[FieldAxisymmetric]", "SolidBody[ThreeFieldVariation,mixed]",
              "SolidBodyNearlyIncompressible[3d]", "MultiPointConstraint", "MultiPointContact[closed]", "FormItem"):
        req.append("tangent-symmetry:" + u)
    req += ["tangent:" + u for u in ("SolidBodyPressure[RegionQuadraticHexahedronBoundary]", "SolidBodyPressure[RegionTriQuadraticHexahedronBoundary]",
                                     "SolidBodyPressure[RegionQuadraticQuadBoundary]", "SolidBodyPressure[RegionBiQuadraticQuadBoundary]",
                                     "SolidBodyCauchyStress[RegionTriQuadraticHexahedronBoundary]", "mixed-list[SolidBody(mixed)+pressure+constraint]",
                                     "mixed-list[condensed+pressure+constraint]", "MultiPointConstraint[2d]", "MultiPointContact[2d]",
                                     "SolidBody[mixed,tetraMINI]", "SolidBody[mixed,triangleMINI]", "SolidBody[mixed,hexahedron27]",
                                     "SolidBodyNearlyIncompressible[tetra10]", "SolidBody[RegionLagrange]")]
    req += ["mixed-inner:NeoHooke", "mixed-inner:NeoHookeCompressible", "tangent:two-condensed-bodies-on-one-field[3d]"]
    req.append("multi-item-list-with-multiplier=-1")
    req += ["order:after-another-state", "order:foreign-container", "order:parallel", "solidbody-multiplier"]
    req += ["ni-umat:" + w for w in ("NeoHooke", "tt.yeoh", "NeoHookeCompressible", "OgdenRoxburgh")]
    req += ["load-variant:%s:%d" % (w, v) for w in ("pressure", "cauchy") for v in (0, 1, 2)]
    return req


SPEC = {
    "required_units": _required(),
    "rule": ("every Newton item type x field kind (3D, plane strain, axisymmetric, mixed u/p/J) x 12 element families x geometry "
             "classes (straight-distorted, curved, affine) x 6 materials (hand-coded, tensortrax, jax, pseudo-elastic with stored "
             "history) at random nodal states with det F > 0.2; jac_items is compared with central differences of fun_items on deep "
             "copies in 3 random directions plus one per field of a mixed container, with three different call orders of vector and "
             "matrix; a configuration is distinct by (item, field kind, family, geometry, material[, open/closed surface])"),
    "assumptions": ["central differences with steps 2e-5 and 1e-5: a mismatch that still shrinks like h^2 is inconclusive, not a violation",
                    "errors are normalised by max|K|", "contact states are generated at least 0.1 away from the switching point"],
    "jobs": {"quick": 8, "thorough": 16},
    "timeout": {"quick": 900, "thorough": 5400},
}
