"""C17 - batched tensor algebra equals its definition for every batch item.

icontract post-conditions (vmon.monitors.math) are installed on the real
felupe.math routines; this module only *drives* them: all dims, broadcast batch
shapes, float64/float32, out=None / fresh / reused buffers, parallel on/off
under a tiny thread switch interval.
"""
import sys

import numpy as np

from .. import attach
from ..monitors import math as MM
from ..util import rng_for

BATCHES = [(1, 1), (3, 5), (3, 1), (1, 5), (7,), (2, 3, 4)]


def well_conditioned(rng, d, batch, dtype=np.float64, sym=False):
    A = np.zeros((d, d, *batch))
    for idx in np.ndindex(*batch):
        while True:
            M = np.eye(d) * rng.uniform(0.5, 2.0) + 0.4 * rng.standard_normal((d, d))
            if sym:
                M = (M + M.T) / 2
            if np.linalg.cond(M) < 50:
                break
        A[(slice(None), slice(None), *idx)] = M
    return A.astype(dtype)


def drive_unary(run, rng, tier):
    import felupe.math as fm
    for d in (1, 2, 3):
        for batch in BATCHES:
            for dtype in (np.float64, np.float32):
                A = well_conditioned(rng, d, batch, dtype)
                S = well_conditioned(rng, d, batch, dtype, sym=True)
                fm.det(A)
                fm.det(A, out=np.full(batch, 7.0, dtype=dtype))
                buf = np.full(batch, -3.0, dtype=dtype)
                fm.det(A, out=buf)
                fm.det(S, out=buf)  # reused buffer
                fm.inv(A)
                fm.inv(A, determinant=fm.det(A))
                fm.inv(A, full_output=True)
                fm.inv(S, sym=True)
                ob = np.full_like(A, 7.0)
                fm.inv(A, out=ob)
                fm.inv(S, out=ob, sym=True)  # reused buffer + sym shortcut
                fm.inv(A, out=ob, determinant=fm.det(A))
                fm.cof(A)
                fm.cof(S, sym=True)
                fm.dev(A)
                fm.dev(A, out=np.full_like(A, 9.0))
                fm.sym(A)
                fm.sym(A, out=np.full_like(A, 9.0))
                fm.trace(A)
                fm.transpose(A)
                fm.tovoigt(S)
                fm.tovoigt(S, strain=True)
                fm.equivalent_von_mises(S)
                fm.identity(A)
                if dtype is np.float64:
                    fm.eigh(S)
                    # documented storage flag: only the named triangle is read
                    for uplo in ("L", "U"):
                        T = S.copy()
                        for i in range(d):
                            for j in range(d):
                                if (uplo == "L" and j > i) or (uplo == "U" and j < i):
                                    T[i, j] = 7.0
                        fm.eigh(T, UPLO=uplo)
                        fm.eigh(S, UPLO=uplo)
                    fm.eig(A)
                    fm.eigvals(A)
                    if d > 1 and len(batch) >= 1:
                        fm.eigvals(A, shear=True)
                    fm.eigvalsh(S)
                    if d > 1:
                        fm.eigvalsh(S, shear=True)
                    C = fm.dot(fm.transpose(A), A)
                    if d > 1:
                        for k in (0, 2, -1, 0.5, 1, -2, -0.5, 3, float(np.round(rng.uniform(-3, 3), 2))):
                            fm.strain(None, C=C, k=k)
                            fm.strain(None, C=C, k=k, tensor=False)
                            if d == 3:
                                fm.strain(None, C=C, k=k, asvoigt=True)
                        fm.strain(None, C=C, tensor=False)
                        fm.strain(None, C=C, asvoigt=True)
                    fm.strain_stretch_1d(np.sqrt(np.abs(A[0, 0]) + 0.5), k=0)
                    fm.strain_stretch_1d(np.sqrt(np.abs(A[0, 0]) + 0.5), k=2)
                    for k in (1, -2, -0.5, 3, float(np.round(rng.uniform(-3, 3), 2))):
                        fm.strain_stretch_1d(np.sqrt(np.abs(A[0, 0]) + 0.5), k=k)
    fm.identity(dim=3, shape=(4, 5))
    fm.identity(dim=2, shape=(1, 1))


def drive_binary(run, rng, tier):
    import felupe.math as fm
    old = sys.getswitchinterval()
    sys.setswitchinterval(1e-6)
    try:
        for d in (1, 2, 3):
            # (batches not longer than the tensor dimension: the threaded einsum then splits along a tensor / contracted index)
            for ba, bb in [((3, 5), (3, 5)), ((3, 1), (1, 5)), ((1, 1), (3, 5)), ((3, 5), (1, 1)), ((6,), (6,)),
                           ((40, 30), (40, 30)), ((1, 1), (1, 1)), ((1, 2), (1, 2)), ((2,), (2,)), ((3, 3), (3, 3)), ((2, 1), (1, 2))]:
                if ba == (40, 30) and d != 3:
                    continue
                mk = lambda n, b: rng.standard_normal((d,) * n + b)
                bs = np.broadcast_shapes(ba, bb)
                for par in (False, True):
                    for (la, lb) in MM.DOT:
                        A, B = mk(la, ba), mk(lb, bb)
                        fm.dot(A, B, mode=(la, lb), parallel=par)
                        if not par:
                            nres = {(2, 2): 2, (1, 1): 0, (4, 4): 6, (2, 1): 1, (1, 2): 1, (2, 3): 3, (3, 2): 3, (4, 1): 3,
                                    (1, 4): 3, (2, 4): 4, (4, 2): 4}[(la, lb)]
                            buf = np.full((d,) * nres + bs, 5.0)
                            fm.dot(A, B, mode=(la, lb), out=buf)
                            fm.dot(B if la == lb else A, A if la == lb else B, mode=(la, lb), out=buf)
                    for (la, lb) in MM.DDOT:
                        fm.ddot(mk(la, ba), mk(lb, bb), mode=(la, lb), parallel=par)
                        # output buffers (also together with the threaded evaluation), reused with other content
                        nres = la + lb - 4
                        buf = np.full((d,) * nres + bs, 5.0)
                        fm.ddot(mk(la, ba), mk(lb, bb), mode=(la, lb), parallel=par, out=buf)
                        fm.ddot(mk(la, ba), mk(lb, bb), mode=(la, lb), parallel=par, out=buf)
                    fm.dddot(mk(3, ba), mk(3, bb), parallel=par)
                    fm.dddot(mk(3, ba), mk(3, bb), parallel=par, out=np.full(bs, 5.0))
                    if par:
                        for (la, lb) in MM.DOT:
                            nres = {(2, 2): 2, (1, 1): 0, (4, 4): 6, (2, 1): 1, (1, 2): 1, (2, 3): 3, (3, 2): 3, (4, 1): 3,
                                    (1, 4): 3, (2, 4): 4, (4, 2): 4}[(la, lb)]
                            fm.dot(mk(la, ba), mk(lb, bb), mode=(la, lb), parallel=True, out=np.full((d,) * nres + bs, 5.0))
                    A, B = mk(2, ba), mk(2, bb)
                    fm.cdya_ik(A, B, parallel=par)
                    fm.cdya_il(A, B, parallel=par)
                    fm.cdya(A, B, parallel=par)
                    fm.cdya(A, B, parallel=par, out=np.full((d,) * 4 + bs, 3.0))
                    b4 = np.full((d,) * 4 + bs, 3.0)
                    fm.cdya_ik(A, B, parallel=par, out=b4)
                    fm.cdya_il(B, A, parallel=par, out=b4)
                    fm.dya(A, B, parallel=par, out=b4)
                    fm.dya(B, A, parallel=par)
                    fm.dya(mk(1, ba), mk(1, bb), mode=1, parallel=par, out=np.full((d, d) + bs, 3.0))
                A, B = mk(2, ba), mk(2, bb)
                fm.dya(A, B)
                fm.dya(mk(1, ba), mk(1, bb), mode=1)
                fm.majortranspose(mk(4, ba))
                fm.transpose(mk(4, ba), mode=2)
                if len(ba) == 2:
                    # trailing_axes other than the default 2 raise for d > 1 on the pinned tree (ravel does not
                    # forward the argument): loud, and reshape/ravel are helpers outside the property's list
                    fm.reshape(mk(4, ba), (d * d, d * d))
                    fm.ravel(mk(2, ba))
                if d == 3:
                    fm.cross(mk(1, ba), mk(1, bb))
                if d > 1:
                    vec = rng.standard_normal((2, d) + ba)
                    fm.inplane(mk(2, ba), vec)
                # batched linear solves
                if len(ba) == 2 and ba == bb:
                    A4 = np.einsum("ik,jl->ijkl", np.eye(d), np.eye(d)).reshape(d, d, d, d, 1, 1) + 0.1 * mk(4, ba)
                    fm.solve_2d(A4, mk(2, bb))
                    A2 = np.eye(d).reshape(d, d, 1, 1) + 0.1 * mk(2, ba)
                    fm.solve_nd(A2, mk(1, bb), n=1)
                    # broadcast (size-one) batch axes on either side, as a local Newton uses them
                    fm.solve_nd(A2[..., :1, :1], mk(1, bb), n=1)
                    fm.solve_nd(A2, mk(1, (1, 1)), n=1)
                    fm.solve_2d(A4[..., :1, :1], mk(2, bb))
                    fm.solve_2d(A4, mk(2, (1, 1)))
                if len(ba) == 1 and ba == bb:
                    A2 = np.eye(d).reshape(d, d, 1) + 0.1 * mk(2, ba)
                    fm.solve_nd(A2, mk(1, bb), n=1)
                    A6 = np.einsum("il,jm,kn->ijklmn", np.eye(d), np.eye(d), np.eye(d)).reshape((d,) * 6 + (1,)) + 0.05 * mk(6, ba)
                    fm.solve_nd(A6, mk(3, bb), n=3)
    finally:
        sys.setswitchinterval(old)


def drive_misc(run, rng, tier):
    import felupe.math as fm
    for ang in list(rng.uniform(-360, 360, 6)) + [0.0, 90.0, 180.0]:
        fm.rotation_matrix(ang, dim=2)
        for ax in (0, 1, 2):
            fm.rotation_matrix(ang, dim=3, axis=ax)
    fm.linsteps([0, 0.5, 1.5, 3.5], num=2)
    fm.linsteps([0, 1, 0], num=[2, 3])
    fm.linsteps([0, 1, 0, 2], num=[2, 3])  # padded num
    fm.linsteps([0, 1], num=2, endpoint=False)
    fm.linsteps([0, 1], num=2, axis=1, axes=3)
    fm.linsteps([0, 1], num=3, axis=0)
    fm.linsteps([0, -1, 4], num=5, axis=2, axes=3, values=[1.0, 2.0, 3.0])
    fm.linsteps([2.0], num=4)
    # strain measures taken from the n-th field of a container (documented index argument)
    import felupe as fem
    from ..util import maxabs
    mesh = fem.Cube(n=3)
    reg = fem.RegionHexahedron(mesh)
    cont = fem.FieldContainer([fem.Field(reg, dim=3), fem.Field(reg, dim=3)])
    for f in cont.fields:
        f.values[:] = 0.1 * rng.standard_normal(f.values.shape)
    for n_ in (0, 1):
        Fq = cont[n_].extract(grad=True, sym=False, add_identity=True)
        Cq = np.einsum("ki...,kj...->ij...", Fq, Fq)
        w, N = np.linalg.eigh(np.moveaxis(Cq, (0, 1), (-2, -1)))
        for k_, f_ in ((0, lambda lam2: np.log(lam2) / 2), (2, lambda lam2: (lam2 - 1) / 2)):
            ref = np.moveaxis(np.einsum("...a,...ia,...ja->...ij", f_(w), N, N), (-2, -1), (0, 1))
            for what, got in (("math.strain", fm.strain(cont, k=k_, n=n_)),
                              ("field.evaluate.strain", cont.evaluate.strain(k=k_, n=n_)),
                              ("field.evaluate.%s" % ("log_strain" if k_ == 0 else "green_lagrange_strain"),
                               (cont.evaluate.log_strain if k_ == 0 else cont.evaluate.green_lagrange_strain)(n=n_))):
                run.compare("math.strain-of-field", "routine=%s[n=%d] clause=value" % (what, n_), maxabs(np.asarray(got) - ref), 1e-12,
                            "%s(n=%d) is not the Seth-Hill strain of field %d of the container" % (what, n_, n_), unit="math:strain-of-field[n=%d]" % n_,
                            config=("strain-of-field", what, n_, k_))
    for _ in range(4 if tier == "quick" else 40):
        n = int(rng.integers(2, 6))
        pts = rng.uniform(-2, 2, n)
        num = [int(x) for x in rng.integers(1, 6, n - 1)]
        fm.linsteps(pts, num=num, endpoint=bool(rng.integers(0, 2)))


def make_case(name, drive):
    def fn(run):
        rng = rng_for(run.seed, "C17", name)
        MM.install(run)
        try:
            reps = 1 if run.tier == "quick" else 6
            for _ in range(reps):
                drive(run, rng, run.tier)
        finally:
            attach.detach_all()
    return fn


def cases(tier, seed):
    return [("unary", make_case("unary", drive_unary)), ("binary", make_case("binary", drive_binary)),
            ("misc", make_case("misc", drive_misc))]


def _required():
    req = []
    for d in (1, 2, 3):
        req += ["math:det[%dd]" % d, "math:inv[%dd,default]" % d, "math:inv[%dd,determinant]" % d,
                "math:inv[%dd,default+sym]" % d, "math:cof[%dd]" % d, "math:cof[%dd,sym]" % d, "math:dev[%dd]" % d,
                "math:sym[%dd]" % d, "math:trace[%dd]" % d, "math:tovoigt[%dd,strain=True]" % d,
                "math:tovoigt[%dd,strain=False]" % d, "math:equivalent_von_mises[%dd]" % d]
    req += ["math:inv[full_output]", "math:det:out", "math:inv:out", "math:dev:out", "math:sym:out", "math:dot:out",
            "math:cdya:out", "math:det:inputs", "math:inv:inputs", "math:dot:inputs"]
    for m in MM.DOT:
        for p in (False, True):
            req.append("math:dot[mode=%s,parallel=%s]" % (m, p))
    for m in MM.DDOT:
        for p in (False, True):
            req.append("math:ddot[mode=%s,parallel=%s]" % (m, p))
    for p in (False, True):
        req += ["math:dddot[mode=(3, 3),parallel=%s]" % p, "math:cdya_ik[parallel=%s]" % p,
                "math:cdya_il[parallel=%s]" % p, "math:cdya[parallel=%s]" % p]
    req += ["math:dya[mode=1]", "math:dya[mode=2]", "math:transpose[mode=1]", "math:transpose[mode=2]",
            "math:majortranspose", "math:cross", "math:eigh", "math:eigh[UPLO=L,triangular-storage]", "math:eigh[UPLO=U,triangular-storage]", "math:eig", "math:eig:complete", "math:eigvals", "math:eigvals[shear=True]", "math:strain-of-field[n=0]", "math:strain-of-field[n=1]", "math:eigvalsh[shear=False]",
            "math:eigvalsh[shear=True]", "math:inplane", "math:identity", "math:reshape", "math:ravel",
            "math:solve_nd[n=1]", "math:solve_nd[n=2]", "math:rotation_matrix[dim=2,axis=-]",
            "math:rotation_matrix[dim=3,axis=0]", "math:rotation_matrix[dim=3,axis=1]",
            "math:rotation_matrix[dim=3,axis=2]", "math:strain_stretch_1d[k=0]", "math:strain_stretch_1d[k!=0]",
            "math:strain[tensor=True,asvoigt=False,k=0]", "math:strain[tensor=True,asvoigt=False,k=2]",
            "math:strain[tensor=False,asvoigt=False,k=0]", "math:strain[tensor=True,asvoigt=True,k=0]", "math:linsteps"]
    return req


SPEC = {
    "required_units": _required(),
    "rule": ("every public routine/mode/flag of felupe.math is driven with seeded well-conditioned inputs (cond < 50) for "
             "dims 1..3, batch shapes (1,1),(3,5),(3,1),(1,5),(7,),(2,3,4),(40,30) incl. mixed broadcast between operands, "
             "float64 and float32, out = None/fresh/reused, parallel on/off with switch interval 1e-6; a configuration is "
             "distinct by (routine, mode/flags, dim) and non-trivial when a per-item numpy reference was compared"),
    "assumptions": ["numpy.linalg and explicit numpy.einsum per batch item are the reference",
                    "tolerance 1e3*eps(dtype)*scale (times cond for inverses)"],
    "jobs": {"quick": 3, "thorough": 3},
}
