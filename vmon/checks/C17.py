"""C17 - batched tensor algebra equals its definition for every batch item.

icontract post-conditions (vmon.monitors.math) are installed on the real
felupe.math routines; this module only *drives* them: all dims, broadcast batch
shapes, float64/float32, out=None / fresh / reused buffers, parallel on/off
under a tiny thread switch interval.

Cases: ``unary`` / ``binary`` / ``misc`` (the plain passes), ``flags`` (buffers
holding NaN / inf or aliasing an input, flag combinations, identity / tovoigt
variants), ``shapes`` (no / three batch axes, float32 / integer operands, mixed
tensor dimensions, batches longer than the thread pool, solve_nd / linsteps /
strain inputs the plain passes leave out), ``fields`` (the field-level functions
on two-field containers, judged here against explicit loops).  Every routine
with optional flags is also called with all of them left out and with the flags
by position: the monitor takes a flag from the call or from its own table of
documented defaults (fourth audit), and "field n" is entry n of the check's list.
"""
import sys

import numpy as np

from .. import attach
from ..monitors import math as MM
from ..util import rng_for

BATCHES = [(1, 1), (3, 5), (3, 1), (1, 5), (7,), (2, 3, 4)]


def well_conditioned(rng, d, batch, dtype=np.float64, sym=False):
    A = np.zeros((d, d, *batch))
    for idx in np.ndindex(*batch):
        while True:
            M = np.eye(d) * rng.uniform(0.5, 2.0) + 0.4 * rng.standard_normal((d, d))
            if sym:
                M = (M + M.T) / 2
            if np.linalg.cond(M) < 50:
                break
        A[(slice(None), slice(None), *idx)] = M
    return A.astype(dtype)


def drive_unary(run, rng, tier):
    import felupe.math as fm
    for d in (1, 2, 3):
        for batch in BATCHES:
            for dtype in (np.float64, np.float32):
                A = well_conditioned(rng, d, batch, dtype)
                S = well_conditioned(rng, d, batch, dtype, sym=True)
                fm.det(A)
                fm.det(A, out=np.full(batch, 7.0, dtype=dtype))
                buf = np.full(batch, -3.0, dtype=dtype)
                fm.det(A, out=buf)
                fm.det(S, out=buf)  # reused buffer
                fm.inv(A)
                fm.inv(A, determinant=fm.det(A))
                fm.inv(A, full_output=True)
                fm.inv(S, sym=True)
                ob = np.full_like(A, 7.0)
                fm.inv(A, out=ob)
                fm.inv(S, out=ob, sym=True)  # reused buffer + sym shortcut
                fm.inv(A, out=ob, determinant=fm.det(A))
                fm.cof(A)
                fm.cof(S, sym=True)
                fm.dev(A)
                fm.dev(A, out=np.full_like(A, 9.0))
                fm.sym(A)
                fm.sym(A, out=np.full_like(A, 9.0))
                fm.trace(A)
                fm.transpose(A)
                fm.tovoigt(S)
                fm.tovoigt(S, strain=True)
                # (fourth audit: the monitor takes a flag from the call, else from the documented default - so the flag is
                # also named explicitly with its default value and passed by position)
                fm.tovoigt(A, strain=False)
                fm.tovoigt(A, True)
                fm.inv(A, fm.det(A))
                fm.inv(A, None, True)
                fm.inv(S, None, False, True)
                fm.inv(A, determinant=None, full_output=False, sym=False)
                fm.cof(S, True)
                fm.cof(A, sym=False)
                fm.transpose(A, 1)
                fm.equivalent_von_mises(S)
                fm.identity(A)
                if dtype is np.float64:
                    fm.eigh(S)
                    # documented storage flag: only the named triangle is read
                    for uplo in ("L", "U"):
                        T = S.copy()
                        for i in range(d):
                            for j in range(d):
                                if (uplo == "L" and j > i) or (uplo == "U" and j < i):
                                    T[i, j] = 7.0
                        fm.eigh(T, UPLO=uplo)
                        fm.eigh(S, UPLO=uplo)
                    fm.eig(A)
                    fm.eigvals(A)
                    if d > 1 and len(batch) >= 1:
                        fm.eigvals(A, shear=True)
                    fm.eigvalsh(S)
                    fm.eigvalsh(S, False)
                    fm.eigvals(A, False)
                    fm.eigh(S, "U")
                    if d > 1:
                        fm.eigvalsh(S, shear=True)
                        fm.eigvalsh(S, True)
                    C = fm.dot(fm.transpose(A), A)
                    if d > 1:
                        for k in (0, 2, -1, 0.5, 1, -2, -0.5, 3, float(np.round(rng.uniform(-3, 3), 2))):
                            fm.strain(None, C=C, k=k)
                            fm.strain(None, C=C, k=k, tensor=False)
                            if d == 3:
                                fm.strain(None, C=C, k=k, asvoigt=True)
                        fm.strain(None, C=C, tensor=False)
                        fm.strain(None, C=C, asvoigt=True)
                        # nothing but C: the documented defaults (logarithmic strain tensor in full storage); flags by position
                        fm.strain(None, C=C)
                        fm.strain(None, C)
                        fm.strain(None, C, fm.strain_stretch_1d, False)
                        fm.strain(None, C, fm.strain_stretch_1d, True, d == 3, k=2)
                    fm.strain_stretch_1d(np.sqrt(np.abs(A[0, 0]) + 0.5))  # documented default: the logarithmic strain
                    fm.strain_stretch_1d(np.sqrt(np.abs(A[0, 0]) + 0.5), 2)
                    fm.strain_stretch_1d(np.sqrt(np.abs(A[0, 0]) + 0.5), k=0)
                    fm.strain_stretch_1d(np.sqrt(np.abs(A[0, 0]) + 0.5), k=2)
                    for k in (1, -2, -0.5, 3, float(np.round(rng.uniform(-3, 3), 2))):
                        fm.strain_stretch_1d(np.sqrt(np.abs(A[0, 0]) + 0.5), k=k)
    fm.identity(dim=3, shape=(4, 5))
    fm.identity(dim=2, shape=(1, 1))


def drive_binary(run, rng, tier):
    import felupe.math as fm
    old = sys.getswitchinterval()
    sys.setswitchinterval(1e-6)
    try:
        for d in (1, 2, 3):
            # (batches not longer than the tensor dimension: the threaded einsum then splits along a tensor / contracted index)
            for ba, bb in [((3, 5), (3, 5)), ((3, 1), (1, 5)), ((1, 1), (3, 5)), ((3, 5), (1, 1)), ((6,), (6,)),
                           ((40, 30), (40, 30)), ((1, 1), (1, 1)), ((1, 2), (1, 2)), ((2,), (2,)), ((3, 3), (3, 3)), ((2, 1), (1, 2))]:
                if ba == (40, 30) and d != 3:
                    continue
                mk = lambda n, b: rng.standard_normal((d,) * n + b)
                bs = np.broadcast_shapes(ba, bb)
                for par in (False, True):
                    for (la, lb) in MM.DOT:
                        A, B = mk(la, ba), mk(lb, bb)
                        fm.dot(A, B, mode=(la, lb), parallel=par)
                        if not par:
                            nres = {(2, 2): 2, (1, 1): 0, (4, 4): 6, (2, 1): 1, (1, 2): 1, (2, 3): 3, (3, 2): 3, (4, 1): 3,
                                    (1, 4): 3, (2, 4): 4, (4, 2): 4}[(la, lb)]
                            buf = np.full((d,) * nres + bs, 5.0)
                            fm.dot(A, B, mode=(la, lb), out=buf)
                            fm.dot(B if la == lb else A, A if la == lb else B, mode=(la, lb), out=buf)
                    for (la, lb) in MM.DDOT:
                        fm.ddot(mk(la, ba), mk(lb, bb), mode=(la, lb), parallel=par)
                        # output buffers (also together with the threaded evaluation), reused with other content
                        nres = la + lb - 4
                        buf = np.full((d,) * nres + bs, 5.0)
                        fm.ddot(mk(la, ba), mk(lb, bb), mode=(la, lb), parallel=par, out=buf)
                        fm.ddot(mk(la, ba), mk(lb, bb), mode=(la, lb), parallel=par, out=buf)
                    fm.dddot(mk(3, ba), mk(3, bb), parallel=par)
                    fm.dddot(mk(3, ba), mk(3, bb), parallel=par, out=np.full(bs, 5.0))
                    if par:
                        for (la, lb) in MM.DOT:
                            nres = {(2, 2): 2, (1, 1): 0, (4, 4): 6, (2, 1): 1, (1, 2): 1, (2, 3): 3, (3, 2): 3, (4, 1): 3,
                                    (1, 4): 3, (2, 4): 4, (4, 2): 4}[(la, lb)]
                            fm.dot(mk(la, ba), mk(lb, bb), mode=(la, lb), parallel=True, out=np.full((d,) * nres + bs, 5.0))
                    A, B = mk(2, ba), mk(2, bb)
                    fm.cdya_ik(A, B, parallel=par)
                    fm.cdya_il(A, B, parallel=par)
                    fm.cdya(A, B, parallel=par)
                    fm.cdya(A, B, parallel=par, out=np.full((d,) * 4 + bs, 3.0))
                    b4 = np.full((d,) * 4 + bs, 3.0)
                    fm.cdya_ik(A, B, parallel=par, out=b4)
                    fm.cdya_il(B, A, parallel=par, out=b4)
                    fm.dya(A, B, parallel=par, out=b4)
                    fm.dya(B, A, parallel=par)
                    fm.dya(mk(1, ba), mk(1, bb), mode=1, parallel=par, out=np.full((d, d) + bs, 3.0))
                A, B = mk(2, ba), mk(2, bb)
                fm.dya(A, B)
                fm.dya(mk(1, ba), mk(1, bb), mode=1)
                fm.majortranspose(mk(4, ba))
                fm.transpose(mk(4, ba), mode=2)
                # every optional argument left out (fourth audit: the documented defaults are the monitor's, not the
                # signature's) and the same flags by position
                fm.dot(A, B)
                fm.ddot(A, B)
                fm.dddot(mk(3, ba), mk(3, bb))
                fm.cdya_ik(A, B)
                fm.cdya_il(A, B)
                fm.cdya(A, B)
                fm.dot(A, mk(4, bb), (2, 4))
                fm.dot(mk(4, ba), B, (4, 2), True)
                fm.ddot(A, mk(4, bb), (2, 4), True)
                fm.dddot(mk(3, ba), mk(3, bb), (3, 3), True)
                fm.cdya_ik(A, B, True)
                fm.cdya(A, B, True, np.full((d,) * 4 + bs, 3.0))
                fm.dya(mk(1, ba), mk(1, bb), 1)
                fm.dya(A, B, 2, True)
                fm.transpose(mk(4, ba), 2)
                if len(ba) == 2:
                    # trailing_axes other than the default 2 raise for d > 1 on the pinned tree (ravel does not
                    # forward the argument): loud, and reshape/ravel are helpers outside the property's list
                    fm.reshape(mk(4, ba), (d * d, d * d))
                    fm.ravel(mk(2, ba))
                if d == 3:
                    fm.cross(mk(1, ba), mk(1, bb))
                if d > 1:
                    vec = rng.standard_normal((2, d) + ba)
                    fm.inplane(mk(2, ba), vec)
                # batched linear solves
                if len(ba) == 2 and ba == bb:
                    A4 = np.einsum("ik,jl->ijkl", np.eye(d), np.eye(d)).reshape(d, d, d, d, 1, 1) + 0.1 * mk(4, ba)
                    fm.solve_2d(A4, mk(2, bb))
                    A2 = np.eye(d).reshape(d, d, 1, 1) + 0.1 * mk(2, ba)
                    fm.solve_nd(A2, mk(1, bb), n=1)
                    fm.solve_nd(A2, mk(1, bb))  # documented default: vector-valued unknowns
                    fm.solve_nd(A4, mk(2, bb), np.linalg.solve, 2)
                    # broadcast (size-one) batch axes on either side, as a local Newton uses them
                    fm.solve_nd(A2[..., :1, :1], mk(1, bb), n=1)
                    fm.solve_nd(A2, mk(1, (1, 1)), n=1)
                    fm.solve_2d(A4[..., :1, :1], mk(2, bb))
                    fm.solve_2d(A4, mk(2, (1, 1)))
                if len(ba) == 1 and ba == bb:
                    A2 = np.eye(d).reshape(d, d, 1) + 0.1 * mk(2, ba)
                    fm.solve_nd(A2, mk(1, bb), n=1)
                    A6 = np.einsum("il,jm,kn->ijklmn", np.eye(d), np.eye(d), np.eye(d)).reshape((d,) * 6 + (1,)) + 0.05 * mk(6, ba)
                    fm.solve_nd(A6, mk(3, bb), n=3)
    finally:
        sys.setswitchinterval(old)


def drive_misc(run, rng, tier):
    import felupe.math as fm
    for ang in list(rng.uniform(-360, 360, 6)) + [0.0, 90.0, 180.0]:
        fm.rotation_matrix(ang, dim=2)
        for ax in (0, 1, 2):
            fm.rotation_matrix(ang, dim=3, axis=ax)
        # documented defaults: three dimensions, about the first axis (each one left out alone and together); by position
        fm.rotation_matrix(ang)
        fm.rotation_matrix(ang, axis=2)
        fm.rotation_matrix(ang, dim=3)
        fm.rotation_matrix(ang, 2)
        fm.rotation_matrix(ang, 3, 1)
    fm.linsteps([0, 0.5, 1.5, 3.5], num=2)
    fm.linsteps([0, 1, 0], num=[2, 3])
    fm.linsteps([0, 1, 0, 2], num=[2, 3])  # padded num
    fm.linsteps([0, 1], num=2, endpoint=False)
    fm.linsteps([0, 1], num=2, axis=1, axes=3)
    fm.linsteps([0, 1], num=3, axis=0)
    fm.linsteps([0, -1, 4], num=5, axis=2, axes=3, values=[1.0, 2.0, 3.0])
    fm.linsteps([2.0], num=4)
    # documented defaults (ten samples per segment, the end point included, one-dimensional result, other columns zero), each
    # one left out alone and all together; flags by position
    fm.linsteps([0, 1])
    fm.linsteps([0, 0.5, 1.5, 3.5])
    fm.linsteps([0, 1], endpoint=False)
    fm.linsteps([0, 1], endpoint=True)
    fm.linsteps([0, 2], axis=1)
    fm.linsteps([0, 2], axis=0, axes=2)
    fm.linsteps([0, 2], num=3, axis=1, values=0.0)
    fm.linsteps([0, 0.5, 1.5, 3.5], num=2, axis=1, values=[-1, 0])  # the docstring's example
    fm.linsteps([0, 1], 3, False)
    fm.linsteps([0, 1, 3], [2, 3], True, 1, 3, [1.0, 2.0, 3.0])
    # strain measures taken from the n-th field of a container (documented index argument)
    import felupe as fem
    from ..util import maxabs
    mesh = fem.Cube(n=3)
    reg = fem.RegionHexahedron(mesh)
    # (fourth audit: "the n-th field" is the n-th entry of the list the container was built from - the check keeps that
    # list and does not ask the container's own accessor, which is what the routines under test use)
    fields = [fem.Field(reg, dim=3), fem.Field(reg, dim=3)]
    cont = fem.FieldContainer(fields)
    for f in fields:
        f.values[:] = 0.1 * rng.standard_normal(f.values.shape)
    for n_ in (0, 1):
        # (deformation gradient from explicit loops over cells and quadrature points, not from the field's own extract)
        Fq = _quad_F(fields[n_], reg, mesh) + np.eye(3).reshape(3, 3, 1, 1)
        Cq = np.einsum("ki...,kj...->ij...", Fq, Fq)
        w, N = np.linalg.eigh(np.moveaxis(Cq, (0, 1), (-2, -1)))
        for k_, f_ in ((0, lambda lam2: np.log(lam2) / 2), (2, lambda lam2: (lam2 - 1) / 2)):
            ref = np.moveaxis(np.einsum("...a,...ia,...ja->...ij", f_(w), N, N), (-2, -1), (0, 1))
            for what, got in (("math.strain", fm.strain(cont, k=k_, n=n_)),
                              ("field.evaluate.strain", cont.evaluate.strain(k=k_, n=n_)),
                              ("field.evaluate.%s" % ("log_strain" if k_ == 0 else "green_lagrange_strain"),
                               (cont.evaluate.log_strain if k_ == 0 else cont.evaluate.green_lagrange_strain)(n=n_))):
                run.compare("math.strain-of-field", "routine=%s[n=%d] clause=value" % (what, n_), maxabs(np.asarray(got) - ref), 1e-12,
                            "%s(n=%d) is not the Seth-Hill strain of field %d of the container" % (what, n_, n_), unit="math:strain-of-field[n=%d]" % n_,
                            config=("strain-of-field", what, n_, k_))
            if n_ == 0:
                # the index left out: documented default, the first field (and k = 0 for strain without k)
                plain = [("math.strain[k=%d]" % k_, fm.strain(cont, k=k_)), ("field.evaluate.strain[k=%d]" % k_, cont.evaluate.strain(k=k_)),
                         ("field.evaluate.%s" % ("log_strain" if k_ == 0 else "green_lagrange_strain"),
                          (cont.evaluate.log_strain if k_ == 0 else cont.evaluate.green_lagrange_strain)())]
                if k_ == 0:
                    plain += [("math.strain", fm.strain(cont)), ("field.evaluate.strain", cont.evaluate.strain())]
                for what, got in plain:
                    run.compare("math.strain-of-field", "routine=%s[n left out] clause=value" % what, maxabs(np.asarray(got) - ref), 1e-12,
                                "%s() without n (and k) is not the documented default: the %s strain of the first field" % (what, "logarithmic" if k_ == 0 else "Green-Lagrange"),
                                unit="math:strain-of-field[defaults]", config=("strain-of-field", what, "defaults", k_))
    for _ in range(4 if tier == "quick" else 40):
        n = int(rng.integers(2, 6))
        pts = rng.uniform(-2, 2, n)
        num = [int(x) for x in rng.integers(1, 6, n - 1)]
        fm.linsteps(pts, num=num, endpoint=bool(rng.integers(0, 2)))


NRES_DOT = {(2, 2): 2, (1, 1): 0, (4, 4): 6, (2, 1): 1, (1, 2): 1, (2, 3): 3, (3, 2): 3, (4, 1): 3, (1, 4): 3, (2, 4): 4, (4, 2): 4}


def drive_flags(run, rng, tier):
    """Variants selected by flags and buffers that the plain passes do not reach (third audit): buffers that hold
    NaN / inf before the call (a result buffer from numpy.empty may hold anything), buffers that alias an input (the
    only way the library itself uses ``sym(out=)`` / ``dot(out=)``), ``trace`` / ``cof`` with a buffer, ``inv``'s
    second return value together with the other flags, ``identity`` with ``A`` and ``dim`` / ``shape`` / ``dtype``,
    ``tovoigt`` of non-symmetric tensors."""
    import felupe.math as fm
    old = sys.getswitchinterval()
    sys.setswitchinterval(1e-6)
    try:
        for d in (1, 2, 3):
            # (quick tier: two of the four batch shapes per dimension, by index)
            for batch in ([(3, 5), (1, 1), (7,), (2, 3, 4)] if tier != "quick" else [(3, 5), [(1, 1), (7,), (2, 3, 4)][d - 1]]):
                for dtype in (np.float64, np.float32):
                    A = well_conditioned(rng, d, batch, dtype)
                    S = well_conditioned(rng, d, batch, dtype, sym=True)
                    # identity: documented (N, M, *ones) from A, (dim, dim, *ones) with dim, len(shape) batch axes, dtype
                    fm.identity(A, shape=(4, 7, 3))
                    fm.identity(A, dim=d)
                    fm.identity(A, dim=d, shape=(2,))
                    fm.identity(A, dtype=np.float32 if dtype is np.float64 else np.float64)
                    fm.identity(dim=d, shape=batch, dtype=dtype)
                    R = rng.standard_normal((3, 2) + batch).astype(dtype)
                    fm.identity(R)
                    fm.identity(R, dim=2)  # the docstring's example
                    # tovoigt inserts the upper triangle of *any* second-order tensor (a view hands it the first Piola-Kirchhoff stress)
                    fm.tovoigt(A)
                    fm.tovoigt(A, strain=True)
                    # buffers whose old content is NaN / inf
                    for fill in (np.nan, np.inf):
                        fm.det(A, out=np.full(batch, fill, dtype=dtype))
                        fm.inv(A, out=np.full_like(A, fill))
                        fm.inv(S, sym=True, out=np.full_like(A, fill))
                        fm.inv(A, determinant=fm.det(A), out=np.full_like(A, fill))
                        fm.cof(A, out=np.full_like(A, fill))
                        fm.cof(S, sym=True, out=np.full_like(A, fill))
                        fm.dev(A, out=np.full_like(A, fill))
                        fm.sym(A, out=np.full_like(A, fill))
                        fm.trace(A, out=np.full(batch, fill, dtype=dtype))
                    # trace / cof into a fresh and a reused buffer
                    tb = np.full(batch, 7.0, dtype=dtype)
                    fm.trace(A, out=tb)
                    fm.trace(S, out=tb)
                    cb = np.full_like(A, 7.0)
                    fm.cof(A, out=cb)
                    fm.cof(S, sym=True, out=cb)
                    # second return value of inv together with the other flags
                    J = fm.det(A)
                    fm.inv(A, determinant=J, full_output=True)
                    fm.inv(S, sym=True, full_output=True)
                    fm.inv(A, full_output=True, out=np.full_like(A, 7.0))
                    fm.inv(S, determinant=fm.det(S), sym=True, full_output=True, out=cb)
                    # in place: the buffer is the input
                    a = A.copy()
                    fm.sym(a, out=a)
                    a = A.copy()
                    fm.dev(a, out=a)
                    fm.transpose(A, out=np.full_like(A, 7.0))
                # binary routines: aliased buffers (SolidBodyCauchyStress: dot(sigma, fun, out=fun)) and NaN / inf buffers
                mk = lambda n, b: rng.standard_normal((d,) * n + b)
                for par in (False, True):
                    A = mk(2, batch)
                    b2 = mk(2, batch)
                    fm.dot(A, b2, mode=(2, 2), parallel=par, out=b2)
                    b4 = mk(4, batch)
                    fm.dot(A, b4, mode=(2, 4), parallel=par, out=b4)
                    a2 = mk(2, batch)
                    fm.dot(a2, A, mode=(2, 2), parallel=par, out=a2)
                    if batch == (2, 3, 4) and d == 3:
                        continue
                    for fill in (np.nan, np.inf):
                        for (la, lb) in MM.DOT:
                            fm.dot(mk(la, batch), mk(lb, batch), mode=(la, lb), parallel=par, out=np.full((d,) * NRES_DOT[(la, lb)] + batch, fill))
                        for (la, lb) in MM.DDOT:
                            fm.ddot(mk(la, batch), mk(lb, batch), mode=(la, lb), parallel=par, out=np.full((d,) * (la + lb - 4) + batch, fill))
                        fm.dddot(mk(3, batch), mk(3, batch), parallel=par, out=np.full(batch, fill))
                        A, B = mk(2, batch), mk(2, batch)
                        fm.cdya_ik(A, B, parallel=par, out=np.full((d,) * 4 + batch, fill))
                        fm.cdya_il(A, B, parallel=par, out=np.full((d,) * 4 + batch, fill))
                        fm.cdya(A, B, parallel=par, out=np.full((d,) * 4 + batch, fill))
                        fm.dya(A, B, parallel=par, out=np.full((d,) * 4 + batch, fill))
                        fm.dya(mk(1, batch), mk(1, batch), mode=1, parallel=par, out=np.full((d, d) + batch, fill))
    finally:
        sys.setswitchinterval(old)


def drive_shapes(run, rng, tier):
    """Members of the quantifier the plain passes leave out (third audit): no batch axis at all, three batch axes and
    float32 / integer operands for the binary routines, operands of different tensor dimension where documented,
    threaded evaluations whose chunks hold more than one item (with broadcast operands, buffers, d < 3), the
    remaining documented inputs of solve_nd / linsteps, special spectra and own strain-stretch relations of strain."""
    import felupe.math as fm
    old = sys.getswitchinterval()
    sys.setswitchinterval(1e-6)
    try:
        nthreads = MM._state.get("threads") or 0
        long_ = 2 * nthreads + 1 if 2 <= nthreads <= 64 else 33
        pairs = [((), ()), ((2, 3, 4), (2, 3, 4)), ((2, 1, 4), (1, 3, 1)),
                 # more items than workers along the split axis: chunks of two and three items
                 ((long_,), (long_,)), ((long_,), (1,)), ((1,), (long_,)), ((nthreads + 1 if nthreads >= 2 else 17, 2), (nthreads + 1 if nthreads >= 2 else 17, 1))]
        for d in (1, 2, 3):
            mk = lambda n, b: rng.standard_normal((d,) * n + b)
            quick = tier == "quick"
            # ---- unary routines without a batch axis (det / inv / cof need one: they raise, loud)
            A = well_conditioned(rng, d, ())
            S = well_conditioned(rng, d, (), sym=True)
            fm.dev(A)
            fm.sym(A)
            fm.trace(A)
            fm.transpose(A)
            fm.tovoigt(A)
            fm.tovoigt(S, strain=True)
            fm.equivalent_von_mises(S)
            fm.identity(A)
            fm.eigh(S)
            fm.eig(A)
            fm.eigvals(A)
            fm.eigvalsh(S)
            if d > 1:
                fm.strain(None, C=fm.dot(fm.transpose(A), A), k=0)
                fm.strain(None, C=fm.dot(fm.transpose(A), A), k=2, tensor=False)
            # ---- binary routines
            # (quick tier, d < 3: no batch axis, one three-axes pair and the long batches with a broadcast operand)
            for ba, bb in (pairs if not (quick and d < 3) else [pairs[0], pairs[d], pairs[3 + d], pairs[6]]):
                bs = np.broadcast_shapes(ba, bb)
                for par in (False, True):
                    for (la, lb) in MM.DOT:
                        fm.dot(mk(la, ba), mk(lb, bb), mode=(la, lb), parallel=par)
                        if len(ba) == 1:
                            fm.dot(mk(la, ba), mk(lb, bb), mode=(la, lb), parallel=par, out=np.full((d,) * NRES_DOT[(la, lb)] + bs, 5.0))
                    for (la, lb) in MM.DDOT:
                        fm.ddot(mk(la, ba), mk(lb, bb), mode=(la, lb), parallel=par)
                        if len(ba) == 1:
                            fm.ddot(mk(la, ba), mk(lb, bb), mode=(la, lb), parallel=par, out=np.full((d,) * (la + lb - 4) + bs, 5.0))
                    fm.dddot(mk(3, ba), mk(3, bb), parallel=par)
                    A, B = mk(2, ba), mk(2, bb)
                    fm.cdya_ik(A, B, parallel=par)
                    fm.cdya_il(A, B, parallel=par)
                    fm.cdya(A, B, parallel=par)
                    if len(ba) == 1:
                        fm.cdya(A, B, parallel=par, out=np.full((d,) * 4 + bs, 3.0))
                        fm.cdya_ik(A, B, parallel=par, out=np.full((d,) * 4 + bs, 3.0))
                fm.dya(mk(2, ba), mk(2, bb))
                fm.dya(mk(1, ba), mk(1, bb), mode=1)
                fm.majortranspose(mk(4, ba))
                fm.transpose(mk(4, ba), mode=2)
                if d == 3:
                    fm.cross(mk(1, ba), mk(1, bb))
                if d > 1:
                    vec = rng.standard_normal((2, d) + ba)
                    fm.inplane(mk(2, ba), vec)
                    fm.inplane(mk(2, ba), [vec[0], vec[1]])  # documented type: list of ndarray
                    fm.inplane(mk(2, ba), vec, out=np.full((2, 2) + ba, np.nan))  # keyword arguments go to einsum
            # ---- float32 and integer operands (the results are exact in integer arithmetic)
            for ba, bb in [((3, 5), (3, 5)), ((3, 1), (1, 5))][slice(d % 2, d % 2 + 1) if quick else slice(None)]:
                mk32 = lambda n, b: rng.standard_normal((d,) * n + b).astype(np.float32)
                mki = lambda n, b: rng.integers(-5, 6, (d,) * n + b)
                for make in (mk32, mki):
                    for par in (False, True):
                        for (la, lb) in MM.DOT:
                            fm.dot(make(la, ba), make(lb, bb), mode=(la, lb), parallel=par)
                        for (la, lb) in MM.DDOT:
                            fm.ddot(make(la, ba), make(lb, bb), mode=(la, lb), parallel=par)
                        fm.dddot(make(3, ba), make(3, bb), parallel=par)
                        fm.cdya_ik(make(2, ba), make(2, bb), parallel=par)
                        fm.cdya_il(make(2, ba), make(2, bb), parallel=par)
                    fm.dya(make(2, ba), make(2, bb))
                    fm.dya(make(1, ba), make(1, bb), mode=1)
                    if d == 3:
                        fm.cross(make(1, ba), make(1, bb))
                fm.dot(mk32(2, ba), mk(2, bb))  # mixed precision
                fm.det(mki(2, ba))
                fm.trace(mki(2, ba))
                fm.transpose(mki(2, ba))
            # ---- batched linear solves: the remaining documented inputs
            for batch in [(), (5,), (3, 5), (2, 3, 4)]:
                one = (1,) * len(batch)
                A2 = np.eye(d).reshape((d, d) + one) + 0.1 * mk(2, batch)
                fm.solve_nd(A2, mk(1, batch), n=1)
                A4 = np.einsum("ik,jl->ijkl", np.eye(d), np.eye(d)).reshape((d,) * 4 + one) + 0.1 * mk(4, batch)
                fm.solve_2d(A4, mk(2, batch))
                # n = 0 ("greater or equal zero"): one scalar equation per batch item
                # (without any batch axis the call raises: loud)
                if batch:
                    fm.solve_nd(1.0 + 0.1 * mk(0, batch), mk(0, batch), n=0)
                if d > 1:
                    # right-hand sides with size-one tensor axes (the same value for every component)
                    fm.solve_nd(A2, rng.standard_normal((1,) + batch), n=1)
                    fm.solve_2d(A4, rng.standard_normal((d, 1) + batch))
                    fm.solve_2d(A4, rng.standard_normal((1, 1) + batch))
            # ---- operands of different tensor dimension (documented for the dyadic products)
            m = {1: 3, 2: 3, 3: 2}[d]
            for ba, bb in [((3, 5), (3, 5)), ((3, 1), (1, 5)), ((), ())]:
                fm.dya(rng.standard_normal((d, d) + ba), rng.standard_normal((m, m) + bb))
                fm.dya(rng.standard_normal((d,) + ba), rng.standard_normal((m,) + bb), mode=1)
                for par in (False, True):
                    fm.cdya_ik(rng.standard_normal((d, m) + ba), rng.standard_normal((d, m) + bb), parallel=par)
                    fm.cdya_il(rng.standard_normal((d, m) + ba), rng.standard_normal((d, m) + bb), parallel=par)
            # ---- strain: special spectra, small strains, own strain-stretch relation, one dimension
            for batch in [(3, 5), (1, 1), (7,)][slice(d % 3, d % 3 + 1) if quick else slice(None)]:
                one = (1,) * len(batch)
                Cs = []
                Cs.append(("identity", np.broadcast_to(np.eye(d).reshape((d, d) + one), (d, d) + batch).copy()))
                lam = rng.uniform(0.6, 1.8, batch)
                if d > 1:
                    # uniaxial tension along the first axis and the same state in a rotated frame (two equal stretches)
                    U = np.zeros((d, d) + batch)
                    U[0, 0] = lam ** 2
                    for i in range(1, d):
                        U[i, i] = lam ** (-2.0 / (d - 1))
                    Cs.append(("uniaxial", U))
                    Q = np.zeros((d, d) + batch)
                    for idx in np.ndindex(*batch):
                        Q[(slice(None), slice(None)) + idx] = np.linalg.qr(rng.standard_normal((d, d)))[0]
                    Cs.append(("uniaxial-rotated", np.einsum("ia...,ab...,jb...->ij...", Q, U, Q)))
                # small strains (|E| = 1e-5: the strain measures differ by 1e-10 there)
                Fs = np.eye(d).reshape((d, d) + one) + 1e-5 * rng.standard_normal((d, d) + batch)
                Cs.append(("small", np.einsum("ki...,kj...->ij...", Fs, Fs)))
                Fg = well_conditioned(rng, d, batch)
                Cs.append(("generic", np.einsum("ki...,kj...->ij...", Fg, Fg)))
                for name, C in Cs:
                    for k in (0, 2, 1, -1):
                        fm.strain(None, C=C, k=k)
                        fm.strain(None, C=C, k=k, tensor=False)
                        fm.strain(None, C=C, k=k, asvoigt=True)
                    # the documented customisation (Biot strain), extra keyword arguments are handed to fun
                    fm.strain(None, C=C, fun=lambda stretch, shift: stretch - shift, shift=1.0)
                    fm.strain(None, C=C, fun=lambda stretch, shift: stretch - shift, shift=1.0, tensor=False)
                    fm.strain(None, C=C, fun=lambda stretch, shift: stretch - shift, shift=1.0, asvoigt=True)
        # ---- step sequences with empty segments (documented: num may be zero)
        fm.linsteps([0, 1], num=0)
        fm.linsteps([0, 1], num=0, endpoint=False)
        fm.linsteps([0, 1, 3], num=[0, 3])
        fm.linsteps([0, 1, 3], num=[2, 0])
        fm.linsteps([0, 1, 3, 2], num=[2, 0, 3], axis=1, axes=2)
    finally:
        sys.setswitchinterval(old)


def _quad_F(field, region, mesh):
    """Displacement gradient at the quadrature points from the definition: sum over the points a of a cell,
    u_(a i) dh_a/dX_J (explicit loops over cells and quadrature points, nothing of the field's own methods)."""
    vals = np.asarray(field.values)
    dhdX = np.asarray(region.dhdX)
    nq, nc = dhdX.shape[-2:]
    H = np.zeros((vals.shape[1], dhdX.shape[1], nq, nc))
    for c in range(nc):
        uc = vals[mesh.cells[c]]
        for q in range(nq):
            H[:, :, q, c] = uc.T @ dhdX[:, :, q, c]
    return H


def drive_fields(run, rng, tier):
    """The field-level functions of ``felupe.math`` (kinematic quantities of the n-th field of a container):
    ``displacement(dim, n)``, ``deformation_gradient(n)``, ``right_cauchy_green_deformation(n)``, ``strain(n, tensor,
    asvoigt)`` on 3D, 2D, plane-strain and axisymmetric fields; reference: explicit loops over cells and quadrature
    points with the values of exactly the field named by ``n``."""
    import felupe as fem
    import felupe.math as fm
    from ..util import maxabs

    def bodies():
        m3 = fem.Cube(n=3)
        m2 = fem.Rectangle(a=(0, 1), b=(1, 2), n=3)  # radial coordinate 1..2 for the axisymmetric field
        for m in (m3, m2):
            # (distorted cells, in units of the cell size 0.5)
            m.points[:] = m.points + 0.04 * rng.uniform(-1, 1, m.points.shape)
        r3, r2 = fem.RegionHexahedron(m3), fem.RegionQuad(m2)
        yield "3d", m3, r3, [fem.Field(r3, dim=3), fem.Field(r3, dim=3)]
        yield "2d", m2, r2, [fem.Field(r2, dim=2), fem.Field(r2, dim=2)]
        yield "planestrain", m2, r2, [fem.FieldPlaneStrain(r2, dim=2), fem.FieldPlaneStrain(r2, dim=2)]
        yield "axisymmetric", m2, r2, [fem.FieldAxisymmetric(r2, dim=2), fem.FieldAxisymmetric(r2, dim=2)]

    voigt = {2: [(0, 0), (1, 1), (0, 1)], 3: [(0, 0), (1, 1), (2, 2), (0, 1), (1, 2), (0, 2)]}
    for kind, mesh, reg, fields in bodies():
        cont = fem.FieldContainer(fields)
        for f in fields:
            f.values[:] = 0.1 * rng.standard_normal(f.values.shape)
        for n_ in (0, 1):
            mon, unit = "math.field-functions", "math:field-functions[%s,n=%d]" % (kind, n_)

            def judge(what, got, ref, tol=1e-12, unit=unit):
                got = np.asarray(got)
                if got.shape != ref.shape:
                    run.fail(mon, "routine=%s[%s] clause=shape" % (what, kind), "%s(n=%d) on a %s container: shape %s, expected %s"
                             % (what, n_, kind, got.shape, ref.shape), unit=unit)
                    return
                run.compare(mon, "routine=%s[%s] clause=value" % (what, kind), maxabs(got - ref), tol,
                            "%s(n=%d) is not that quantity of field %d of the %s container" % (what, n_, n_, kind), unit=unit,
                            config=("field-functions", what, kind, n_))
            # (fourth audit: field n is entry n of the caller's own list, not what the container's accessor returns)
            vals = np.array(fields[n_].values, dtype=float)
            # displacement: the point values of field n, padded with zeros to dim columns
            for dim in (3,) if vals.shape[1] == 3 else (2, 3):
                ref = np.zeros((vals.shape[0], dim))
                ref[:, :vals.shape[1]] = vals
                judge("displacement(dim=%d)" % dim, fm.displacement(cont, dim=dim, n=n_), ref, tol=0.0)
            judge("displacement()", fm.displacement(cont, n=n_), np.pad(vals, ((0, 0), (0, 3 - vals.shape[1]))), tol=0.0)
            # deformation gradient F = 1 + du/dX; plane strain: padded to 3x3 with F33 = 1; axisymmetric: F33 = 1 + u_r / R
            H = _quad_F(fields[n_], reg, mesh)
            if kind in ("planestrain", "axisymmetric"):
                H = np.pad(H, ((0, 1), (0, 1), (0, 0), (0, 0)))
            if kind == "axisymmetric":
                # radius and radial displacement at the quadrature points: interpolated with the bilinear shape functions in closed
                # form, h_a = (1 + xi xi_a) (1 + eta eta_a) / 4, at the 2 x 2 Gauss points (+-1/sqrt(3), counter-clockwise like the
                # corners) - not with the region's own ``h``, which is what FieldAxisymmetric computes its radius with (fourth audit)
                corners = np.array([[-1.0, -1.0], [1.0, -1.0], [1.0, 1.0], [-1.0, 1.0]])
                h = np.array([[(1 + g[0] * ca[0]) * (1 + g[1] * ca[1]) / 4 for g in corners / np.sqrt(3)] for ca in corners])  # (a, q)
                # (the order of the quadrature points is a convention of the scheme: the same closed form must reproduce the
                # gradients taken as given (C06); otherwise the points are numbered differently and F33 cannot be placed)
                dh = np.array([[[ca[0] * (1 + g[1] * ca[1]) / 4, ca[1] * (1 + g[0] * ca[0]) / 4] for g in corners / np.sqrt(3)] for ca in corners])  # (a, q, J)
                own = np.zeros((4, 2, 4, mesh.ncells))
                for c in range(mesh.ncells):
                    Xc = np.asarray(mesh.points)[mesh.cells[c]]
                    for q in range(4):
                        own[:, :, q, c] = dh[:, q, :] @ np.linalg.inv(Xc.T @ dh[:, q, :])
                if own.shape != np.shape(reg.dhdX) or maxabs(own - np.asarray(reg.dhdX)) > 1e-10 * maxabs(own):
                    run.skip(mon, "axisymmetric: quadrature points of the region are not the 2 x 2 Gauss points in corner order")
                    continue
                for c in range(H.shape[-1]):
                    for q in range(H.shape[-2]):
                        R = sum(mesh.points[mesh.cells[c, a], 1] * h[a, q] for a in range(4))
                        ur = sum(vals[mesh.cells[c, a], 1] * h[a, q] for a in range(4))
                        H[2, 2, q, c] = ur / R
            dF = H.shape[0]
            F = H + np.eye(dF).reshape(dF, dF, 1, 1)
            C = np.einsum("kiqc,kjqc->ijqc", F, F)
            judge("deformation_gradient", fm.deformation_gradient(cont, n=n_), F)
            judge("right_cauchy_green_deformation", fm.right_cauchy_green_deformation(cont, n=n_), C)
            w, N = np.linalg.eigh(np.moveaxis(C, (0, 1), (-2, -1)))
            for k_, f_ in ((0, lambda lam2: np.log(lam2) / 2), (2, lambda lam2: (lam2 - 1) / 2), (1, lambda lam2: np.sqrt(lam2) - 1)):
                E = np.moveaxis(np.einsum("...a,...ia,...ja->...ij", f_(w), N, N), (-2, -1), (0, 1))
                judge("strain(k=%d)" % k_, fm.strain(cont, k=k_, n=n_), E)
                judge("strain(k=%d,tensor=False)" % k_, fm.strain(cont, k=k_, n=n_, tensor=False), np.moveaxis(f_(w), -1, 0))
                Ev = np.array([E[i, j] * (1.0 if i == j else 2.0) for i, j in voigt[dF]])
                judge("strain(k=%d,asvoigt=True)" % k_, fm.strain(cont, k=k_, n=n_, asvoigt=True), Ev)
            judge("evaluate.log_strain(tensor=False)", cont.evaluate.log_strain(n=n_, tensor=False), np.moveaxis(np.log(w) / 2, -1, 0))
            # the same arguments by position (dim, n resp. n)
            judge("displacement(cont, 3, n)", fm.displacement(cont, 3, n_), np.pad(vals, ((0, 0), (0, 3 - vals.shape[1]))), tol=0.0)
            judge("deformation_gradient(cont, n)", fm.deformation_gradient(cont, n_), F)
            judge("right_cauchy_green_deformation(cont, n)", fm.right_cauchy_green_deformation(cont, n_), C)
            if n_ == 0:
                # every optional argument left out: the documented defaults are three columns, the first field, the logarithmic
                # strain tensor in full storage (both fields hold different values)
                udef = "math:field-functions[%s,defaults]" % kind
                judge("displacement(cont)", fm.displacement(cont), np.pad(vals, ((0, 0), (0, 3 - vals.shape[1]))), tol=0.0, unit=udef)
                judge("deformation_gradient(cont)", fm.deformation_gradient(cont), F, unit=udef)
                judge("right_cauchy_green_deformation(cont)", fm.right_cauchy_green_deformation(cont), C, unit=udef)
                Elog = np.moveaxis(np.einsum("...a,...ia,...ja->...ij", np.log(w) / 2, N, N), (-2, -1), (0, 1))
                judge("strain(cont)", fm.strain(cont), Elog, unit=udef)
                judge("evaluate.strain()", cont.evaluate.strain(), Elog, unit=udef)
                judge("evaluate.log_strain()", cont.evaluate.log_strain(), Elog, unit=udef)
                judge("evaluate.green_lagrange_strain()", cont.evaluate.green_lagrange_strain(), (C - np.eye(dF).reshape(dF, dF, 1, 1)) / 2, unit=udef)


def make_case(name, drive):
    def fn(run):
        rng = rng_for(run.seed, "C17", name)
        MM.install(run)
        try:
            reps = 1 if run.tier == "quick" else 6
            for _ in range(reps):
                drive(run, rng, run.tier)
        finally:
            attach.detach_all()
    return fn


def cases(tier, seed):
    # (order = distribution over the shards, case k runs in shard k mod jobs: the long "binary" case runs alone)
    return [("unary", make_case("unary", drive_unary)), ("misc", make_case("misc", drive_misc)),
            ("binary", make_case("binary", drive_binary)), ("flags", make_case("flags", drive_flags)),
            ("shapes", make_case("shapes", drive_shapes)), ("fields", make_case("fields", drive_fields))]


def _required():
    req = []
    for d in (1, 2, 3):
        req += ["math:det[%dd]" % d, "math:inv[%dd,default]" % d, "math:inv[%dd,determinant]" % d,
                "math:inv[%dd,default+sym]" % d, "math:cof[%dd]" % d, "math:cof[%dd,sym]" % d, "math:dev[%dd]" % d,
                "math:sym[%dd]" % d, "math:trace[%dd]" % d, "math:tovoigt[%dd,strain=True]" % d,
                "math:tovoigt[%dd,strain=False]" % d, "math:equivalent_von_mises[%dd]" % d]
    req += ["math:inv[full_output]", "math:det:out", "math:inv:out", "math:dev:out", "math:sym:out", "math:dot:out",
            "math:cdya:out", "math:det:inputs", "math:inv:inputs", "math:dot:inputs"]
    for m in MM.DOT:
        for p in (False, True):
            req.append("math:dot[mode=%s,parallel=%s]" % (m, p))
    for m in MM.DDOT:
        for p in (False, True):
            req.append("math:ddot[mode=%s,parallel=%s]" % (m, p))
    for p in (False, True):
        req += ["math:dddot[mode=(3, 3),parallel=%s]" % p, "math:cdya_ik[parallel=%s]" % p,
                "math:cdya_il[parallel=%s]" % p, "math:cdya[parallel=%s]" % p]
    req += ["math:dya[mode=1]", "math:dya[mode=2]", "math:transpose[mode=1]", "math:transpose[mode=2]",
            "math:majortranspose", "math:cross", "math:eigh", "math:eigh[UPLO=L,triangular-storage]", "math:eigh[UPLO=U,triangular-storage]", "math:eig", "math:eig:complete", "math:eigvals", "math:eigvals[shear=True]", "math:strain-of-field[n=0]", "math:strain-of-field[n=1]", "math:eigvalsh[shear=False]",
            "math:eigvalsh[shear=True]", "math:inplane", "math:identity", "math:reshape", "math:ravel",
            "math:solve_nd[n=1]", "math:solve_nd[n=2]", "math:rotation_matrix[dim=2,axis=-]",
            "math:rotation_matrix[dim=3,axis=0]", "math:rotation_matrix[dim=3,axis=1]",
            "math:rotation_matrix[dim=3,axis=2]", "math:strain_stretch_1d[k=0]", "math:strain_stretch_1d[k!=0]",
            "math:strain[tensor=True,asvoigt=False,k=0]", "math:strain[tensor=True,asvoigt=False,k=2]",
            "math:strain[tensor=False,asvoigt=False,k=0]", "math:strain[tensor=True,asvoigt=True,k=0]", "math:linsteps"]
    # third audit: buffers holding NaN / inf before the call, buffers aliasing an input, further flag combinations
    for r in ("det", "inv", "cof", "dev", "sym", "trace", "dot", "ddot", "dddot", "dya", "cdya", "cdya_ik", "cdya_il"):
        req += ["math:%s:out[nan]" % r, "math:%s:out[inf]" % r]
    req += ["math:sym:out[aliased]", "math:dev:out[aliased]", "math:dot:out[aliased]", "math:trace:out", "math:cof:out",
            "math:dya:out", "math:inv[full_output+determinant]", "math:inv[full_output+sym]", "math:inv[full_output+out]",
            "math:identity[A]", "math:identity[A+dim]", "math:identity[A+shape]", "math:identity[A+dtype]",
            "math:identity[dim+shape+dtype]", "math:identity:dtype", "math:tovoigt[2d,nonsymmetric]", "math:tovoigt[3d,nonsymmetric]",
            "math:inplane[vectors=list]", "math:solve_nd[n=0]", "math:solve_nd[broadcast tensor axes]",
            "math:solve_nd[batch rank 0]", "math:solve_nd[batch rank 1]", "math:solve_nd[batch rank 2]", "math:solve_nd[batch rank 3]",
            "math:strain[repeated stretches]", "math:strain[small strains]:tight",
            "math:strain[tensor=True,asvoigt=False,fun=custom]", "math:strain[tensor=False,asvoigt=False,fun=custom]",
            "math:strain[tensor=True,asvoigt=True,fun=custom]"]
    # threaded evaluations with more items than workers (needs a pool of at least two workers, like every parallel=True unit)
    req += ["math:%s[parallel=True,chunks>1]" % r for r in ("dot", "ddot", "dddot", "cdya", "cdya_ik", "cdya_il")]
    for kind in ("3d", "2d", "planestrain", "axisymmetric"):
        req += ["math:field-functions[%s,n=%d]" % (kind, n) for n in (0, 1)]
    # fourth audit: calls that leave every optional argument out, judged with the documented defaults (the monitor's own table)
    req += ["math:%s[defaults]" % r for r in ("inv", "cof", "transpose", "dya", "cdya", "cdya_ik", "cdya_il", "dot", "ddot", "dddot",
                                              "eig", "eigh", "eigvals", "eigvalsh", "tovoigt", "reshape", "ravel", "solve_nd",
                                              "rotation_matrix", "linsteps", "strain_stretch_1d")]
    req += ["math:strain[C,defaults]", "math:linsteps[endpoint=default]", "math:linsteps[values=default]", "math:strain-of-field[defaults]"]
    req += ["math:field-functions[%s,defaults]" % kind for kind in ("3d", "2d", "planestrain", "axisymmetric")]
    return req


SPEC = {
    "required_units": _required(),
    "rule": ("every public routine/mode/flag of felupe.math is driven with seeded well-conditioned inputs (cond < 50) for "
             "dims 1..3, batch shapes (1,1),(3,5),(3,1),(1,5),(7,),(2,3,4),(40,30) incl. mixed broadcast between operands, "
             "float64 and float32, out = None/fresh/reused, parallel on/off with switch interval 1e-6; a configuration is "
             "distinct by (routine, mode/flags, dim) and non-trivial when a per-item numpy reference was compared; "
             "further cases: buffers holding NaN/inf or aliasing an input, no / three batch axes, float32 / integer operands and "
             "mixed tensor dimensions for the binary routines, batches longer than the einsumt pool (recorded as einsumt_workers; "
             "with a single worker the parallel=True units are not reached), special spectra and own strain-stretch relations for "
             "strain, field-level functions on 3D / 2D / plane-strain / axisymmetric two-field containers; every routine with "
             "optional flags is also called with all of them left out and with the flags passed by position: the reference takes a "
             "flag from the call, else from the documented default (table DOC of the monitor), never from the signature under test; "
             "the n-th field of a container is entry n of the list the check built the container from"),
    "assumptions": ["numpy.linalg and explicit numpy.einsum per batch item are the reference",
                    "tolerance 1e3*eps(dtype)*scale (times cond for inverses)",
                    "field-level functions: the region's shape-function gradients (judged by C06) are taken as given; the "
                    "axisymmetric radius is interpolated with the bilinear shape functions in closed form at own Gauss points",
                    "documented defaults as stated in the docstrings of the pinned tree"],
    "jobs": {"quick": 4, "thorough": 5},
}
