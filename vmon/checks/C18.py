"""C18 - modal analysis returns genuine eigenpairs of the constrained K/M pencil.

Post-condition monitor on FreeVibration.evaluate / extract: K and M are re-assembled from deep copies of the items
(sum of multiplier * matrix, sum of mass), the free unknowns are recomputed with the numbering model of C08, and every
returned pair must satisfy K v = lambda M v there.  The workload adds rigid-mode counts and rigid-motion invariance.

Everything the reference is built from is taken *before* the call (matrices, item copies with their densities, the boundary
dictionary with its masks and the prescribed unknowns); the mass matrix is judged against references that do not use the
regions' quadrature (documented default rules re-built from numpy's Gauss-Legendre points and own Jacobians, closed forms for
the simplices); completeness of the spectrum is judged with a dense solve, for singular mass blocks (mixed containers,
under-integrated simplex mass matrices under point supports) through the symmetric inverse problem.
"""
import copy
import itertools
import math

import numpy as np

from .. import attach, gen, problems
from ..util import maxabs, random_rotation, rng_for
from .C08 import Model


def embed(A, n):
    """The item's matrix in the numbering of the global container: an item on a smaller container (a displacement-only body
    next to a u/p/J body) owns the leading unknowns, the other rows and columns are zero.  Built from the triplets, not with
    the in-place ``resize`` the library uses."""
    import scipy.sparse as sp
    A = sp.coo_matrix(A)
    if A.shape[0] > n or A.shape[1] > n:
        raise ValueError("item matrix larger than the global system")
    return sp.csr_matrix((A.data, (A.row, A.col)), shape=(n, n))


def requested(it, name):
    """The value the caller asked for: the constructor argument recorded by the constructor hook (``multiplier=``, ``density=``; the
    documented default None if the caller left it out; the workload keeps the record up to date where it changes an item later),
    not the attribute the analysis reads itself (fourth audit: an item that drops its multiplier was mirrored).  Items built
    before the hooks were attached (ride-along) carry no record: their attributes are all there is."""
    rec = getattr(it, "_vmon_requested", None)
    if rec is not None and name in rec:
        return rec[name]
    return getattr(it.assemble, "multiplier", None) if name == "multiplier" else getattr(it, name, None)


def set_density(it, rho):
    """The workload changes the density of an existing item (attribute assignment) and keeps the record of what it asked for."""
    it.density = rho
    if getattr(it, "_vmon_requested", None) is not None:
        it._vmon_requested["density"] = rho


def reassemble(items, x, copies=False):
    n = int(np.sum(x.fieldsizes))
    import scipy.sparse as sp
    K = sp.csr_matrix((n, n))
    M = sp.csr_matrix((n, n))
    its, xc = copy.deepcopy((items, x))
    for it in its:
        it.field.link(xc)
        Ki = it.assemble.matrix()
        Mi = it.assemble.mass()
        mult = requested(it, "multiplier")
        if mult is not None:
            Ki = Ki * mult
        K = K + embed(Ki, n)
        M = M + embed(Mi, n)
    return (K, M, its) if copies else (K, M)


def own_mass(items, x):
    """rho * int h_a h_b dV delta_ij from the regions' shape functions and differential volumes; None if an item is no plain
    solid body on a Cartesian displacement field."""
    import scipy.sparse as sp
    n = int(np.sum(x.fieldsizes))
    M = sp.csr_matrix((n, n))
    for it in items:
        f0 = it.field[0]
        rho = requested(it, "density")
        if type(f0).__name__ not in ("Field", "FieldPlaneStrain") or rho is None:
            return None
        reg = f0.region
        cells = reg.mesh.cells
        nq, nc = reg.dV.shape
        h = np.broadcast_to(reg.h, (reg.h.shape[0], nq, nc))
        m = float(rho) * np.einsum("aqc,bqc,qc->cab", h, h, reg.dV)
        d = f0.dim
        rows = np.repeat(cells[:, :, None], cells.shape[1], axis=2)
        cols = np.repeat(cells[:, None, :], cells.shape[1], axis=1)
        for i in range(d):
            M = M + sp.csr_matrix((m.ravel(), (d * rows.ravel() + i, d * cols.ravel() + i)), shape=(n, n))
    return M


# points per axis of the documented default rule of the tensor-product templates (``quadrature=GaussLegendre(order=n)`` in the
# constructor signature is the (n + 1)-point Gauss-Legendre rule per axis, which is unique)
GAUSS_POINTS = {"RegionQuad": 2, "RegionQuadraticQuad": 3, "RegionBiQuadraticQuad": 3, "RegionHexahedron": 2, "RegionQuadraticHexahedron": 3,
                "RegionTriQuadraticHexahedron": 3}
# int h_a dV / V of the straight-sided quadratic simplices (vertices first, then the mid-edge nodes of the listed edges)
SIMPLEX_LUMPED = {"RegionQuadraticTriangle": ([0.0] * 3 + [1 / 3] * 3, [(0, 1), (1, 2), (2, 0)]),
                  "RegionQuadraticTetra": ([-1 / 20] * 4 + [1 / 5] * 6, [(0, 1), (1, 2), (2, 0), (0, 3), (1, 3), (2, 3)])}


# number of quadrature points of the documented default rule of the other templates (constructor signatures: the one-point rule
# ``order=1`` of the linear simplices; ``order=2`` of the MINI and the quadratic simplices: three points on the triangle, four in
# the tetrahedron, as the quadrature classes document)
SIMPLEX_POINTS = {"RegionTriangle": 1, "RegionTetra": 1, "RegionTriangleMINI": 3, "RegionTetraMINI": 4, "RegionQuadraticTriangle": 3,
                  "RegionQuadraticTetra": 4}
# reference nodes of the bi- / tri-linear templates (documented numbering: counter-clockwise bottom face, then the top face)
Q1_NODES = {2: np.array([[-1, -1], [1, -1], [1, 1], [-1, 1]], float),
            3: np.array([[-1, -1, -1], [1, -1, -1], [1, 1, -1], [-1, 1, -1], [-1, -1, 1], [1, -1, 1], [1, 1, 1], [-1, 1, 1]], float)}


class RuleMismatch(Exception):
    """A region built with the defaults of its template carries another number of quadrature points than the documented rule."""


def own_shape(name, nodes):
    """Own shape functions of a nodal template: the basis of the template's polynomial space (tensor-product monomials
    r^i s^j t^k up to the order of the element; serendipity: at most one exponent equal to two) that is one at its own node and
    zero at the others (inverse of the Vandermonde matrix at the reference nodes).  Returns ``f(xi) -> (h, dhdxi)``.  For the
    bi- / tri-linear templates this is prod_i (1 + xi_i xi_ai) / 2^d written in closed form."""
    nodes = np.asarray(nodes, float)
    d = nodes.shape[1]
    if len(nodes) == 2 ** d:
        def linear(xi):
            f = 1.0 + nodes * np.asarray(xi, float)[None]
            h = np.prod(f, axis=1) / 2 ** d
            dh = np.stack([nodes[:, j] * np.prod(np.delete(f, j, axis=1), axis=1) for j in range(d)], axis=1) / 2 ** d
            return h, dh
        return linear
    if name in ("RegionQuadraticQuad", "RegionQuadraticHexahedron"):
        ex = [e for e in itertools.product(range(3), repeat=d) if sum(1 for k in e if k == 2) <= 1]
    else:
        ex = list(itertools.product(range(int(round(len(nodes) ** (1.0 / d)))), repeat=d))
    ex = np.array(ex)
    if len(ex) != len(nodes):
        raise ValueError("no polynomial space for %s with %d nodes" % (name, len(nodes)))
    C = np.linalg.inv(np.prod(nodes[:, None, :] ** ex[None], axis=2))  # C[m, a]: coefficient of monomial m in h_a

    def general(xi):
        xi = np.asarray(xi, float)
        h = C.T @ np.prod(xi[None] ** ex, axis=1)
        dh = np.zeros((len(nodes), d))
        for j in range(d):
            e = ex.copy()
            e[:, j] = np.maximum(e[:, j] - 1, 0)
            dh[:, j] = C.T @ (ex[:, j] * np.prod(xi[None] ** e, axis=1))
        return h, dh
    return general


def cell_mass(reg):
    """Unit-density cell mass data that do not use the region's quadrature (``h``, ``dV``): ``(m, l, bubble)`` with
    ``m[c, a, b]`` the cell matrices by the template's documented default rule (own Gauss-Legendre tensor rule with own
    Jacobians; the one-point centroid rule of the linear simplices in closed form, V / (d + 1)^2) or None where the simplex
    rule of the template is not unique, ``l[c, a] = int h_a dV`` (exact for every rule that integrates the shape functions
    themselves: closed forms of the straight-sided simplices) and the local index of a bubble unknown (MINI).  None if the
    region is no known template, carries another rule than its default, or has curved simplex cells.  The shape functions
    are own ones as well (``own_shape``: the element's ``function`` / ``gradient`` are what the assembled matrix is made of; only
    the reference nodes of the higher-order templates are taken from the element, those of the linear ones from the documented
    numbering).  A region that was built with the default rule of its template (recorded by the constructor hook) and carries
    another number of points than the documented rule raises RuleMismatch: that is the defect, not a reason to skip."""
    name = type(reg).__name__
    cells = np.asarray(reg.mesh.cells)
    X = np.asarray(reg.mesh.points, float)[cells]
    d = X.shape[2]
    nq = reg.dV.shape[0]
    default = bool(getattr(reg, "_vmon_default_rule", False))
    if name in GAUSS_POINTS or name == "RegionLagrange":
        npt = GAUSS_POINTS.get(name) or int(round(cells.shape[1] ** (1.0 / d)))  # RegionLagrange(order): order + 1 nodes and points per axis
        if nq != npt ** d:
            if default:
                raise RuleMismatch("%s built with its default rule carries %d quadrature points, the documented rule has %d" % (name, nq, npt ** d))
            return None
        x1, w1 = np.polynomial.legendre.leggauss(npt)
        shape = own_shape(name, Q1_NODES[d] if cells.shape[1] == 2 ** d else reg.element.points)
        m = np.zeros((len(cells), cells.shape[1], cells.shape[1]))
        for idx in itertools.product(range(npt), repeat=d):
            xi = x1[list(idx)]
            h, dh = shape(xi)
            J = np.einsum("cai,aj->cij", X, dh)
            m += float(np.prod(w1[list(idx)])) * np.linalg.det(J)[:, None, None] * np.outer(h, h)[None]
        return m, m.sum(2), None
    nv = d + 1
    if default and name in SIMPLEX_POINTS and nq != SIMPLEX_POINTS[name]:
        raise RuleMismatch("%s built with its default rule carries %d quadrature points, the documented rule has %d" % (name, nq, SIMPLEX_POINTS[name]))
    if name in ("RegionTriangle", "RegionTetra", "RegionTriangleMINI", "RegionTetraMINI") or name in SIMPLEX_LUMPED:
        V = np.linalg.det(X[:, 1:nv] - X[:, :1]) / math.factorial(d)
        if name in ("RegionTriangle", "RegionTetra"):
            if nq != 1 or cells.shape[1] != nv:
                return None
            m = V[:, None, None] * np.ones((1, nv, nv)) / nv ** 2
            return m, m.sum(2), None
        if name in SIMPLEX_LUMPED:
            c, edges = SIMPLEX_LUMPED[name]
            if cells.shape[1] != len(c):
                return None
            size = np.abs(X[:, 1:nv] - X[:, :1]).max()
            for k, (a, b) in enumerate(edges):
                if np.abs(X[:, nv + k] - 0.5 * (X[:, a] + X[:, b])).max() > 1e-10 * size:
                    return None
            return None, V[:, None] * np.array(c)[None], None
        if cells.shape[1] != nv + 1:
            return None
        # MINI: the vertex functions are the linear ones (the bubble is an additional amplitude): rows of the vertices, summed
        # over the vertex columns
        return None, V[:, None] * np.array([1.0 / nv] * nv + [0.0])[None], nv
    return None


def rule_mass(items, x, density=None):
    """Independent reference of the assembled mass matrix: ``(Mref or None, l, t, rows)``: the matrix by the documented default
    rules where these are unique, the lumped masses ``l = M t`` for the unit translation amplitudes ``t`` (bubble unknowns 0)
    on the judged ``rows``.  None if an item is no plain solid body on a Cartesian displacement field of a known template."""
    import scipy.sparse as sp
    n = int(np.sum(x.fieldsizes))
    Mref = sp.csr_matrix((n, n))
    full = True
    l = np.zeros(n)
    t = np.zeros(n)
    rows = np.zeros(n, bool)
    for k, it in enumerate(items):
        f0 = it.field[0]
        rho = requested(it, "density") if density is None else density[k]
        if type(f0).__name__ not in ("Field", "FieldPlaneStrain") or rho is None:
            return None
        data = cell_mass(f0.region)
        if data is None:
            return None
        m, lc, bubble = data
        cells = np.asarray(f0.region.mesh.cells)
        d = f0.dim
        nodes = cells if bubble is None else np.delete(cells, bubble, axis=1)
        for i in range(d):
            np.add.at(l, d * cells + i, float(rho) * lc)
            t[d * nodes.ravel() + i] = 1.0
            rows[d * nodes.ravel() + i] = True
            if m is not None:
                r = np.repeat(cells[:, :, None], cells.shape[1], axis=2)
                c = np.repeat(cells[:, None, :], cells.shape[1], axis=1)
                Mref = Mref + sp.csr_matrix(((float(rho) * m).ravel(), (d * r.ravel() + i, d * c.ravel() + i)), shape=(n, n))
        full = full and m is not None
    return (Mref if full else None), l, t, rows


def judge_mass(run, M, items, x, density=None, what="the assembled mass matrix"):
    """The clauses on a mass matrix against the references that are independent of the regions' quadrature."""
    try:
        ref = rule_mass(items, x, density)
    except RuleMismatch as exc:
        run.fail("modal", "clause=mass-default-rule-points", what + ": " + str(exc) + " (the mass matrix is the one of the template's documented "
                 "default rule)", unit="modal:default-rule-points")
        return
    if ref is None:
        run.skip("modal", "no independent mass reference for this field / region / rule")
        return
    Mref, l, t, rows = ref
    if all(getattr(it.field[0].region, "_vmon_default_rule", False) for it in items):
        run.ok("modal", unit="modal:default-rule-points")
    if Mref is not None:
        run.compare("modal", "clause=mass-matrix-documented-rule", maxabs((M - Mref).toarray()) / max(abs(Mref).max(), 1e-300), 1e-12,
                    what + " is not rho * integral of h_a h_b over the body by the template's documented rule (own quadrature points, weights, "
                    "Jacobians)", unit="modal:mass-independent-rule")
    run.compare("modal", "clause=mass-row-sums", maxabs((M @ t - l)[rows]) / max(maxabs(l), 1e-300), 1e-12,
                what + ": row sums differ from rho * integral of h_a over the body (a rule that integrates the shape functions exactly "
                "gives these, whatever its order)", unit="modal:mass-row-sums")


def inverse_spectrum(K, M, k):
    """The k eigenvalues of smallest magnitude of the symmetric pencil (K, M) with a regular K and a positive semi-definite,
    possibly singular M (mass-less pressure unknowns, under-integrated simplex mass matrices): with M = B B^T the non-zero
    eigenvalues of K^-1 M are those of the symmetric B^T K^-1 B, lambda = 1 / mu.  None if K is (numerically) singular."""
    s = np.linalg.svd(K, compute_uv=False)
    if not s[-1] > 1e-10 * s[0]:
        return None
    wm, U = np.linalg.eigh(0.5 * (M + M.T))
    B = U * np.sqrt(np.clip(wm, 0.0, None))
    C = B.T @ np.linalg.solve(K, B)
    mu = np.linalg.eigvalsh(0.5 * (C + C.T))
    mu = mu[np.argsort(-np.abs(mu))][:k]
    if len(mu) < k or not np.all(np.abs(mu) > 1e-12 * np.abs(mu[0])):
        return None
    return 1.0 / mu


def own_prescribed(points, dim, entries, size):
    """The prescribed unknowns of a displacement field (the first field of its container) from the mesh coordinates and the
    arguments the case hands to ``Boundary``: ``entries`` is a list of ``(planes, mode, skip)`` with ``planes = {axis: value}``
    (``fx=``, ``fy=``, ``fz=``), ``mode`` "or" / "and" and ``skip`` the components that stay free.  Points lie on a plane if their
    coordinate agrees to 1e-8 of the body's size (the faces of the box meshes are exact, interior points are a fraction of a cell
    away)."""
    points = np.asarray(points, float)
    out = np.zeros((len(points), dim), bool)
    for planes, mode, skip in entries:
        on = np.array([np.abs(points[:, a] - v) <= 1e-8 * size for a, v in planes.items()])
        sel = on.all(0) if mode == "and" else on.any(0)
        comp = np.ones(dim, bool) if skip is None else ~np.asarray(skip, bool)[:dim]
        out |= sel[:, None] & comp[None, :]
    return np.flatnonzero(out.ravel())


def expect(job, dof0):
    """Hands the prescribed unknowns the case asked for (``own_prescribed``) to the post-condition of the job's next evaluate()."""
    job._vmon_requested_dof0 = None if dof0 is None else np.asarray(dof0)
    return job


REGION_TEMPLATES = tuple(GAUSS_POINTS) + tuple(SIMPLEX_POINTS) + ("RegionLagrange",)


def attach_hooks(run):
    import felupe as fem
    FV = fem.FreeVibration

    # what the caller asked for, recorded when the objects are built (fourth audit: the reference read the stiffness multiplier
    # and the density back from the item, and skipped the documented-rule reference when a default rule had another point count)
    def post_body(obj, a):
        obj._vmon_requested = {"density": a.documented("density", None)}
        if type(obj).__name__ == "SolidBody":
            obj._vmon_requested["multiplier"] = a.documented("multiplier", None)

    def post_region(obj, a):
        obj._vmon_default_rule = "quadrature" not in a.given or (type(obj).__name__ == "RegionLagrange" and a.get("quadrature") is None)

    for cls in (fem.SolidBody, fem.SolidBodyNearlyIncompressible):
        attach.wrap_init(cls, post_body)
    for name in REGION_TEMPLATES:
        attach.wrap_init(getattr(fem, name), post_region)

    def pre_evaluate(self, args, kwargs):
        # reference matrices from the state *before* the call (evaluate scales the items' matrices in place); the boundary
        # dictionary, its masks and the prescribed unknowns are taken before the call as well: an evaluate() that drops or
        # rewrites entries of ``self.boundaries`` must not define its own reference
        x = kwargs.get("x0", args[0] if args else None) or self.items[0].field
        ctx = {"K": None, "dof0": None, "bounds": None}
        if any(getattr(it, "_vmon_requested", {}).get("multiplier") is not None for it in self.items):
            run.units["modal:multiplier-from-constructor-argument"] += 1
        try:
            ctx["bounds"] = {k: (b, np.array(b.mask, copy=True)) for k, b in self.boundaries.items()}
            ctx["dof0"] = Model(x).dof0(self.boundaries)
        except Exception:
            pass
        try:
            ctx["K"], ctx["M"], ctx["items"] = reassemble(self.items, x, copies=True)
        except Exception:
            pass
        return ctx

    def post_evaluate(self, args, kwargs, ctx, result, exc):
        if exc is not None:
            return
        run.seen("modal")
        x = kwargs.get("x0", args[0] if args else None) or self.items[0].field
        if ctx is None or ctx["K"] is None:
            run.skip("modal", "items could not be re-assembled before the call")
            return
        K, M = ctx["K"], ctx["M"]
        model = Model(x)
        if ctx["bounds"] is not None:
            # the dictionary the caller handed over is the caller's: same entries, same objects, same selections after the call
            now = self.boundaries
            same = isinstance(now, dict) and list(now.keys()) == list(ctx["bounds"].keys()) and all(
                now[k] is b and np.array_equal(np.asarray(b.mask), m) for k, (b, m) in ctx["bounds"].items())
            if same:
                run.ok("modal", unit="modal:boundaries-unchanged")
            else:
                run.fail("modal", "clause=boundaries-unchanged", "FreeVibration.evaluate changed the boundary dictionary of the job (entries dropped, "
                         "replaced or re-selected): the prescribed unknowns are those of the dictionary the caller passed")
        dof0 = ctx["dof0"] if ctx["dof0"] is not None else model.dof0(self.boundaries)
        want = getattr(self, "_vmon_requested_dof0", None)
        if want is not None:
            # the prescribed unknowns are those of the planes, modes and skipped components the case passed to Boundary (own
            # selection from the mesh coordinates), not those of the masks the Boundary objects made of them
            if np.array_equal(np.sort(want), np.sort(np.asarray(dof0))):
                run.ok("modal", unit="modal:prescribed-from-arguments")
            else:
                run.fail("modal", "clause=prescribed-unknowns-as-requested", "the boundary dictionary does not prescribe the unknowns of the planes / "
                         "modes / skipped components it was built with (%d unknowns selected, %d requested)" % (len(dof0), len(want)),
                         unit="modal:prescribed-from-arguments")
            dof0 = np.sort(want)
        dof1 = np.setdiff1d(np.arange(model.n), dof0)
        if not np.array_equal(np.asarray(self.dof1), dof1):
            run.fail("modal", "clause=free-unknowns", "FreeVibration.dof1 differs from the complement of the prescribed unknowns")
            return
        K11 = K[dof1][:, dof1]
        M11 = M[dof1][:, dof1]
        lam = np.asarray(self.eigenvalues, float)
        V = np.asarray(self.eigenvectors, float)
        if V.shape != (len(dof1), len(lam)):
            run.fail("modal", "clause=shape", "eigenvector array has shape %s for %d free unknowns and %d eigenvalues" % (V.shape, len(dof1), len(lam)))
            return
        kn = float(abs(K11).sum(axis=1).max())
        mn = float(abs(M11).sum(axis=1).max())
        worst = 0.0
        for j in range(len(lam)):
            v = V[:, j]
            r = K11 @ v - lam[j] * (M11 @ v)
            # normwise backward error of the pair (also meaningful for zero-frequency modes, where K v itself vanishes)
            worst = max(worst, np.linalg.norm(r, np.inf) / max((kn + abs(lam[j]) * mn) * np.linalg.norm(v, np.inf), 1e-300))
        run.compare("modal", "clause=eigen-residual", worst, 1e-7, "a returned pair does not satisfy K v = lambda M v on the free unknowns "
                    "(K, M re-assembled from the items)", unit="modal:residual", config=("modal", len(lam), len(dof1)),
                    sample={"free_unknowns": int(len(dof1)), "modes": int(len(lam)), "eigenvalues": lam[:6].tolist(), "worst_relative_residual": worst})
        # the pairs are genuine and distinct: non-zero vectors, M-orthogonal for separated eigenvalues, no vector returned twice
        nv = np.linalg.norm(V, axis=0)
        G = V.T @ (M11 @ V)
        dg = np.sqrt(np.abs(np.diag(G)))
        if np.any(nv == 0) or np.any(dg == 0):
            run.fail("modal", "clause=non-trivial-vectors", "a returned eigenvector is zero (or has zero mass norm)")
        else:
            Gn = G / np.outer(dg, dg)
            sep = np.abs(lam[:, None] - lam[None, :]) > 1e-6 * max(float(np.max(np.abs(lam))), 1e-300)
            off = np.where(sep, np.abs(Gn), 0.0)
            run.compare("modal", "clause=modes-m-orthogonal", float(off.max()) if off.size else 0.0, 1e-6,
                        "eigenvectors of separated eigenvalues are not M-orthogonal (a pair returned twice, or not eigenvectors of the pencil)",
                        unit="modal:orthogonal")
            dup = np.abs(Gn) - np.eye(len(lam))
            if len(lam) > 1 and np.max(np.abs(dup) * (~sep)) > 1 - 1e-9 and np.any((np.abs(Gn) > 1 - 1e-9) & ~np.eye(len(lam), dtype=bool)):
                run.fail("modal", "clause=distinct-modes", "the same eigenvector is returned more than once")
        # completeness: with the default solver the pairs are those closest to zero; for small systems with a definite mass
        # block compare with a dense generalized solve (a solver asked for another part of the spectrum would pass the residual)
        if kwargs.get("solver") is None and len(dof1) <= 600 and len(lam) >= 1:
            import scipy.linalg as sla
            Kd = np.asarray(K11.todense())
            Md = np.asarray(M11.todense())
            wi = None
            try:
                wm = np.linalg.eigvalsh(Md)
                # (under-integrated consistent mass matrices, e.g. tetra10 with its 4-point rule, are singular: no dense reference)
                wd = sla.eigh(Kd, Md, eigvals_only=True) if wm[0] > 1e-9 * wm[-1] else None
            except Exception:
                wd = None
            if wd is None and kwargs.get("which", "LM") == "LM" and "mode" not in kwargs:
                # singular mass block (mass-less pressure / volume-ratio unknowns of mixed containers, under-integrated simplex
                # mass matrices under supports that do not fix whole faces) on a regular stiffness block: the finite eigenvalues
                # from the symmetric inverse problem B^T K^-1 B with M = B B^T
                try:
                    wi = inverse_spectrum(Kd, Md, len(lam))
                except Exception:
                    wi = None
            if wd is not None:
                wall = maxabs(wd)
                wd = wd[np.argsort(np.abs(wd))][: len(lam)]
                # (zero-frequency modes come out as round-off of either sign: differences are measured against the spectrum's scale)
                run.compare("modal", "clause=spectrum-closest-to-zero", maxabs(np.sort(wd) - np.sort(lam)) / max(maxabs(wd), 1e-9 * wall, 1e-300), 1e-6,
                            "the returned eigenvalues are not the ones of smallest magnitude of the constrained pencil (dense reference)",
                            unit="modal:spectrum")
            elif wi is not None:
                run.units["modal:spectrum:singular-mass"] += 1
                run.compare("modal", "clause=spectrum-closest-to-zero", maxabs(np.sort(wi) - np.sort(lam)) / max(maxabs(wi), 1e-300), 1e-6,
                            "the returned eigenvalues are not the ones of smallest magnitude of the constrained pencil (dense reference from "
                            "the inverse problem, singular mass block)", unit="modal:spectrum")
            else:
                run.skip("modal", "dense reference solve not available (mass block not positive definite)")
        # the reference mass matrix itself against its definition rho * int h_a h_b dV on plain displacement fields
        # (the items as they were before the call: their densities and regions are not read back after it)
        try:
            own = own_mass(ctx["items"], x)
        except Exception:
            own = None
        if own is not None:
            run.compare("modal", "clause=mass-matrix-definition", maxabs((M - own).toarray() if hasattr(M - own, "toarray") else (M - own)) / max(abs(own).max(), 1e-300), 1e-12,
                        "the assembled mass matrix is not rho * integral of h_a h_b over the body", unit="modal:mass-definition")
        # ... and against references that do not use the regions' own quadrature (``own_mass`` integrates with the region's
        # h and dV: it judges the scatter; a wrong rule, a dropped quadrature point or weights of another order are mirrored)
        try:
            judge_mass(run, M, ctx["items"], x)
        except Exception:
            run.skip("modal", "independent mass reference raised")
        self._vmon = {"K": K, "M": M, "dof0": dof0, "dof1": dof1}

    attach.wrap_method(FV, "evaluate", pre=pre_evaluate, post=post_evaluate)

    def post_extract(self, args, kwargs, ctx, result, exc):
        if exc is not None:
            return
        field, freq = result
        n = kwargs.get("n", args[0] if args else 0)
        info = getattr(self, "_vmon", None)
        if info is None:
            return
        vals = np.concatenate([f.values.ravel() for f in field.fields])
        run.compare("modal", "clause=zero-on-prescribed-unknowns", maxabs(vals[info["dof0"]]) if len(info["dof0"]) else 0.0, 0.0,
                    "extracted mode shape is not zero on the prescribed unknowns", unit="modal:prescribed")
        run.compare("modal", "clause=mode-shape-is-eigenvector", maxabs(vals[info["dof1"]] - self.eigenvectors[:, n]), 0.0,
                    "extracted mode shape is not the eigenvector scattered to the free unknowns", unit="modal:scatter")
        lam = self.eigenvalues[n]
        if lam >= 0:
            run.compare("modal", "clause=frequency", abs(freq - np.sqrt(lam) / (2 * np.pi)) / max(abs(freq), 1e-300), 1e-14,
                        "reported frequency is not sqrt(lambda) / (2 pi)", unit="modal:frequency")

    attach.wrap_method(FV, "extract", post=post_extract)


def shifted_solver(shift):
    from scipy.sparse.linalg import eigsh

    def solver(A, M, sigma, **kw):
        kw.pop("sigma", None)
        return eigsh(A=A, M=M, sigma=shift, **kw)
    return solver


UNIT_SYSTEMS = [lambda r: (float(10 ** r.uniform(3, 5.5)), float(10 ** r.uniform(-9, -8)), float(10 ** r.uniform(0, 2))),      # mm-t-s
                lambda r: (float(10 ** r.uniform(6, 11.3)), float(10 ** r.uniform(2.7, 4)), float(10 ** r.uniform(-3, 0)))]    # SI


def split_family(fam):
    """'quad', 'quad:planestress' (plain 2D field with the plane-stress law), 'lagrange3' / 'lagrange2x3d' (RegionLagrange)."""
    base, _, kind = fam.partition(":")
    return base, kind


def family_dim(fam):
    base, kind = split_family(fam)
    if base.startswith("lagrange"):
        return 3 if base.endswith("x3d") else 2
    return gen.FAMILIES[base]["dim"]


def lagrange_box(order, L):
    """Two arbitrary-order Lagrange cells side by side that share the nodes of their common face (merged by coordinates in
    units of the body)."""
    import felupe as fem
    d = len(L)
    make = fem.mesh.RectangleArbitraryOrderQuad if d == 2 else fem.mesh.CubeArbitraryOrderHexahedron
    parts = [make(a=(i * L[0] / 2,) + (0.0,) * (d - 1), b=((i + 1) * L[0] / 2,) + tuple(L[1:]), order=order) for i in range(2)]
    pts = np.vstack([m.points for m in parts])
    cells = np.vstack([m.cells + i * parts[0].npoints for i, m in enumerate(parts)])
    key = np.round(pts / float(np.max(L)) * 1e8).astype(np.int64)
    _, first, inv = np.unique(key, axis=0, return_index=True, return_inverse=True)
    return fem.Mesh(pts[first], np.asarray(inv).reshape(-1)[cells], cell_type=parts[0].cell_type)


def field_of(fam, mesh):
    """The displacement container of the family on (another copy of) its mesh."""
    import felupe as fem
    base, kind = split_family(fam)
    if base.startswith("lagrange"):
        reg = fem.RegionLagrange(mesh, order=int(base[8]), dim=mesh.dim)
        return fem.FieldContainer([fem.Field(reg, dim=3) if mesh.dim == 3 else fem.FieldPlaneStrain(reg, dim=2)])
    if kind == "planestress":
        return fem.FieldContainer([fem.Field(gen.make_region(base, mesh), dim=2)])
    return problems.field_for(base, mesh, "3d" if mesh.dim == 3 else "planestrain")


def build(rng, fam, density=None, units=False, n=None):
    import felupe as fem
    base, kind = split_family(fam)
    lengths = rng.uniform(0.8, 3.0, family_dim(fam))
    if base.startswith("lagrange"):
        mesh, L = lagrange_box(int(base[8]), lengths), np.array(lengths)
    else:
        mesh, L = problems.box_mesh(base, rng, n=n, lengths=lengths)
    d = mesh.dim
    E, nu = float(rng.uniform(1, 100)), float(rng.uniform(0.1, 0.4))
    if units:
        # another, consistent unit system: mm-t-s (steel: E = 2.1e5, rho = 7.85e-9, part sizes 1..100) or SI (E = 1e6..2e11,
        # rho = 5e2..1e4, part sizes 1e-3..1): the eigenpairs are those of the matrices the items assemble, whatever their magnitudes
        E, rho_u, sL = UNIT_SYSTEMS[int(rng.integers(0, len(UNIT_SYSTEMS)))](rng)
        density = rho_u if density is None else density
        mesh = mesh.copy(points=mesh.points * sL)
        L = L * sL
    field = field_of(fam, mesh)
    if d == 3:
        umat = fem.LinearElastic(E=E, nu=nu)
    elif kind == "planestress":
        umat = fem.LinearElasticPlaneStress(E=E, nu=nu)
    else:
        umat = fem.constitution.LinearElasticPlaneStrain(E=E, nu=nu)
    rho = float(rng.uniform(0.5, 5)) if density is None else density
    # every second body carries a stiffness multiplier (the analysis must use multiplier * matrix, as Newton does)
    mult = float(rng.uniform(0.3, 3)) if rng.integers(0, 2) else None
    return fem.SolidBody(umat, field, density=rho, multiplier=mult), field, mesh, L, (E * (mult or 1.0), nu, rho)


LEFT = [({0: 0.0}, "or", None)]  # Boundary(field[0], fx=0.0)


def prescribed(field, mesh, L, entries):
    """``own_prescribed`` for the displacement field of a case (the first field of the container) on its box of lengths L."""
    return own_prescribed(mesh.points, field[0].dim, entries, float(np.max(L)))


def judge_total_mass(run, job, field, rho, L):
    """t^T M t = d * rho * V for the unit translations t of all d directions, with the density the case asked for and the
    volume of the box the case built (the meshes are distorted in the interior only, their cells straight-sided): a reference
    that uses neither the element's shape functions nor its quadrature.  ``M`` is the matrix the evaluate() hook re-assembled
    from the items; bubble unknowns (MINI) are amplitudes, not nodal values: a translation has none."""
    info = getattr(job, "_vmon", None)
    if info is None:
        run.skip("modal", "no re-assembled mass matrix for the total-mass clause")
        return
    f0 = field[0]
    cells = np.asarray(f0.region.mesh.cells)
    if type(f0.region).__name__ in ("RegionTriangleMINI", "RegionTetraMINI"):
        cells = cells[:, :-1]
    d = f0.dim
    t = np.zeros(info["M"].shape[0])
    t[(d * np.unique(cells)[:, None] + np.arange(d)[None, :]).ravel()] = 1.0
    want = d * float(rho) * float(np.prod(L))
    run.compare("modal", "clause=total-mass", abs(float(t @ (info["M"] @ t)) - want) / want, 1e-11,
                "the mass of the body (sum of the assembled mass matrix over the nodal unknowns, per direction) is not density * volume "
                "of the box the body fills", unit="modal:total-mass")


def case_constrained(fam, rep):
    def fn(run):
        import felupe as fem
        rng = rng_for(run.seed, "C18", "constrained", fam, rep)
        attach_hooks(run)
        try:
            solid, field, mesh, L, par = build(rng, fam, units=bool((rep // 3) % 2) or rep % 2 == 1)
            if (rep // 3) % 2 or rep % 2 == 1:
                run.units["modal:other-unit-system"] += 1
            bkind = rep % 3
            dm = mesh.dim
            if bkind == 0:
                b = {"left": fem.Boundary(field[0], fx=0.0)}
                want = LEFT
            elif bkind == 1:
                b = {"left": fem.Boundary(field[0], fx=0.0, skip=(0, 1, 1)[: mesh.dim]), "bottom": fem.Boundary(field[0], fy=0.0, skip=(1, 0, 1)[: mesh.dim]),
                     "pin": fem.Boundary(field[0], fx=0.0, fy=0.0, mode="and")}
                want = [({0: 0.0}, "or", (0, 1, 1)[:dm]), ({1: 0.0}, "or", (1, 0, 1)[:dm]), ({0: 0.0, 1: 0.0}, "and", None)]
            else:
                b = fem.dof.symmetry(field[0])
                b["right"] = fem.Boundary(field[0], fx=float(L[0]))
                # (symmetry planes through the origin: the displacement normal to each plane is prescribed)
                want = [({a: 0.0}, "or", tuple(i != a for i in range(dm))) for a in range(dm)] + [({0: float(L[0])}, "or", None)]
            k = int(rng.integers(1, 13))
            nfree = len(fem.dof.partition(field, b)[1])
            k = max(1, min(k, nfree - 2))  # ARPACK needs k < N
            job = expect(fem.FreeVibration([solid], b), prescribed(field, mesh, L, want)).evaluate(k=k)
            judge_total_mass(run, job, field, par[2], L)
            for n in range(k):
                job.extract(n, inplace=False)
            run.configs.add(str(("constrained", fam, bkind, k)))
            run.units["modal:family:%s" % fam] += 1
            # the same job object evaluated again with another boundary dictionary (and number of modes): nothing of the first
            # evaluation may survive (free unknowns, pairs, shapes)
            job.boundaries = dict(b, **{"far": fem.Boundary(field[0], fx=float(L[0]))}) if bkind != 2 else {"left": fem.Boundary(field[0], fx=0.0)}
            expect(job, prescribed(field, mesh, L, want + [({0: float(L[0])}, "or", None)] if bkind != 2 else LEFT))
            nfree2 = len(fem.dof.partition(field, job.boundaries)[1])
            k2 = max(1, min(k + 1, nfree2 - 2))
            job.evaluate(k=k2)
            job.extract(0, inplace=False)
            run.units["modal:re-evaluated-with-other-boundaries"] += 1
            # the same body in a sweep of unit systems (stiffness and density magnitudes from 1e-9 to 1e6)
            um = solid.umat
            sweep = ((5, -9), (4, -8), (3, -9), (0, -6), (2, -7), (0, 0))[rep % 2::2] if 0.5 < float(np.max(L)) < 5 else ()
            for e10, r10 in sweep:
                um2 = type(um)(E=float(rng.uniform(1, 9)) * 10.0 ** e10, nu=um.nu)
                s2 = fem.SolidBody(um2, field, density=float(rng.uniform(1, 9)) * 10.0 ** r10)
                try:
                    fem.FreeVibration([s2], b).evaluate(k=k)
                    run.units["modal:unit-sweep"] += 1
                except Exception as exc:
                    if type(exc).__name__ == "ArpackError" or "ARPACK" in str(exc):
                        # the eigensolver refuses the pencil: on the unchanged tree this does not happen for these well-posed
                        # problems; it is reported, as the pairs that should have been returned are missing
                        run.fail("modal", "clause=eigenpairs-returned unit-system", "FreeVibration.evaluate fails on a well-posed problem in another unit system: %s" % str(exc)[:80])
                    else:
                        raise
        finally:
            attach.detach_all()
    return fn


def case_items(fam, rep):
    """Several items on one field (each with its own multiplier and density), the condensed nearly-incompressible body as item,
    threaded assembly."""
    def fn(run):
        import felupe as fem
        rng = rng_for(run.seed, "C18", "items", fam, rep)
        attach_hooks(run)
        try:
            solid, field, mesh, L, par = build(rng, fam)
            umat2 = type(solid.umat)(E=float(rng.uniform(1, 50)), nu=float(rng.uniform(0.1, 0.4)))
            rhos = [par[2], float(rng.uniform(0.5, 5))]
            s2 = fem.SolidBody(umat2, field, density=rhos[1], multiplier=float(rng.uniform(0.3, 3)) if rep % 2 else None)
            b = {"left": fem.Boundary(field[0], fx=0.0)}
            nfree = len(fem.dof.partition(field, b)[1])
            k = max(1, min(int(rng.integers(2, 9)), nfree - 2))
            items = [solid, s2]
            if rep % 3 == 0:
                mu3, bulk3 = float(rng.uniform(0.5, 2)), float(rng.uniform(20, 200))
                rhos.append(float(rng.uniform(0.5, 5)))
                items.append(fem.SolidBodyNearlyIncompressible(fem.NeoHooke(mu=mu3), field, bulk=bulk3, density=rhos[2]))
                run.units["modal:item:SolidBodyNearlyIncompressible"] += 1
            job = expect(fem.FreeVibration(items, b), prescribed(field, mesh, L, LEFT)).evaluate(k=k, parallel=bool(rep % 2))
            judge_total_mass(run, job, field, sum(rhos), L)
            for n in range(k):
                job.extract(n, inplace=False)
            run.units["modal:items>=2"] += 1
            if rep % 2:
                run.units["modal:parallel"] += 1
            run.configs.add(str(("items", fam, len(items), rep % 2)))
            # the lower-level API the analysis is built on, with its density argument: assemble.mass(density=r) is the mass matrix
            # of density r whatever the body was built with (also for a body built without density), judged against the
            # references that are independent of the region's quadrature
            r = float(rng.uniform(0.5, 5))
            bare = fem.SolidBody(solid.umat, field)
            for body in [solid, bare] + items[2:]:
                judge_mass(run, body.assemble.mass(density=r), [body], field, density=[r], what="assemble.mass(density=r) of %s" % type(body).__name__)
                run.units["modal:mass-density-argument"] += 1
            # the stiffness multiplier with the caller's number: the same body with and without ``multiplier=m`` on the same
            # supports: K scales with m, M does not, every eigenvalue scales with m (the hook's reference uses the recorded
            # constructor argument; this clause needs no re-assembly at all)
            m = (0.37, 1.7, 2.6, 0.61)[rep % 4] * float(rng.uniform(0.9, 1.1))
            lam = [np.sort(fem.FreeVibration([fem.SolidBody(solid.umat, field, density=par[2], **kw)], b).evaluate(k=k).eigenvalues) for kw in ({}, {"multiplier": m})]
            run.compare("modal.multiplier", "clause=eigenvalues-scale-with-the-multiplier", maxabs(lam[1] - m * lam[0]) / maxabs(m * lam[0]), 1e-9,
                        "a body built with multiplier=m does not have m times the eigenvalues of the same body without multiplier",
                        unit="modal:multiplier-scaling-law", config=("multiplier", fam, rep % 4))
        finally:
            attach.detach_all()
    return fn


def case_sizes(rep):
    """Items on containers of different size: a displacement-only body and a u/p/J body that share the displacement field, in
    both orders, with the mixed container as x0 (the smaller matrices are embedded into the global system), and the x0 / n
    keyword forms of extract (negative mode number, in place and as copy)."""
    def fn(run):
        import felupe as fem
        rng = rng_for(run.seed, "C18", "sizes", rep)
        attach_hooks(run)
        try:
            fam = ("hexahedron", "quad")[rep % 2]
            mesh, L = problems.box_mesh(fam, rng, n=(4, 3, 3) if fam == "hexahedron" else (5, 4), lengths=rng.uniform(0.8, 3.0, 3 if fam == "hexahedron" else 2))
            d = mesh.dim
            field = fem.FieldsMixed(gen.make_region(fam, mesh), n=3, planestrain=(d == 2))
            mixed = fem.SolidBody(fem.ThreeFieldVariation(fem.NeoHooke(mu=float(rng.uniform(0.5, 2)), bulk=float(rng.uniform(5, 50)))), field,
                                  density=float(rng.uniform(0.5, 3)))
            E, nu = float(rng.uniform(1, 20)), float(rng.uniform(0.1, 0.4))
            plain = fem.SolidBody(fem.LinearElastic(E=E, nu=nu) if d == 3 else fem.constitution.LinearElasticPlaneStrain(E=E, nu=nu),
                                  fem.FieldContainer([field[0]]), density=float(rng.uniform(0.5, 3)), multiplier=float(rng.uniform(0.3, 3)))
            b = {"left": fem.Boundary(field[0], fx=0.0)}
            k = int(rng.integers(3, 8))
            spectra = []
            for items in ([plain, mixed], [mixed, plain]):
                job = expect(fem.FreeVibration(items, b), prescribed(field, mesh, L, LEFT)).evaluate(k=k, x0=field)
                job.extract(2, x0=field, inplace=False)
                job.extract(x0=field, n=-1, inplace=False)
                spectra.append(np.sort(job.eigenvalues))
            run.compare("modal.sizes", "clause=item-order-does-not-change-the-spectrum", maxabs(spectra[0] - spectra[1]) / maxabs(spectra[0]), 1e-8,
                        "a displacement-only body and a u/p/J body on one displacement field: the spectrum depends on the order of the items",
                        unit="modal:items-on-smaller-container", config=("sizes", fam, k))
            job.extract(n=-1, x0=field)
        finally:
            attach.detach_all()
    return fn


def point_supports_requested(L):
    """The arguments of ``point_supports`` in the form of ``own_prescribed``."""
    if len(L) == 2:
        return [({0: 0.0, 1: 0.0}, "and", None), ({0: float(L[0]), 1: 0.0}, "and", (1, 0))]
    return [({0: 0.0, 1: 0.0, 2: 0.0}, "and", None), ({0: float(L[0]), 1: 0.0, 2: 0.0}, "and", (1, 0, 0)),
            ({0: 0.0, 1: float(L[1]), 2: 0.0}, "and", (1, 1, 0))]


def point_supports(field, L):
    """Statically determinate supports: a pinned corner and rollers at two (3D) / one (2D) further corners."""
    import felupe as fem
    f = field[0]
    if len(L) == 2:
        return {"pin": fem.Boundary(f, fx=0.0, fy=0.0, mode="and"), "roller": fem.Boundary(f, fx=float(L[0]), fy=0.0, mode="and", skip=(1, 0))}
    return {"pin": fem.Boundary(f, fx=0.0, fy=0.0, fz=0.0, mode="and"),
            "roller-x": fem.Boundary(f, fx=float(L[0]), fy=0.0, fz=0.0, mode="and", skip=(1, 0, 0)),
            "roller-y": fem.Boundary(f, fx=0.0, fy=float(L[1]), fz=0.0, mode="and", skip=(1, 1, 0))}


DETERMINATE = {"triangle": (5, 5), "triangle6": (4, 4), "tetra": (4, 3, 3), "tetra10": (3, 3, 3), "quad": (6, 5), "hexahedron": (4, 4, 3)}


def case_determinate(fam, rep):
    """Point supports (pin + rollers) instead of clamped faces: the stiffness block is regular, the under-integrated mass block
    of the simplex families is singular (the dense reference comes from the inverse problem); many requested modes on the
    quad / hexahedron meshes (more Lanczos vectors than the eigensolver's minimum of 20); the default number of modes and
    keywords that are forwarded to the eigensolver."""
    def fn(run):
        import felupe as fem
        rng = rng_for(run.seed, "C18", "determinate", fam, rep)
        attach_hooks(run)
        try:
            solid, field, mesh, L, par = build(rng, fam, units=bool(rep % 2), n=DETERMINATE[fam])
            b = point_supports(field, L)
            nfree = len(fem.dof.partition(field, b)[1])
            k = int(rng.integers(10, 26)) if fam in ("quad", "hexahedron") else int(rng.integers(1, 7))
            job = expect(fem.FreeVibration([solid], b), prescribed(field, mesh, L, point_supports_requested(L))).evaluate(k=k)
            judge_total_mass(run, job, field, par[2], L)
            job.extract(0, inplace=False)
            job.extract(n=k - 1, inplace=False)
            run.units["modal:point-supports"] += 1
            if 2 * k + 1 > 20:
                run.units["modal:lanczos-vectors>20"] += 1
            run.configs.add(str(("determinate", fam, k)))
            # the default number of modes (6) and keywords that evaluate() hands on to the eigensolver
            fem.FreeVibration([solid], b).evaluate()
            run.units["modal:default-number-of-modes"] += 1
            k2 = int(rng.integers(2, 6))
            fem.FreeVibration([solid], b).evaluate(k=k2, ncv=min(nfree, 2 * k2 + 16), maxiter=50 * nfree, tol=0, v0=rng.uniform(0.5, 1.5, nfree))
            run.units["modal:eigensolver-keywords"] += 1
        finally:
            attach.detach_all()
    return fn


def case_submesh(rep):
    """Two bodies on complementary sub-meshes of one point set, evaluated with the global field as x0 (the documented layout of
    multi-body models): the spectrum is that of the one-body model of the whole mesh."""
    def fn(run):
        import felupe as fem
        rng = rng_for(run.seed, "C18", "submesh", rep)
        attach_hooks(run)
        try:
            fam = ["hexahedron", "quad", "tetra"][rep % 3]
            solid, field, mesh, L, (E, nu, rho) = build(rng, fam)
            um = solid.umat
            mult = solid.assemble.multiplier
            cx = mesh.points[mesh.cells].mean(1)[:, 0]
            left = cx < np.median(cx)
            parts = []
            for sel in (left, ~left):
                mm = fem.Mesh(mesh.points, mesh.cells[sel], mesh.cell_type)
                fk = problems.field_for(fam, mm, "3d" if mesh.dim == 3 else "planestrain")
                parts.append(fem.SolidBody(um, fk, density=rho, multiplier=mult))
            b = {"left": fem.Boundary(field[0], fx=0.0)}
            nfree = len(fem.dof.partition(field, b)[1])
            k = max(1, min(int(rng.integers(2, 7)), nfree - 2))
            one = expect(fem.FreeVibration([solid], b), prescribed(field, mesh, L, LEFT)).evaluate(k=k)
            two = expect(fem.FreeVibration(parts[::-1] if rep % 2 else parts, b), prescribed(field, mesh, L, LEFT)).evaluate(k=k, x0=field)
            # (the two bodies together fill the box: the sum of their mass matrices carries its mass)
            judge_total_mass(run, one, field, rho, L)
            judge_total_mass(run, two, field, rho, L)
            run.compare("modal.submesh", "clause=sub-mesh-bodies-equal-one-body", maxabs(np.sort(two.eigenvalues) - np.sort(one.eigenvalues)) / maxabs(one.eigenvalues), 1e-8,
                        "two bodies on complementary sub-meshes (evaluated with the global field) do not have the spectrum of the one-body model",
                        unit="modal:sub-mesh-items", config=("submesh", fam))
        finally:
            attach.detach_all()
    return fn


def case_rigid(fam, rep, n=None):
    def fn(run):
        import felupe as fem
        rng = rng_for(run.seed, "C18", "rigid", fam, rep)
        attach_hooks(run)
        try:
            solid, field, mesh, L, (E, nu, rho) = build(rng, fam, n=n)
            d = mesh.dim
            nrig = 3 if d == 2 else 6
            k = min(nrig + 4, int(sum(field.fieldsizes)) - 2)  # (one-cell bodies have few unknowns)
            scale = E / (rho * float(np.max(L)) ** 2)
            job = expect(fem.FreeVibration([solid]), np.zeros(0, int)).evaluate(k=k, solver=shifted_solver(-1e-3 * scale))
            judge_total_mass(run, job, field, rho, L)
            lam = np.sort(job.eigenvalues)
            nz = int(np.sum(np.abs(lam) < 1e-7 * lam[nrig]))
            # the same unconstrained body on a mesh that carries points without cells (as the sub-meshes of a merged container do):
            # their unknowns are prescribed, the spectrum is the one of the body
            mx = mesh.copy()
            mx.update(points=np.vstack([mesh.points, mesh.points.max(0) + 0.5, mesh.points.min(0) - 0.7]))
            fx = field_of(fam, mx)
            sx = fem.SolidBody(solid.umat, fx, density=rho, multiplier=solid.assemble.multiplier)
            jx = fem.FreeVibration([sx])
            try:
                jx.evaluate(k=k, solver=shifted_solver(-1e-3 * scale))
                run.compare("modal.rigid", "clause=points-without-cells-do-not-change-the-spectrum", maxabs(np.sort(jx.eigenvalues) - lam) / max(maxabs(lam), 1e-300), 1e-7,
                            "an unconstrained body on a mesh with cell-less points has another spectrum than on its own mesh", unit="modal:cell-less-points")
            except RuntimeError as exc:
                free = np.asarray(getattr(jx, "dof1", []))
                cellless = np.arange(mesh.npoints * d, mx.npoints * d)
                if np.intersect1d(free, cellless).size:
                    run.fail("modal", "clause=free-unknowns cell-less points", "unknowns of points without cells are left free (the eigen-solver fails: %s)" % str(exc)[:60])
                else:
                    raise
            if nz == nrig:
                run.ok("modal.rigid", unit="modal:rigid-modes:%dd" % d, config=("rigid", fam), sample={"family": fam, "eigenvalues": lam.tolist()})
            else:
                run.fail("modal.rigid", "clause=rigid-mode-count dim=%d" % d, "unconstrained linear-elastic %s body has %d zero-frequency modes, "
                         "expected %d" % (fam, nz, nrig), {"eigenvalues": lam})
            # invariance of the spectrum under rigid motion of the mesh
            Q = random_rotation(rng, d)
            t = rng.uniform(-3, 3, d)
            mesh2 = mesh.copy(points=mesh.points @ Q.T + t)
            field2 = field_of(fam, mesh2)
            solid2 = fem.SolidBody(solid.umat, field2, density=rho, multiplier=solid.assemble.multiplier)
            job2 = fem.FreeVibration([solid2]).evaluate(k=k, solver=shifted_solver(-1e-3 * scale))
            lam2 = np.sort(job2.eigenvalues)
            run.compare("modal.rigid", "clause=rigid-motion-invariance", maxabs(lam2[nrig:] - lam[nrig:]) / lam[-1], 1e-8,
                        "elastic spectrum changes under a rigid motion of the mesh", unit="modal:invariance", config=("invariance", fam))
            run.compare("modal.rigid", "clause=rigid-motion-invariance-zero-modes", maxabs(lam2[:nrig]) / lam[-1], 1e-7,
                        "zero-frequency modes do not stay zero under a rigid motion of the mesh", unit="modal:invariance")
        finally:
            attach.detach_all()
    return fn


def case_rigid_orthotropic(rep):
    """An unconstrained body of the orthotropic linear-elastic law ("all elastic constants"): exactly six zero-frequency modes - a rigid
    rotation stores no energy whatever the ratios of the nine constants (round 11: two missing cross terms of one shear block left five) -
    and the isotropic limit of the constants gives the spectrum of the isotropic law. The hooks judge every returned pair."""
    def fn(run):
        import felupe as fem
        rng = rng_for(run.seed, "C18", "rigid-orthotropic", rep)
        attach_hooks(run)
        try:
            fam = ["hexahedron", "tetra10", "hexahedron20"][rep % 3]
            mesh, L = problems.box_mesh(fam, rng, lengths=rng.uniform(0.8, 2.5, 3))
            field = field_of(fam, mesh)
            E = rng.uniform(1.0, 10.0, 3)
            nu = rng.uniform(0.05, 0.3, 3)
            G = rng.uniform(0.5, 4.0, 3)
            rho = float(rng.uniform(0.5, 5))
            solid = fem.SolidBody(fem.LinearElasticOrthotropic(E=E.tolist(), nu=nu.tolist(), G=G.tolist()), field, density=rho)
            k = 10
            scale = float(E.min()) / (rho * float(np.max(L)) ** 2)
            job = fem.FreeVibration([solid]).evaluate(k=k, solver=shifted_solver(-1e-3 * scale))
            lam = np.sort(job.eigenvalues)
            nz = int(np.sum(np.abs(lam) < 1e-7 * lam[6]))
            if nz == 6:
                run.ok("modal.rigid", unit="modal:rigid-modes:orthotropic", config=("rigid-orthotropic", fam), sample={"family": fam, "eigenvalues": lam.tolist()})
            else:
                run.fail("modal.rigid", "clause=rigid-mode-count law=LinearElasticOrthotropic", "unconstrained orthotropic %s body has %d zero-frequency modes, "
                         "expected 6" % (fam, nz), {"eigenvalues": lam})
            # isotropic limit: E_i = E, nu_ij = nu, G_ij = E / (2 (1 + nu)) is the isotropic law
            E0, nu0 = float(E[0]), float(nu[0])
            G0 = E0 / (2 * (1 + nu0))
            si = fem.SolidBody(fem.LinearElasticOrthotropic(E=[E0] * 3, nu=[nu0] * 3, G=[G0] * 3), field_of(fam, mesh), density=rho)
            sr = fem.SolidBody(fem.LinearElastic(E=E0, nu=nu0), field_of(fam, mesh), density=rho)
            li = np.sort(fem.FreeVibration([si]).evaluate(k=k, solver=shifted_solver(-1e-3 * scale)).eigenvalues)
            lr = np.sort(fem.FreeVibration([sr]).evaluate(k=k, solver=shifted_solver(-1e-3 * scale)).eigenvalues)
            run.compare("modal.rigid", "clause=isotropic-limit-of-the-orthotropic-law", maxabs(li - lr) / max(maxabs(lr), 1e-300), 1e-7,
                        "the spectrum of the orthotropic law with isotropic constants differs from the one of the isotropic law", unit="modal:orthotropic-isotropic-limit",
                        config=("orthotropic-limit", fam))
        finally:
            attach.detach_all()
    return fn


PRESTRETCHED = ("hexahedron", "quad", "tetra")


def case_prestretched(fam, rep):
    def fn(run):
        """Modal analysis about a converged, pre-stretched state: the field carries non-zero values on prescribed unknowns.  One
        job object is evaluated at the undeformed state, after the Newton solve and after the density of its items was
        doubled: nothing of the items may be kept from an earlier evaluation.  The body is a SolidBody, the condensed
        nearly-incompressible body alone, or the condensed body as first of two items."""
        import felupe as fem
        rng = rng_for(run.seed, "C18", "prestretched", fam, rep)
        attach_hooks(run)
        try:
            mesh, L = problems.box_mesh(fam, rng)
            d = mesh.dim
            field = problems.field_for(fam, mesh, "3d" if d == 3 else "planestrain")
            mu, bulk, rho = float(rng.uniform(0.5, 2)), float(rng.uniform(2, 8)), float(rng.uniform(0.5, 3))
            body = (PRESTRETCHED.index(fam) + rep) % 3
            if body == 0:
                items = [fem.SolidBody(fem.NeoHooke(mu=mu, bulk=bulk), field, density=rho)]
            else:
                items = [fem.SolidBodyNearlyIncompressible(fem.NeoHooke(mu=mu), field, bulk=10 * bulk, density=rho)]
                if body == 2:
                    items.append(fem.SolidBody(fem.NeoHooke(mu=0.5 * mu, bulk=bulk), field, density=2 * rho))
            b, lc = fem.dof.uniaxial(field, clamped=True, move=float(rng.uniform(0.1, 0.3)) * L[0], sym=False)
            k = max(1, min(int(rng.integers(2, 7)), len(fem.dof.partition(field, b)[1]) - 2))  # the sparse eigensolver needs k < N
            job = fem.FreeVibration(items, b).evaluate(k=k)
            fem.newtonrhapson(items=items, verbose=False, **lc)
            job.evaluate(k=k)
            lam1 = np.sort(job.eigenvalues)
            for n in range(k):
                job.extract(n, inplace=False)
            run.units["modal:prestretched"] += 1
            run.units["modal:prestretched:%s" % ("SolidBody", "SolidBodyNearlyIncompressible", "SolidBodyNearlyIncompressible+SolidBody")[body]] += 1
            run.configs.add(str(("prestretched", fam, k)))
            # twice the density on every item: twice the mass matrix on the same stiffness, half the eigenvalues (the numbers
            # are the case's own: rho for the first item, 2 rho for the second, not the attributes read back)
            for it, r0 in zip(items, (rho, 2 * rho)):
                set_density(it, 2 * r0)
            job.evaluate(k=k)
            run.compare("modal.history", "clause=density-doubled-between-evaluations", maxabs(2 * np.sort(job.eigenvalues) - lam1) / maxabs(lam1), 1e-9,
                        "the same job evaluated again after the density of its items was doubled does not return half the eigenvalues",
                        unit="modal:items-changed-between-evaluations", config=("history", fam, body))
            job.extract(0, inplace=True)
        finally:
            attach.detach_all()
    return fn


MIXED = ("hexahedron", "hexahedron:boundaries-on-p", "quad:plane-strain:boundaries-on-p-J", "hexahedron27")


def case_mixed(rep):
    """Mixed u/p/J containers (the extra fields carry no mass): hexahedra, plane strain, a quadratic displacement field;
    boundaries on the displacement field only or on the pressure / volume-ratio fields too; the job evaluated again with
    another dictionary.  Completeness is judged through the inverse problem (the mass block is singular by construction)."""
    def fn(run):
        import felupe as fem
        rng = rng_for(run.seed, "C18", "mixed", rep)
        attach_hooks(run)
        try:
            var = rep % 4
            if var == 2:
                mesh, L = problems.box_mesh("quad", rng, n=(5, 4))
                field = fem.FieldsMixed(fem.RegionQuad(mesh), n=3, planestrain=True)
            elif var == 3:
                mesh, L = problems.box_mesh("hexahedron27", rng, n=(3, 3, 3))
                field = fem.FieldsMixed(fem.RegionTriQuadraticHexahedron(mesh), n=3)
            else:
                mesh, L = problems.box_mesh("hexahedron", rng, n=(3, 4, 3))
                reg = fem.RegionHexahedron(mesh)
                field = fem.FieldsMixed(reg, n=3)
            umat = fem.ThreeFieldVariation(fem.NeoHooke(mu=float(rng.uniform(0.5, 2)), bulk=float(rng.uniform(5, 50))))
            solid = fem.SolidBody(umat, field, density=float(rng.uniform(0.5, 3)))
            b = {"left": fem.Boundary(field[0], fx=0.0)}
            if var in (1, 2):
                # (the meshes of the dual fields carry no coordinates: selections by mask, a third of the cells)
                for name, f in [("p", field[1])] + ([("J", field[2])] if var == 2 else []):
                    sel = np.zeros(f.values.shape, bool)
                    sel[(0 if name == "p" else 1)::3] = True
                    b[name] = fem.Boundary(f, mask=sel)
            k = max(1, min(int(rng.integers(2, 7)), len(fem.dof.partition(field, b)[1]) - 2))  # the sparse eigensolver needs k < N
            job = fem.FreeVibration([solid], b).evaluate(k=k)
            job.extract(k - 1, inplace=False)
            run.units["modal:mixed-container"] += 1
            run.units["modal:mixed-container:%s" % MIXED[var]] += 1
            # the same mixed job with another dictionary
            job.boundaries = {"right": fem.Boundary(field[0], fx=float(L[0]))}
            job.evaluate(k=k + 1)
            job.extract(0, inplace=False)
            run.units["modal:mixed-container:re-evaluated"] += 1
        finally:
            attach.detach_all()
    return fn


def cases(tier, seed):
    out = []
    reps = 3 if tier == "quick" else 12
    for fam in ("hexahedron", "hexahedron20", "tetra", "tetra10", "quad", "triangle", "quad8", "triangle6", "hexahedron27", "quad9"):
        for rep in range(reps):
            out.append(("constrained:%s:%d" % (fam, rep), case_constrained(fam, rep)))
    for fam in ("hexahedron", "tetra", "quad", "triangle", "quad8", "tetra10"):
        for rep in range(1 if tier == "quick" else 4):
            out.append(("rigid:%s:%d" % (fam, rep), case_rigid(fam, rep)))
    for rep in range(4 if tier == "quick" else 16):
        out.append(("mixed:%d" % rep, case_mixed(rep)))
    for fam in ("hexahedron", "quad", "tetra10"):
        for rep in range(2 if tier == "quick" else 6):
            out.append(("items:%s:%d" % (fam, rep), case_items(fam, rep)))
    for rep in range(3 if tier == "quick" else 9):
        out.append(("submesh:%d" % rep, case_submesh(rep)))
    for fam in PRESTRETCHED:
        for rep in range(1 if tier == "quick" else 4):
            out.append(("prestretched:%s:%d" % (fam, rep), case_prestretched(fam, rep)))
    # further members of the quantifier: MINI templates (bubble unknowns with their own rows), arbitrary-order Lagrange regions,
    # plane stress on a plain 2D field
    for fam in MORE_FAMILIES:
        for rep in range(reps if fam == "triangleMINI" else (1 if tier == "quick" else 6)):
            out.append(("constrained:%s:%d" % (fam, rep), case_constrained(fam, rep)))
    # rigid-mode count and invariance on the other families (the tri-quadratic / serendipity hexahedra on 2 x 2 x 2 cells)
    for fam in ("hexahedron20", "hexahedron27", "quad9", "triangle6") + MORE_FAMILIES:
        for rep in range(1 if tier == "quick" else 3):
            out.append(("rigid:%s:%d" % (fam, rep), case_rigid(fam, rep, n=(3, 3, 3) if fam in ("hexahedron20", "hexahedron27") else None)))
    # bodies of one and of two cells (round 10: a template whose default rule under-integrates the stiffness shows spurious zero-energy modes
    # only on meshes of very few cells; "all meshes")
    for fam in ("hexahedron", "hexahedron20", "hexahedron27", "quad", "quad8", "quad9"):
        d3 = fam.startswith("hex")
        for cells_, n_ in ((1, (2, 2, 2) if d3 else (2, 2)), (2, (3, 2, 2) if d3 else (3, 2))):
            for rep in range(1 if tier == "quick" else 2):
                out.append(("rigid:%s:%d-cell:%d" % (fam, cells_, rep), case_rigid(fam, 20 + rep, n=n_)))
    for rep in range(3 if tier == "quick" else 9):
        out.append(("rigid-orthotropic:%d" % rep, case_rigid_orthotropic(rep)))
    for rep in range(2 if tier == "quick" else 6):
        out.append(("sizes:%d" % rep, case_sizes(rep)))
    for fam in DETERMINATE:
        for rep in range((1 if fam == "tetra10" else 2) if tier == "quick" else 6):
            out.append(("determinate:%s:%d" % (fam, rep), case_determinate(fam, rep)))
    return out


MORE_FAMILIES = ("triangleMINI", "tetraMINI", "quad:planestress", "triangle6:planestress", "lagrange2", "lagrange3", "lagrange2x3d")

SPEC = {
    "required_units": ["modal:residual", "modal:prescribed", "modal:scatter", "modal:frequency", "modal:rigid-modes:2d", "modal:rigid-modes:3d",
                       "modal:invariance", "modal:mixed-container", "modal:prestretched", "modal:orthogonal", "modal:items>=2", "modal:parallel",
                       "modal:item:SolidBodyNearlyIncompressible", "modal:other-unit-system", "modal:unit-sweep", "modal:spectrum", "modal:mass-definition", "modal:sub-mesh-items", "modal:re-evaluated-with-other-boundaries", "modal:cell-less-points",
                       "modal:boundaries-unchanged", "modal:mass-independent-rule", "modal:mass-row-sums", "modal:spectrum:singular-mass", "modal:mass-density-argument",
                       "modal:items-on-smaller-container", "modal:point-supports", "modal:lanczos-vectors>20", "modal:default-number-of-modes", "modal:eigensolver-keywords",
                       "modal:items-changed-between-evaluations", "modal:prestretched:SolidBody", "modal:prestretched:SolidBodyNearlyIncompressible",
                       "modal:prestretched:SolidBodyNearlyIncompressible+SolidBody", "modal:mixed-container:re-evaluated",
                       # fourth audit (mirrored oracles): multiplier / density from the constructor arguments, prescribed unknowns from the
                       # arguments of Boundary, total mass from the caller's box, default rules with their documented point counts
                       "modal:multiplier-from-constructor-argument", "modal:multiplier-scaling-law", "modal:prescribed-from-arguments", "modal:total-mass", "modal:rigid-modes:orthotropic", "modal:orthotropic-isotropic-limit",
                       "modal:default-rule-points"]
                      + ["modal:mixed-container:%s" % m for m in MIXED] + ["modal:family:%s" % f for f in MORE_FAMILIES],
    "rule": ("linear-elastic bodies on 12 element families plus RegionLagrange (3D, plane strain, plane stress) with random box dimensions, "
             "elastic constants, densities, three kinds of boundary dictionaries and statically determinate point supports, 1..25 requested modes; "
             "unconstrained bodies through a solver= with a small negative shift; mixed u/p/J containers (hexahedra, plane strain, quadratic, "
             "boundaries on the extra fields), items on containers of different size, one job evaluated at several states of its items; every "
             "evaluate()/extract() is judged by the post-hooks with K and M re-assembled from item copies taken before the call; a "
             "configuration is distinct by (family, boundary kind, number of modes)"),
    "assumptions": ["the reference K uses the multiplier= and density= the constructors were called with (constructor hooks; items built before the hooks were attached fall back to their attributes), the prescribed unknowns of the box cases come from an own selection by coordinates",
                    "completeness of the spectrum: rigid-mode count, and a dense generalized solve (definite mass block) or the dense inverse problem (singular mass block, regular stiffness block) for systems up to 600 free unknowns with the default solver", "the shifted solver for singular K is API the class offers (solver=)",
                    "the mass matrix is judged against the templates' documented default rules (unique for Gauss-Legendre and the one-point simplex rules) and, for the other simplex templates, through its row sums; unconstrained bodies are not driven with the default shift sigma = 0 (ill-posed, DESIGN section 6 observation (a))"],
    "jobs": {"quick": 8, "thorough": 16},
}
