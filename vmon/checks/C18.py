"""C18 - modal analysis returns genuine eigenpairs of the constrained K/M pencil.

Post-condition monitor on FreeVibration.evaluate / extract: K and M are re-assembled from deep copies of the items
(sum of multiplier * matrix, sum of mass), the free unknowns are recomputed with the numbering model of C08, and every
returned pair must satisfy K v = lambda M v there.  The workload adds rigid-mode counts and rigid-motion invariance.
"""
import copy

import numpy as np

from .. import attach, problems
from ..util import maxabs, random_rotation, rng_for
from .C08 import Model


def reassemble(items, x):
    n = int(np.sum(x.fieldsizes))
    import scipy.sparse as sp
    K = sp.csr_matrix((n, n))
    M = sp.csr_matrix((n, n))
    its, xc = copy.deepcopy((items, x))
    for it in its:
        it.field.link(xc)
        Ki = it.assemble.matrix()
        Mi = it.assemble.mass()
        if it.assemble.multiplier is not None:
            Ki = Ki * it.assemble.multiplier
        Ki = sp.csr_matrix(Ki)
        Mi = sp.csr_matrix(Mi)
        if Ki.shape != (n, n):
            Ki.resize(n, n)
        if Mi.shape != (n, n):
            Mi.resize(n, n)
        K = K + Ki
        M = M + Mi
    return K, M


def own_mass(items, x):
    """rho * int h_a h_b dV delta_ij from the regions' shape functions and differential volumes; None if an item is no plain
    solid body on a Cartesian displacement field."""
    import scipy.sparse as sp
    n = int(np.sum(x.fieldsizes))
    M = sp.csr_matrix((n, n))
    for it in items:
        f0 = it.field[0]
        if type(f0).__name__ not in ("Field", "FieldPlaneStrain") or getattr(it, "density", None) is None:
            return None
        reg = f0.region
        cells = reg.mesh.cells
        nq, nc = reg.dV.shape
        h = np.broadcast_to(reg.h, (reg.h.shape[0], nq, nc))
        m = float(it.density) * np.einsum("aqc,bqc,qc->cab", h, h, reg.dV)
        d = f0.dim
        rows = np.repeat(cells[:, :, None], cells.shape[1], axis=2)
        cols = np.repeat(cells[:, None, :], cells.shape[1], axis=1)
        for i in range(d):
            M = M + sp.csr_matrix((m.ravel(), (d * rows.ravel() + i, d * cols.ravel() + i)), shape=(n, n))
    return M


def attach_hooks(run):
    import felupe as fem
    FV = fem.FreeVibration

    def pre_evaluate(self, args, kwargs):
        # reference matrices from the state *before* the call (evaluate scales the items' matrices in place)
        x = kwargs.get("x0", args[0] if args else None) or self.items[0].field
        try:
            return reassemble(self.items, x)
        except Exception:
            return None

    def post_evaluate(self, args, kwargs, ctx, result, exc):
        if exc is not None:
            return
        run.seen("modal")
        x = kwargs.get("x0", args[0] if args else None) or self.items[0].field
        if ctx is None:
            run.skip("modal", "items could not be re-assembled before the call")
            return
        K, M = ctx
        model = Model(x)
        dof0 = model.dof0(self.boundaries)
        dof1 = np.setdiff1d(np.arange(model.n), dof0)
        if not np.array_equal(np.asarray(self.dof1), dof1):
            run.fail("modal", "clause=free-unknowns", "FreeVibration.dof1 differs from the complement of the prescribed unknowns")
            return
        K11 = K[dof1][:, dof1]
        M11 = M[dof1][:, dof1]
        lam = np.asarray(self.eigenvalues, float)
        V = np.asarray(self.eigenvectors, float)
        if V.shape != (len(dof1), len(lam)):
            run.fail("modal", "clause=shape", "eigenvector array has shape %s for %d free unknowns and %d eigenvalues" % (V.shape, len(dof1), len(lam)))
            return
        kn = float(abs(K11).sum(axis=1).max())
        mn = float(abs(M11).sum(axis=1).max())
        worst = 0.0
        for j in range(len(lam)):
            v = V[:, j]
            r = K11 @ v - lam[j] * (M11 @ v)
            # normwise backward error of the pair (also meaningful for zero-frequency modes, where K v itself vanishes)
            worst = max(worst, np.linalg.norm(r, np.inf) / max((kn + abs(lam[j]) * mn) * np.linalg.norm(v, np.inf), 1e-300))
        run.compare("modal", "clause=eigen-residual", worst, 1e-7, "a returned pair does not satisfy K v = lambda M v on the free unknowns "
                    "(K, M re-assembled from the items)", unit="modal:residual", config=("modal", len(lam), len(dof1)),
                    sample={"free_unknowns": int(len(dof1)), "modes": int(len(lam)), "eigenvalues": lam[:6].tolist(), "worst_relative_residual": worst})
        # the pairs are genuine and distinct: non-zero vectors, M-orthogonal for separated eigenvalues, no vector returned twice
        nv = np.linalg.norm(V, axis=0)
        G = V.T @ (M11 @ V)
        dg = np.sqrt(np.abs(np.diag(G)))
        if np.any(nv == 0) or np.any(dg == 0):
            run.fail("modal", "clause=non-trivial-vectors", "a returned eigenvector is zero (or has zero mass norm)")
        else:
            Gn = G / np.outer(dg, dg)
            sep = np.abs(lam[:, None] - lam[None, :]) > 1e-6 * max(float(np.max(np.abs(lam))), 1e-300)
            off = np.where(sep, np.abs(Gn), 0.0)
            run.compare("modal", "clause=modes-m-orthogonal", float(off.max()) if off.size else 0.0, 1e-6,
                        "eigenvectors of separated eigenvalues are not M-orthogonal (a pair returned twice, or not eigenvectors of the pencil)",
                        unit="modal:orthogonal")
            dup = np.abs(Gn) - np.eye(len(lam))
            if len(lam) > 1 and np.max(np.abs(dup) * (~sep)) > 1 - 1e-9 and np.any((np.abs(Gn) > 1 - 1e-9) & ~np.eye(len(lam), dtype=bool)):
                run.fail("modal", "clause=distinct-modes", "the same eigenvector is returned more than once")
        # completeness: with the default solver the pairs are those closest to zero; for small systems with a definite mass
        # block compare with a dense generalized solve (a solver asked for another part of the spectrum would pass the residual)
        if kwargs.get("solver") is None and len(dof1) <= 600 and len(lam) >= 1:
            try:
                import scipy.linalg as sla
                Md = np.asarray(M11.todense())
                wm = np.linalg.eigvalsh(Md)
                # (under-integrated consistent mass matrices, e.g. tetra10 with its 4-point rule, are singular: no dense reference)
                wd = sla.eigh(np.asarray(K11.todense()), Md, eigvals_only=True) if wm[0] > 1e-9 * wm[-1] else None
            except Exception:
                wd = None
            if wd is None:
                run.skip("modal", "dense reference solve not available (mass block not positive definite)")
            else:
                wall = maxabs(wd)
                wd = wd[np.argsort(np.abs(wd))][: len(lam)]
                # (zero-frequency modes come out as round-off of either sign: differences are measured against the spectrum's scale)
                run.compare("modal", "clause=spectrum-closest-to-zero", maxabs(np.sort(wd) - np.sort(lam)) / max(maxabs(wd), 1e-9 * wall, 1e-300), 1e-6,
                            "the returned eigenvalues are not the ones of smallest magnitude of the constrained pencil (dense reference)",
                            unit="modal:spectrum")
        # the reference mass matrix itself against its definition rho * int h_a h_b dV on plain displacement fields
        try:
            own = own_mass(self.items, x)
        except Exception:
            own = None
        if own is not None:
            run.compare("modal", "clause=mass-matrix-definition", maxabs((M - own).toarray() if hasattr(M - own, "toarray") else (M - own)) / max(abs(own).max(), 1e-300), 1e-12,
                        "the assembled mass matrix is not rho * integral of h_a h_b over the body", unit="modal:mass-definition")
        self._vmon = {"K": K, "M": M, "dof0": dof0, "dof1": dof1}

    attach.wrap_method(FV, "evaluate", pre=pre_evaluate, post=post_evaluate)

    def post_extract(self, args, kwargs, ctx, result, exc):
        if exc is not None:
            return
        field, freq = result
        n = kwargs.get("n", args[0] if args else 0)
        info = getattr(self, "_vmon", None)
        if info is None:
            return
        vals = np.concatenate([f.values.ravel() for f in field.fields])
        run.compare("modal", "clause=zero-on-prescribed-unknowns", maxabs(vals[info["dof0"]]) if len(info["dof0"]) else 0.0, 0.0,
                    "extracted mode shape is not zero on the prescribed unknowns", unit="modal:prescribed")
        run.compare("modal", "clause=mode-shape-is-eigenvector", maxabs(vals[info["dof1"]] - self.eigenvectors[:, n]), 0.0,
                    "extracted mode shape is not the eigenvector scattered to the free unknowns", unit="modal:scatter")
        lam = self.eigenvalues[n]
        if lam >= 0:
            run.compare("modal", "clause=frequency", abs(freq - np.sqrt(lam) / (2 * np.pi)) / max(abs(freq), 1e-300), 1e-14,
                        "reported frequency is not sqrt(lambda) / (2 pi)", unit="modal:frequency")

    attach.wrap_method(FV, "extract", post=post_extract)


def shifted_solver(shift):
    from scipy.sparse.linalg import eigsh

    def solver(A, M, sigma, **kw):
        kw.pop("sigma", None)
        return eigsh(A=A, M=M, sigma=shift, **kw)
    return solver


UNIT_SYSTEMS = [lambda r: (float(10 ** r.uniform(3, 5.5)), float(10 ** r.uniform(-9, -8)), float(10 ** r.uniform(0, 2))),      # mm-t-s
                lambda r: (float(10 ** r.uniform(6, 11.3)), float(10 ** r.uniform(2.7, 4)), float(10 ** r.uniform(-3, 0)))]    # SI


def build(rng, fam, density=None, units=False):
    import felupe as fem
    mesh, L = problems.box_mesh(fam, rng, n=None, lengths=rng.uniform(0.8, 3.0, 3 if fam in ("hexahedron", "hexahedron20", "hexahedron27", "tetra", "tetra10") else 2))
    d = mesh.dim
    E, nu = float(rng.uniform(1, 100)), float(rng.uniform(0.1, 0.4))
    if units:
        # another, consistent unit system: mm-t-s (steel: E = 2.1e5, rho = 7.85e-9, part sizes 1..100) or SI (E = 1e6..2e11,
        # rho = 5e2..1e4, part sizes 1e-3..1): the eigenpairs are those of the matrices the items assemble, whatever their magnitudes
        E, rho_u, sL = UNIT_SYSTEMS[int(rng.integers(0, len(UNIT_SYSTEMS)))](rng)
        density = rho_u if density is None else density
        mesh = mesh.copy(points=mesh.points * sL)
        L = L * sL
    if d == 3:
        field = problems.field_for(fam, mesh, "3d")
        umat = fem.LinearElastic(E=E, nu=nu)
    else:
        field = problems.field_for(fam, mesh, "planestrain")
        umat = fem.constitution.LinearElasticPlaneStrain(E=E, nu=nu)
    rho = float(rng.uniform(0.5, 5)) if density is None else density
    # every second body carries a stiffness multiplier (the analysis must use multiplier * matrix, as Newton does)
    mult = float(rng.uniform(0.3, 3)) if rng.integers(0, 2) else None
    return fem.SolidBody(umat, field, density=rho, multiplier=mult), field, mesh, L, (E * (mult or 1.0), nu, rho)


def case_constrained(fam, rep):
    def fn(run):
        import felupe as fem
        rng = rng_for(run.seed, "C18", "constrained", fam, rep)
        attach_hooks(run)
        try:
            solid, field, mesh, L, par = build(rng, fam, units=bool((rep // 3) % 2) or rep % 2 == 1)
            if (rep // 3) % 2 or rep % 2 == 1:
                run.units["modal:other-unit-system"] += 1
            bkind = rep % 3
            if bkind == 0:
                b = {"left": fem.Boundary(field[0], fx=0.0)}
            elif bkind == 1:
                b = {"left": fem.Boundary(field[0], fx=0.0, skip=(0, 1, 1)[: mesh.dim]), "bottom": fem.Boundary(field[0], fy=0.0, skip=(1, 0, 1)[: mesh.dim]),
                     "pin": fem.Boundary(field[0], fx=0.0, fy=0.0, mode="and")}
            else:
                b = fem.dof.symmetry(field[0])
                b["right"] = fem.Boundary(field[0], fx=float(L[0]))
            k = int(rng.integers(1, 13))
            nfree = len(fem.dof.partition(field, b)[1])
            k = max(1, min(k, nfree - 2))  # ARPACK needs k < N
            job = fem.FreeVibration([solid], b).evaluate(k=k)
            for n in range(k):
                job.extract(n, inplace=False)
            run.configs.add(str(("constrained", fam, bkind, k)))
            # the same job object evaluated again with another boundary dictionary (and number of modes): nothing of the first
            # evaluation may survive (free unknowns, pairs, shapes)
            job.boundaries = dict(b, **{"far": fem.Boundary(field[0], fx=float(L[0]))}) if bkind != 2 else {"left": fem.Boundary(field[0], fx=0.0)}
            nfree2 = len(fem.dof.partition(field, job.boundaries)[1])
            k2 = max(1, min(k + 1, nfree2 - 2))
            job.evaluate(k=k2)
            job.extract(0, inplace=False)
            run.units["modal:re-evaluated-with-other-boundaries"] += 1
            # the same body in a sweep of unit systems (stiffness and density magnitudes from 1e-9 to 1e6)
            um = solid.umat
            sweep = ((5, -9), (4, -8), (3, -9), (0, -6), (2, -7), (0, 0))[rep % 2::2] if 0.5 < float(np.max(L)) < 5 else ()
            for e10, r10 in sweep:
                um2 = type(um)(E=float(rng.uniform(1, 9)) * 10.0 ** e10, nu=um.nu)
                s2 = fem.SolidBody(um2, field, density=float(rng.uniform(1, 9)) * 10.0 ** r10)
                try:
                    fem.FreeVibration([s2], b).evaluate(k=k)
                    run.units["modal:unit-sweep"] += 1
                except Exception as exc:
                    if type(exc).__name__ == "ArpackError" or "ARPACK" in str(exc):
                        # the eigensolver refuses the pencil: on the unchanged tree this does not happen for these well-posed
                        # problems; it is reported, as the pairs that should have been returned are missing
                        run.fail("modal", "clause=eigenpairs-returned unit-system", "FreeVibration.evaluate fails on a well-posed problem in another unit system: %s" % str(exc)[:80])
                    else:
                        raise
        finally:
            attach.detach_all()
    return fn


def case_items(fam, rep):
    """Several items on one field (each with its own multiplier and density), the condensed nearly-incompressible body as item,
    threaded assembly."""
    def fn(run):
        import felupe as fem
        rng = rng_for(run.seed, "C18", "items", fam, rep)
        attach_hooks(run)
        try:
            solid, field, mesh, L, par = build(rng, fam)
            umat2 = type(solid.umat)(E=float(rng.uniform(1, 50)), nu=float(rng.uniform(0.1, 0.4)))
            s2 = fem.SolidBody(umat2, field, density=float(rng.uniform(0.5, 5)), multiplier=float(rng.uniform(0.3, 3)) if rep % 2 else None)
            b = {"left": fem.Boundary(field[0], fx=0.0)}
            nfree = len(fem.dof.partition(field, b)[1])
            k = max(1, min(int(rng.integers(2, 9)), nfree - 2))
            items = [solid, s2]
            if rep % 3 == 0:
                items.append(fem.SolidBodyNearlyIncompressible(fem.NeoHooke(mu=float(rng.uniform(0.5, 2))), field, bulk=float(rng.uniform(20, 200)),
                                                              density=float(rng.uniform(0.5, 5))))
                run.units["modal:item:SolidBodyNearlyIncompressible"] += 1
            job = fem.FreeVibration(items, b).evaluate(k=k, parallel=bool(rep % 2))
            for n in range(k):
                job.extract(n, inplace=False)
            run.units["modal:items>=2"] += 1
            if rep % 2:
                run.units["modal:parallel"] += 1
            run.configs.add(str(("items", fam, len(items), rep % 2)))
        finally:
            attach.detach_all()
    return fn


def case_submesh(rep):
    """Two bodies on complementary sub-meshes of one point set, evaluated with the global field as x0 (the documented layout of
    multi-body models): the spectrum is that of the one-body model of the whole mesh."""
    def fn(run):
        import felupe as fem
        rng = rng_for(run.seed, "C18", "submesh", rep)
        attach_hooks(run)
        try:
            fam = ["hexahedron", "quad", "tetra"][rep % 3]
            solid, field, mesh, L, (E, nu, rho) = build(rng, fam)
            um = solid.umat
            mult = solid.assemble.multiplier
            cx = mesh.points[mesh.cells].mean(1)[:, 0]
            left = cx < np.median(cx)
            parts = []
            for sel in (left, ~left):
                mm = fem.Mesh(mesh.points, mesh.cells[sel], mesh.cell_type)
                fk = problems.field_for(fam, mm, "3d" if mesh.dim == 3 else "planestrain")
                parts.append(fem.SolidBody(um, fk, density=rho, multiplier=mult))
            b = {"left": fem.Boundary(field[0], fx=0.0)}
            nfree = len(fem.dof.partition(field, b)[1])
            k = max(1, min(int(rng.integers(2, 7)), nfree - 2))
            one = fem.FreeVibration([solid], b).evaluate(k=k)
            two = fem.FreeVibration(parts[::-1] if rep % 2 else parts, b).evaluate(k=k, x0=field)
            run.compare("modal.submesh", "clause=sub-mesh-bodies-equal-one-body", maxabs(np.sort(two.eigenvalues) - np.sort(one.eigenvalues)) / maxabs(one.eigenvalues), 1e-8,
                        "two bodies on complementary sub-meshes (evaluated with the global field) do not have the spectrum of the one-body model",
                        unit="modal:sub-mesh-items", config=("submesh", fam))
        finally:
            attach.detach_all()
    return fn


def case_rigid(fam, rep):
    def fn(run):
        import felupe as fem
        rng = rng_for(run.seed, "C18", "rigid", fam, rep)
        attach_hooks(run)
        try:
            solid, field, mesh, L, (E, nu, rho) = build(rng, fam)
            d = mesh.dim
            nrig = 3 if d == 2 else 6
            k = nrig + 4
            scale = E / (rho * float(np.max(L)) ** 2)
            job = fem.FreeVibration([solid]).evaluate(k=k, solver=shifted_solver(-1e-3 * scale))
            lam = np.sort(job.eigenvalues)
            nz = int(np.sum(np.abs(lam) < 1e-7 * lam[nrig]))
            # the same unconstrained body on a mesh that carries points without cells (as the sub-meshes of a merged container do):
            # their unknowns are prescribed, the spectrum is the one of the body
            mx = mesh.copy()
            mx.update(points=np.vstack([mesh.points, mesh.points.max(0) + 0.5, mesh.points.min(0) - 0.7]))
            fx = problems.field_for(fam, mx, "3d" if d == 3 else "planestrain")
            sx = fem.SolidBody(solid.umat, fx, density=rho, multiplier=solid.assemble.multiplier)
            jx = fem.FreeVibration([sx])
            try:
                jx.evaluate(k=k, solver=shifted_solver(-1e-3 * scale))
                run.compare("modal.rigid", "clause=points-without-cells-do-not-change-the-spectrum", maxabs(np.sort(jx.eigenvalues) - lam) / max(maxabs(lam), 1e-300), 1e-7,
                            "an unconstrained body on a mesh with cell-less points has another spectrum than on its own mesh", unit="modal:cell-less-points")
            except RuntimeError as exc:
                free = np.asarray(getattr(jx, "dof1", []))
                cellless = np.arange(mesh.npoints * d, mx.npoints * d)
                if np.intersect1d(free, cellless).size:
                    run.fail("modal", "clause=free-unknowns cell-less points", "unknowns of points without cells are left free (the eigen-solver fails: %s)" % str(exc)[:60])
                else:
                    raise
            if nz == nrig:
                run.ok("modal.rigid", unit="modal:rigid-modes:%dd" % d, config=("rigid", fam), sample={"family": fam, "eigenvalues": lam.tolist()})
            else:
                run.fail("modal.rigid", "clause=rigid-mode-count dim=%d" % d, "unconstrained linear-elastic %s body has %d zero-frequency modes, "
                         "expected %d" % (fam, nz, nrig), {"eigenvalues": lam})
            # invariance of the spectrum under rigid motion of the mesh
            Q = random_rotation(rng, d)
            t = rng.uniform(-3, 3, d)
            mesh2 = mesh.copy(points=mesh.points @ Q.T + t)
            field2 = problems.field_for(fam, mesh2, "3d" if d == 3 else "planestrain")
            solid2 = fem.SolidBody(solid.umat, field2, density=rho, multiplier=solid.assemble.multiplier)
            job2 = fem.FreeVibration([solid2]).evaluate(k=k, solver=shifted_solver(-1e-3 * scale))
            lam2 = np.sort(job2.eigenvalues)
            run.compare("modal.rigid", "clause=rigid-motion-invariance", maxabs(lam2[nrig:] - lam[nrig:]) / lam[-1], 1e-8,
                        "elastic spectrum changes under a rigid motion of the mesh", unit="modal:invariance", config=("invariance", fam))
            run.compare("modal.rigid", "clause=rigid-motion-invariance-zero-modes", maxabs(lam2[:nrig]) / lam[-1], 1e-7,
                        "zero-frequency modes do not stay zero under a rigid motion of the mesh", unit="modal:invariance")
        finally:
            attach.detach_all()
    return fn


def case_prestretched(fam, rep):
    def fn(run):
        """Modal analysis about a converged, pre-stretched state: the field carries non-zero values on prescribed unknowns."""
        import felupe as fem
        rng = rng_for(run.seed, "C18", "prestretched", fam, rep)
        attach_hooks(run)
        try:
            mesh, L = problems.box_mesh(fam, rng)
            d = mesh.dim
            field = problems.field_for(fam, mesh, "3d" if d == 3 else "planestrain")
            solid = fem.SolidBody(fem.NeoHooke(mu=float(rng.uniform(0.5, 2)), bulk=float(rng.uniform(2, 8))), field, density=float(rng.uniform(0.5, 3)))
            b, lc = fem.dof.uniaxial(field, clamped=True, move=float(rng.uniform(0.1, 0.3)) * L[0], sym=False)
            fem.newtonrhapson(items=[solid], verbose=False, **lc)
            k = max(1, min(int(rng.integers(2, 7)), len(fem.dof.partition(field, b)[1]) - 2))  # the sparse eigensolver needs k < N
            job = fem.FreeVibration([solid], b).evaluate(k=k)
            for n in range(k):
                job.extract(n, inplace=False)
            job.extract(0, inplace=True)
            run.units["modal:prestretched"] += 1
            run.configs.add(str(("prestretched", fam, k)))
        finally:
            attach.detach_all()
    return fn


def case_mixed(rep):
    def fn(run):
        import felupe as fem
        rng = rng_for(run.seed, "C18", "mixed", rep)
        attach_hooks(run)
        try:
            mesh, L = problems.box_mesh("hexahedron", rng, n=(3, 4, 3))
            reg = fem.RegionHexahedron(mesh)
            field = fem.FieldsMixed(reg, n=3)
            umat = fem.ThreeFieldVariation(fem.NeoHooke(mu=float(rng.uniform(0.5, 2)), bulk=float(rng.uniform(5, 50))))
            solid = fem.SolidBody(umat, field, density=float(rng.uniform(0.5, 3)))
            b = {"left": fem.Boundary(field[0], fx=0.0)}
            k = max(1, min(int(rng.integers(2, 7)), len(fem.dof.partition(field, b)[1]) - 2))  # the sparse eigensolver needs k < N
            job = fem.FreeVibration([solid], b).evaluate(k=k)
            job.extract(k - 1, inplace=False)
            run.units["modal:mixed-container"] += 1
        finally:
            attach.detach_all()
    return fn


def cases(tier, seed):
    out = []
    reps = 3 if tier == "quick" else 12
    for fam in ("hexahedron", "hexahedron20", "tetra", "tetra10", "quad", "triangle", "quad8", "triangle6", "hexahedron27", "quad9"):
        for rep in range(reps):
            out.append(("constrained:%s:%d" % (fam, rep), case_constrained(fam, rep)))
    for fam in ("hexahedron", "tetra", "quad", "triangle", "quad8", "tetra10"):
        for rep in range(1 if tier == "quick" else 4):
            out.append(("rigid:%s:%d" % (fam, rep), case_rigid(fam, rep)))
    for rep in range(1 if tier == "quick" else 4):
        out.append(("mixed:%d" % rep, case_mixed(rep)))
    for fam in ("hexahedron", "quad", "tetra10"):
        for rep in range(2 if tier == "quick" else 6):
            out.append(("items:%s:%d" % (fam, rep), case_items(fam, rep)))
    for rep in range(3 if tier == "quick" else 9):
        out.append(("submesh:%d" % rep, case_submesh(rep)))
    for fam in ("hexahedron", "quad", "tetra"):
        for rep in range(1 if tier == "quick" else 4):
            out.append(("prestretched:%s:%d" % (fam, rep), case_prestretched(fam, rep)))
    return out


SPEC = {
    "required_units": ["modal:residual", "modal:prescribed", "modal:scatter", "modal:frequency", "modal:rigid-modes:2d", "modal:rigid-modes:3d",
                       "modal:invariance", "modal:mixed-container", "modal:prestretched", "modal:orthogonal", "modal:items>=2", "modal:parallel",
                       "modal:item:SolidBodyNearlyIncompressible", "modal:other-unit-system", "modal:unit-sweep", "modal:spectrum", "modal:mass-definition", "modal:sub-mesh-items", "modal:re-evaluated-with-other-boundaries", "modal:cell-less-points"],
    "rule": ("linear-elastic bodies on 8 element families (3D and plane strain) with random box dimensions, elastic constants, densities, three "
             "kinds of boundary dictionaries, 1..12 requested modes; unconstrained bodies through a solver= with a small negative shift; "
             "mixed u/p/J container; every evaluate()/extract() is judged by the post-hooks with K and M re-assembled from item copies; a "
             "configuration is distinct by (family, boundary kind, number of modes)"),
    "assumptions": ["completeness of the spectrum: rigid-mode count, and a dense generalized solve for systems up to 600 free unknowns with the default solver", "the shifted solver for singular K is API the class offers (solver=)"],
    "jobs": {"quick": 8, "thorough": 16},
}
