"""C13 - boundary regions describe closed surfaces consistently with the volume.

A post-hook on ``RegionBoundary.__init__`` judges every boundary region that is
built (unit outward normals, orthogonal unit tangents, closure, flux = dim*V,
per-cell closure, cells_faces on the first face).  The workload builds all six
templates on generated meshes; the mask clause compares masked and unmasked
regions as sets of faces.
"""
import numpy as np

from .. import attach, gen
from ..monitors import boundary as MB
from ..util import maxabs, rng_for

TEMPLATES = {"quad": "RegionQuadBoundary", "quad8": "RegionQuadraticQuadBoundary",
             "quad9": "RegionBiQuadraticQuadBoundary", "hexahedron": "RegionHexahedronBoundary",
             "hexahedron20": "RegionQuadraticHexahedronBoundary", "hexahedron27": "RegionTriQuadraticHexahedronBoundary"}


UNITS = (1.0, 1e-5, 1e3, 1e-3, 1.0, 1e-7)
GEO_INDEX = {g: i for i, g in enumerate(gen.GEOMETRIES)}


def faces_as_sets(rb):
    return set(frozenset(int(i) for i in f) for f in rb.mesh.cells_faces)


def case(fam, geometry, rep):
    def fn(run):
        import felupe as fem
        rng = rng_for(run.seed, "C13", fam, geometry, rep)
        dim = gen.FAMILIES[fam]["dim"]
        n = tuple(int(x) for x in rng.integers(2, 5, dim)) if rep else None
        mesh, info = gen.build_mesh(fam, geometry, rng, n=n)
        # the identities carry no length unit: the same body in micrometre- or kilometre-sized coordinates (areas of 1e-12 .. 1e6)
        unit = UNITS[(list(TEMPLATES).index(fam) + GEO_INDEX[geometry] + rep + run.seed) % len(UNITS)]
        if unit != 1.0:
            mesh = fem.Mesh(mesh.points * unit, mesh.cells, mesh.cell_type)
        run.units["length-unit=%g" % unit] += 1
        if geometry in ("distorted", "curved") or rep % 2:
            # point numbers carry no meaning: the same body with its points in random order (generators number them structured)
            perm = rng.permutation(mesh.npoints)
            inv = np.empty_like(perm)
            inv[perm] = np.arange(mesh.npoints)
            mesh = fem.Mesh(mesh.points[perm], inv[mesh.cells], mesh.cell_type)
            run.units["points-in-random-order"] += 1
        R = getattr(fem, TEMPLATES[fam])
        MB.attach_hook(run)
        try:
            built = {}
            for only_surface in (True, False):
                for ensure_3d in ((False, True) if dim == 2 else (False,)):
                    rb = R(mesh, only_surface=only_surface, ensure_3d=ensure_3d)
                    built[(only_surface, ensure_3d)] = rb
                    run.configs.add(str((fam, geometry, only_surface, ensure_3d)))
            # other admissible constructions of the same regions (each judged by the hook like the default ones):
            # boundary rules of other orders, 3d vectors on request, a mask together with them
            for o in ((2, 3) if run.tier == "quick" else (2, 3, 4)):
                R(mesh, quadrature=fem.GaussLegendreBoundary(order=o, dim=dim), only_surface=bool(o % 2))
                run.units[fam + ":quadrature-order=%d" % o] += 1
            if dim == 3:
                R(mesh, ensure_3d=True)
            edge = np.isclose(mesh.points[:, 0], mesh.points[:, 0].min()) | (rng.uniform(size=mesh.npoints) < 0.5)
            R(mesh, mask=edge, ensure_3d=True, only_surface=False)
            if fam in ("quad", "hexahedron"):
                # cells numbered from another corner / with another local orientation (still positive), a body with a re-entrant
                # corner (one cell removed), a single cell
                perm = [1, 2, 3, 0] if fam == "quad" else [1, 5, 6, 2, 0, 4, 7, 3]
                c2 = mesh.cells.copy()
                c2[::2] = c2[::2][:, perm]
                m2 = fem.Mesh(mesh.points, c2, mesh.cell_type)
                for s_ in (True, False):
                    R(m2, only_surface=s_)
                m3 = fem.Mesh(mesh.points, mesh.cells[1:], mesh.cell_type)
                if m3.ncells:
                    keep = np.unique(m3.cells)
                    remap = -np.ones(mesh.npoints, int)
                    remap[keep] = np.arange(len(keep))
                    m3 = fem.Mesh(mesh.points[keep], remap[m3.cells], mesh.cell_type)
                    R(m3)
                m1 = fem.Mesh(mesh.points[mesh.cells[0]], np.arange(mesh.cells.shape[1]).reshape(1, -1), mesh.cell_type)
                r1a, r1b = R(m1, only_surface=True), R(m1, only_surface=False)
                if len(r1a.mesh.cells) == len(r1b.mesh.cells) == (4 if dim == 2 else 6):
                    run.ok("boundary.surface-selection", unit=fam + ":single-cell")
                else:
                    run.fail("boundary.surface-selection", "celltype=%s clause=single-cell" % fam, "a single cell does not have all its faces on the surface")
                run.units[fam + ":renumbered+re-entrant"] += 1
            # copies and reloads of a boundary region are boundary regions of the same (resp. the new) geometry
            rb0 = built[(True, False)]
            MB.check_boundary_region(run, rb0.copy(), mesh, label=fam + "[copy]")
            run.units[fam + ":copy"] += 1
            size = float(np.ptp(mesh.points, axis=0).max())  # translations in units of the body (a far-away body only costs digits)
            m_upd = mesh.copy()
            rbu = R(m_upd)
            A_, t_ = gen.random_affine(rng, dim)
            rbu.mesh.update(points=rbu.mesh.points @ A_.T + size * t_, callback=rbu.reload)
            MB.check_boundary_region(run, rbu, mesh.copy(points=mesh.points @ A_.T + size * t_), label=fam + "[reload]")
            run.units[fam + ":reload"] += 1
            # the documented refresh after moving the body: the *user's* mesh is updated and hands itself to the region's reload
            m_usr = mesh.copy()
            rbv = R(m_usr, only_surface=bool(rep % 2 == 0))
            A2, t2 = gen.random_affine(rng, dim)
            m_usr.update(points=m_usr.points @ A2.T + size * t2, callback=rbv.reload)
            MB.check_boundary_region(run, rbv, mesh.copy(points=mesh.points @ A2.T + size * t2), label=fam + "[reload by the body's mesh]")
            run.units[fam + ":reload-by-body-mesh"] += 1
            # the geometric gradient of the boundary cells stays the derivative of the position (dXdr drdX = 1)
            one = np.einsum("IKqc,KJqc->IJqc", rb0.dXdr, rb0.drdX)
            run.compare("boundary.geometry", "celltype=%s clause=dXdr-times-drdX" % fam, maxabs(one - np.eye(dim).reshape(dim, dim, 1, 1)), 1e-10,
                        "%s: region.dXdr is not the inverse of region.drdX after the faces were initialised" % fam, unit=fam + ":dXdr")
            # surface selection == faces that occur exactly once among all faces
            allf = built[(False, False)]
            cnt = {}
            for f in allf.mesh.cells_faces:
                k = frozenset(int(i) for i in f)
                cnt[k] = cnt.get(k, 0) + 1
            once = set(k for k, v in cnt.items() if v == 1)
            if faces_as_sets(built[(True, False)]) == once and len(built[(True, False)].mesh.cells) == len(once):
                run.ok("boundary.surface-selection", unit=fam + ":surface-selection")
            else:
                run.fail("boundary.surface-selection", "celltype=%s clause=surface-selection" % fam,
                         "%s: only_surface does not select exactly the faces that occur once" % fam)
            # mask clause
            X = mesh.points
            masks = []
            lo, hi = X.min(0), X.max(0)
            for k in range(3 if run.tier == "quick" else 8):
                ax = int(rng.integers(0, dim))
                thr = lo[ax] + rng.uniform(0.2, 0.8) * (hi[ax] - lo[ax])
                masks.append(X[:, ax] >= thr if rng.integers(0, 2) else X[:, ax] <= thr)
            masks.append(rng.uniform(size=len(X)) < 0.7)
            # designed masks: all points of some faces, and of further faces everything but one node (corner or mid node) - these
            # tell "all points of the face" from "its corners" / "most of its points" for every cell type
            allfaces = np.asarray(built[(False, False)].mesh.cells_faces)
            for k in range(2 if run.tier == "quick" else 5):
                pick = rng.uniform(size=len(allfaces)) < 0.35
                if not pick.any():
                    pick[int(rng.integers(0, len(allfaces)))] = True
                md = np.zeros(len(X), bool)
                md[allfaces[pick].ravel()] = True
                for f in allfaces[~pick]:
                    j = int(rng.integers(0, len(f))) if k % 2 else len(f) - 1  # leave one node out: any node / the last (a mid node of quadratic faces)
                    keep = np.delete(f, j)
                    if not md[f[j]]:
                        md[keep] = True
                masks.append(md)
                masks.append(np.where(md)[0])  # the same selection as an array of point indices
            for only_surface in (True, False):
                universe = built[(only_surface, False)]
                for m_arg in masks:
                    m = np.isin(np.arange(len(X)), m_arg) if np.asarray(m_arg).dtype != bool else m_arg
                    sel = set(np.arange(len(X))[m].tolist())
                    expect = set(f for f in faces_as_sets(universe) if f <= sel)
                    if not expect:
                        run.skip("boundary.mask", "mask selects no face")
                        continue
                    rbm = R(mesh, only_surface=only_surface, mask=m_arg)
                    got = faces_as_sets(rbm)
                    if got == expect and len(rbm.mesh.cells) == sum(1 for f in universe.mesh.cells_faces
                                                                     if frozenset(int(i) for i in f) <= sel):
                        run.ok("boundary.mask", unit=fam + ":mask", config=(fam, geometry, "mask", only_surface))
                    else:
                        run.fail("boundary.mask", "celltype=%s clause=mask only_surface=%s" % (fam, only_surface),
                                 "%s: mask selects other faces than those whose points all satisfy it" % fam,
                                 {"expected": len(expect), "got": len(got)})
        finally:
            attach.detach_all()
    return fn


def cases(tier, seed):
    out = []
    reps = 1 if tier == "quick" else 4
    for fam in TEMPLATES:
        for geo in gen.GEOMETRIES:
            for rep in range(reps):
                out.append(("%s:%s:%d" % (fam, geo, rep), case(fam, geo, rep)))
    return out


def _required():
    req = []
    for fam in TEMPLATES:
        for s in (True, False):
            u = "%s:only_surface=%s" % (fam, s)
            req += [u + ":normals", u + ":tangents", u + ":outward", u + ":flux"]
        req += ["%s:only_surface=True:closure" % fam, "%s:only_surface=False:cell-closure" % fam, fam + ":mask",
                fam + ":cells_faces", fam + ":surface-selection", fam + ":reload-by-body-mesh"]
    req += ["quad:ensure_3d", "quad8:ensure_3d", "quad9:ensure_3d", "points-in-random-order", "length-unit=1", "length-unit=1e-05", "length-unit=0.001", "length-unit=1000", "length-unit=1e-07"]
    req += ["%s:only_surface=%s:face-area-vector" % (f, s_) for f in ("quad", "hexahedron") for s_ in (True, False)]
    return req


SPEC = {
    "required_units": _required(),
    "rule": ("six boundary templates x geometric classes (undistorted, affine, straight-distorted, curved by a smooth map with "
             "bounded gradient) x length units 1e-7 .. 1e3 x only_surface x ensure_3d x random point masks on seeded meshes of 2..12 cells; the "
             "RegionBoundary.__init__ post-hook evaluates every identity; a configuration is distinct by (cell type, "
             "geometry class, flags, clause)"),
    "assumptions": ["outwardness is judged against the vertex centroid of the owning cell (valid for the generated, mildly "
                    "distorted cells)", "the volume on the right-hand side of the flux identity is the one measured by the "
                    "corresponding volume region (as the property states)"],
    "jobs": {"quick": 6, "thorough": 12},
}
