"""C13 - boundary regions describe closed surfaces consistently with the volume.

A post-hook on ``RegionBoundary.__init__`` judges every boundary region that is
built (unit outward normals, orthogonal unit tangents, closure, flux = dim*V,
per-cell closure, cells_faces on the first face).  The workload builds all six
templates on generated meshes; the mask clause compares masked and unmasked
regions as sets of faces.

Fourth audit: the complementary half of the rotated boundary cell (which no area vector feels) is judged against an own table of
rotations in the hook and by the closed form of ``dXdr[:, -1]`` on parallelepiped cells; flags and rule that gate the clauses are the caller's.

The expected faces (surface selection, mask clause, emptied selections) come from an own table of the cells' reference
coordinates, not from the library's ``cells_faces``; bodies carry points without cells, are rings / revolved rings / two bodies
in one mesh, have their cells numbered from any corner; masks and flags arrive in every admissible type.
"""
import collections

import numpy as np

from .. import attach, gen
from ..monitors import boundary as MB
from ..util import maxabs, rng_for

TEMPLATES = {"quad": "RegionQuadBoundary", "quad8": "RegionQuadraticQuadBoundary",
             "quad9": "RegionBiQuadraticQuadBoundary", "hexahedron": "RegionHexahedronBoundary",
             "hexahedron20": "RegionQuadraticHexahedronBoundary", "hexahedron27": "RegionTriQuadraticHexahedronBoundary"}


ELEMENTS = {"quad": "Quad", "quad8": "QuadraticQuad", "quad9": "BiQuadraticQuad", "hexahedron": "Hexahedron",
            "hexahedron20": "QuadraticHexahedron", "hexahedron27": "TriQuadraticHexahedron"}
FACE_MESH = {"quad": "line", "quad8": "line3", "quad9": "line3", "hexahedron": "quad"}  # mesh_faces() is defined for these

UNITS = (1.0, 1e-5, 1e3, 1e-3, 1.0, 1e-7)
GEO_INDEX = {g: i for i, g in enumerate(gen.GEOMETRIES)}
MASK_TYPES = ("list-of-bools", "list-of-indices", "int32-indices", "negative-indices", "repeated-indices")
TOPOLOGIES = ("ring", "two-bodies", "coincident-bodies")


def faces_as_sets(rb):
    return set(frozenset(int(i) for i in f) for f in rb.mesh.cells_faces)


def faces_as_sets_list(rb):
    return [frozenset(f) for f in np.asarray(rb.mesh.cells_faces).tolist()]


# own table of reference coordinates (the monitor judges the rotated boundary cells against the same table)
REF = MB.REF


def own_faces(mesh):
    """All 2 * dim faces of every cell as sets of point numbers (cell after cell): the nodes whose reference coordinate along one
    axis is -1 resp. +1."""
    ref = REF[mesh.cell_type]
    out = []
    for c in np.asarray(mesh.cells).tolist():
        for ax in range(ref.shape[1]):
            for sg in (-1.0, 1.0):
                out.append(frozenset(c[a] for a in np.where(ref[:, ax] == sg)[0]))
    return out


proper_rotations, local_renumbering = MB.proper_rotations, MB.local_renumbering


def selected_points(m_arg, n):
    """The set of point numbers a mask stands for: a boolean entry per point, or point numbers (negative ones count from the end,
    as everywhere in numpy; a number listed twice is still one point)."""
    a = np.asarray(m_arg)
    if a.dtype == bool:
        return set(np.where(a)[0].tolist())
    return set((a.astype(np.int64) % n).tolist()) if a.size else set()


def other_topology(fem, fam, kind, rng, unit):
    """Bodies that are no simply connected single box: a closed ring of cells (seam merged; revolved by 360 degrees in 3D), two
    separate bodies in one mesh, two coincident bodies that share no point. Faces are identified by point numbers, so numbering and
    topology are what matters."""
    dim = gen.FAMILIES[fam]["dim"]
    if kind == "ring":
        nr, nt = int(rng.integers(2, 4)), int(rng.integers(6, 9))
        if dim == 2:
            b = fem.Rectangle(a=(1.0, 0.0), b=(2.0, 2 * np.pi), n=(nr, nt))
            P = b.points
            b = fem.mesh.merge_duplicate_points(fem.Mesh(np.c_[P[:, 0] * np.cos(P[:, 1]), P[:, 0] * np.sin(P[:, 1])], b.cells, "quad"), decimals=8)
        else:
            b = fem.Rectangle(a=(0.0, 1.0), b=(1.0, 2.0), n=(2, nr)).revolve(n=nt, phi=360)
    else:
        if dim == 2:
            a_ = fem.Rectangle(a=(0.0, 0.0), b=(1.0, 1.3), n=(2, 3))
            b_ = fem.Rectangle(a=(2.0, 0.0), b=(3.1, 1.0), n=(3, 2)) if kind == "two-bodies" else a_
        else:
            a_ = fem.Cube(a=(0.0, 0.0, 0.0), b=(1.0, 1.3, 0.8), n=(2, 3, 2))
            b_ = fem.Cube(a=(2.0, 0.0, 0.0), b=(3.1, 1.0, 1.0), n=(3, 2, 2)) if kind == "two-bodies" else a_
        b = fem.Mesh(np.vstack([a_.points, b_.points]), np.vstack([a_.cells, b_.cells + a_.npoints]), a_.cell_type)
    m = gen.FAMILIES[fam]["conv"](b)
    return fem.Mesh(m.points * unit, m.cells, m.cell_type)


def asked(only_surface=True, ensure_3d=False, mask=None, nq=None, **ignored):
    """The flags a region was constructed with, as the workload passed them (documented defaults for the others): what gates the
    clauses of the monitor for regions that went through copy / reload (the region's own attributes are not asked)."""
    return {"only_surface": bool(only_surface), "ensure_3d": bool(ensure_3d), "masked": mask is not None, "nq": nq}


def judge_moved(run, rb, expected, label, nq=None, volume=None, flags=None):
    """A region that went through copy / reload describes the geometry the caller handed over: its points are those points (a
    shadow of the arguments; a refresh that silently keeps the old geometry is consistent in itself), its rule is the requested
    one, and all identities of the hook hold for it."""
    err = maxabs(rb.mesh.points - expected.points) / maxabs(expected.points)
    run.compare("boundary.geometry", "celltype=%s clause=points-of-the-refreshed-region" % label, err, 0.0,
                "%s: the region does not carry the points it was refreshed with" % label, unit="refreshed-points")
    if nq is not None and not (rb.dA.shape[1] == rb.dV.shape[0] == rb.normals.shape[1] == nq):
        run.fail("boundary.geometry", "celltype=%s clause=rule-of-the-refreshed-region" % label,
                 "%s: dA / dV / normals are not given at the points of the requested rule" % label, {"dA": rb.dA.shape, "nq": nq})
    MB.check_boundary_region(run, rb, expected, label=label, volume=volume, generated=True, flags=None if flags is None else dict(flags, nq=nq))


def case(fam, geometry, rep):
    def fn(run):
        import felupe as fem
        rng = rng_for(run.seed, "C13", fam, geometry, rep)
        dim = gen.FAMILIES[fam]["dim"]
        n = tuple(int(x) for x in rng.integers(2, 5, dim)) if rep else None
        mesh, info = gen.build_mesh(fam, geometry, rng, n=n)
        # the identities carry no length unit: the same body in micrometre- or kilometre-sized coordinates (areas of 1e-12 .. 1e6)
        unit = UNITS[(list(TEMPLATES).index(fam) + GEO_INDEX[geometry] + rep + run.seed) % len(UNITS)]
        if unit != 1.0:
            mesh = fem.Mesh(mesh.points * unit, mesh.cells, mesh.cell_type)
        run.units["length-unit=%g" % unit] += 1
        if geometry in ("distorted", "curved") or rep % 2:
            # point numbers carry no meaning: the same body with its points in random order (generators number them structured)
            perm = rng.permutation(mesh.npoints)
            inv = np.empty_like(perm)
            inv[perm] = np.arange(mesh.npoints)
            mesh = fem.Mesh(mesh.points[perm], inv[mesh.cells], mesh.cell_type)
            run.units["points-in-random-order"] += 1
        fi, gi = list(TEMPLATES).index(fam), GEO_INDEX[geometry]
        if (fi + gi // 2 + rep + run.seed) % 2 == 0:
            # points that belong to no cell are a documented state of a mesh (reference points of constraints are appended to the
            # body's mesh): point numbers then differ from positions among the used points. A few of them, in and around the body,
            # at random places of the point list
            k = int(rng.integers(2, 5))
            lo_, hi_ = mesh.points.min(0), mesh.points.max(0)
            extra = 0.5 * (lo_ + hi_) + (hi_ - lo_) * rng.uniform(-1.0, 1.0, (k, dim))
            is_new = np.zeros(mesh.npoints + k, bool)
            is_new[rng.choice(mesh.npoints + k, k, replace=False)] = True
            pts = np.empty((mesh.npoints + k, dim))
            pts[~is_new], pts[is_new] = mesh.points, extra
            mesh = fem.Mesh(pts, np.where(~is_new)[0][mesh.cells], mesh.cell_type)
            run.units[fam + ":points-without-cells"] += 1
        used = np.zeros(mesh.npoints, bool)
        used[np.unique(mesh.cells)] = True
        R = getattr(fem, TEMPLATES[fam])
        MB.attach_hook(run)
        # the volume of the body as the generator knows it (not for the curved class); all meshes of this case are valid by construction
        volume = None if info["volume"] is None else info["volume"] * unit ** dim
        MB.declare(mesh, volume)
        try:
            built = {}
            for only_surface in (True, False):
                for ensure_3d in ((False, True) if dim == 2 else (False,)):
                    rb = R(mesh, only_surface=only_surface, ensure_3d=ensure_3d)
                    built[(only_surface, ensure_3d)] = rb
                    run.configs.add(str((fam, geometry, only_surface, ensure_3d)))
            # other admissible constructions of the same regions (each judged by the hook like the default ones):
            # boundary rules of other orders, 3d vectors on request, a mask together with them
            for o in ((2, 3) if run.tier == "quick" else (2, 3, 4)):
                R(mesh, quadrature=fem.GaussLegendreBoundary(order=o, dim=dim), only_surface=bool(o % 2))
                run.units[fam + ":quadrature-order=%d" % o] += 1
            if dim == 3:
                R(mesh, ensure_3d=True)
            # the own universe of faces: every cell's faces from the reference coordinates of its nodes; surface = faces that occur once
            own = own_faces(mesh)
            own_cnt = collections.Counter(own)
            own_once = set(f for f, v in own_cnt.items() if v == 1)
            # "the first points of the list" as point numbers, as many as it takes to complete a face: numbers are positions in the
            # point list, whether or not the points before them belong to cells (first mask of the case: a misreading that is loud for
            # other masks is silent for small numbers)
            first = np.arange(min(mesh.npoints, min(max(f) for f in own) + 1 + int(rng.integers(0, 3))))  # (a one-cell body has few points)
            for s_ in (True, False):
                rbm = R(mesh, only_surface=s_, mask=first)
                n_expect = sum(1 for f in (own_once if s_ else own) if f <= set(first.tolist()))
                if collections.Counter(faces_as_sets_list(rbm)) == collections.Counter(f for f in (own_once if s_ else own) if f <= set(first.tolist())):
                    run.ok("boundary.mask", unit=fam + ":mask-first-points", config=(fam, "mask-first-points", s_))
                else:
                    run.fail("boundary.mask", "celltype=%s clause=mask-of-the-first-points only_surface=%s" % (fam, s_),
                             "%s: the mask 0 .. %d (point numbers) selects other faces than those whose points are all among them" % (fam, first[-1]),
                             {"expected": n_expect, "got": len(rbm.mesh.cells)})
            edge = np.isclose(mesh.points[:, 0], mesh.points[used, 0].min()) | (rng.uniform(size=mesh.npoints) < 0.5)
            R(mesh, mask=edge, ensure_3d=True, only_surface=False)
            # the generic constructor of the class documentation with the element given by hand, and a rule whose points are not
            # permuted (documented flag of the boundary rule); the one-point rule (order 0) is exact where the cells are affine
            o_ = 0 if (geometry in ("undistorted", "affine") and (fi + rep + run.seed) % 2 == 0) else gen.FAMILIES[fam]["order"]
            rule = fem.GaussLegendreBoundary(order=o_, dim=dim, permute=False)
            fem.RegionBoundary(mesh, getattr(fem.element, ELEMENTS[fam])(), rule, only_surface=bool((gi + rep) % 2), ensure_3d=dim == 2)
            run.units[fam + ":generic-constructor+rule-not-permuted"] += 1
            run.units["quadrature-order=%d:not-permuted" % o_] += 1
            # flags are flags in every type that reads as a truth value (results of array comparisons are numpy booleans)
            flags = ((np.True_, False, len(own_once)), (0, 1, len(own)), (np.False_, np.True_, len(own)), (1, 0, len(own_once)))
            if run.tier == "quick":
                flags = flags[:2] if (fi + gi + run.seed) % 2 else flags[2:]
            for s_, e_, nexp in flags:
                rbf = R(mesh, only_surface=s_, ensure_3d=e_)
                good = len(rbf.mesh.cells) == nexp and rbf.dA.shape[0] == (3 if e_ else dim)
                if good:
                    run.ok("boundary.surface-selection", unit=fam + ":flag-types")
                else:
                    run.fail("boundary.surface-selection", "celltype=%s clause=flag-types only_surface=%r ensure_3d=%r" % (fam, s_, e_),
                             "%s: flags given as numpy booleans / integers are not read as truth values" % fam,
                             {"faces": len(rbf.mesh.cells), "expected": nexp, "dA rows": rbf.dA.shape[0]})
            # cells numbered from another corner / with another local orientation (still positive; all nodes of the quadratic
            # families move along), a body with a re-entrant corner (one cell removed), a single cell
            rots = proper_rotations(dim)
            perm = local_renumbering(fam, rots[int(rng.integers(0, len(rots)))])
            c2 = mesh.cells.copy()
            c2[::2] = c2[::2][:, perm]
            if (fi + gi + rep + run.seed) % 2:
                # the arrays of a mesh in another memory layout / integer width (as mesh readers deliver them)
                m2 = fem.Mesh(np.asfortranarray(mesh.points), np.asfortranarray(c2.astype(np.int32)), mesh.cell_type)
                run.units["mesh-arrays=column-major+int32"] += 1
            else:
                m2 = fem.Mesh(mesh.points, c2, mesh.cell_type)
            MB.declare(m2, volume)
            for s_ in (True, False):
                r2 = R(m2, only_surface=s_)
                # the same body: the same faces
                if collections.Counter(faces_as_sets_list(r2)) == (collections.Counter(own_once) if s_ else own_cnt):
                    run.ok("boundary.surface-selection", unit=fam + ":renumbered-faces")
                else:
                    run.fail("boundary.surface-selection", "celltype=%s clause=renumbered-cells only_surface=%s" % (fam, s_),
                             "%s: cells numbered from another corner do not have the same faces" % fam)
            m3 = fem.Mesh(mesh.points, mesh.cells[1:], mesh.cell_type)
            if m3.ncells:
                keep = np.unique(m3.cells)
                remap = -np.ones(mesh.npoints, int)
                remap[keep] = np.arange(len(keep))
                m3 = MB.declare(fem.Mesh(mesh.points[keep], remap[m3.cells], mesh.cell_type))
                R(m3)
            m1 = MB.declare(fem.Mesh(mesh.points[mesh.cells[0]], np.arange(mesh.cells.shape[1]).reshape(1, -1), mesh.cell_type))
            r1a, r1b = R(m1, only_surface=True), R(m1, only_surface=False)
            if len(r1a.mesh.cells) == len(r1b.mesh.cells) == (4 if dim == 2 else 6):
                run.ok("boundary.surface-selection", unit=fam + ":single-cell")
            else:
                run.fail("boundary.surface-selection", "celltype=%s clause=single-cell" % fam, "a single cell does not have all its faces on the surface")
            run.units[fam + ":renumbered+re-entrant"] += 1
            # bodies of another topology (one kind per case, all kinds for every cell type in every run)
            kind = TOPOLOGIES[(fi + gi + rep + run.seed) % len(TOPOLOGIES)]
            mt = MB.declare(other_topology(fem, fam, kind, rng, unit))
            t_all = own_faces(mt)
            t_cnt = collections.Counter(t_all)
            t_once = set(f for f, v in t_cnt.items() if v == 1)
            for s_ in (True, False):
                rt = R(mt, only_surface=s_)
                if collections.Counter(faces_as_sets_list(rt)) == (collections.Counter(t_once) if s_ else t_cnt):
                    run.ok("boundary.surface-selection", unit=fam + ":" + kind, config=(fam, kind, s_))
                else:
                    run.fail("boundary.surface-selection", "celltype=%s clause=surface-selection body=%s only_surface=%s" % (fam, kind, s_),
                             "%s: the faces of a %s are not those of its cells (only_surface: those that occur once)" % (fam, kind),
                             {"got": len(rt.mesh.cells), "expected": len(t_once) if s_ else len(t_all)})
            # copies and reloads of a boundary region are boundary regions of the same (resp. the new) geometry
            rb0 = built[(True, False)]
            MB.check_boundary_region(run, rb0.copy(), mesh, label=fam + "[copy]", volume=volume, generated=True, flags=asked())
            run.units[fam + ":copy"] += 1
            size = float(np.ptp(mesh.points[used], axis=0).max())  # translations in units of the body (a far-away body only costs digits)
            m_upd = mesh.copy()
            rbu = R(m_upd)
            A_, t_ = gen.random_affine(rng, dim)
            rbu.mesh.update(points=rbu.mesh.points @ A_.T + size * t_, callback=rbu.reload)

            def vol_of(*maps):  # closed-form volume of an affine image of the body
                return None if volume is None else volume * float(np.prod([np.linalg.det(a) for a in maps]))

            MB.check_boundary_region(run, rbu, mesh.copy(points=mesh.points @ A_.T + size * t_), label=fam + "[reload]", volume=vol_of(A_), generated=True,
                                     flags=asked())
            run.units[fam + ":reload"] += 1
            # the documented refresh after moving the body: the *user's* mesh is updated and hands itself to the region's reload
            m_usr = mesh.copy()
            rbv = R(m_usr, only_surface=bool(rep % 2 == 0))
            A2, t2 = gen.random_affine(rng, dim)
            m_usr.update(points=m_usr.points @ A2.T + size * t2, callback=rbv.reload)
            MB.check_boundary_region(run, rbv, mesh.copy(points=mesh.points @ A2.T + size * t2), label=fam + "[reload by the body's mesh]",
                                     volume=vol_of(A2), generated=True, flags=asked(only_surface=bool(rep % 2 == 0)))
            run.units[fam + ":reload-by-body-mesh"] += 1
            # the same methods on a region with drawn flags, where the natural call order hides nothing: the refresh twice in a row
            # (after the first one the region's points are the caller's array), a copy with another rule, a reload with another
            # rule, a bare reload after the region's own points were moved in place. Expected geometry: what the caller passed.
            kw = dict(only_surface=bool((fi + gi + run.seed) % 2), ensure_3d=bool((gi + rep + run.seed) % 2))
            if (fi + rep + run.seed) % 2:
                kw["mask"] = edge
            m_w = mesh.copy()
            rbw = R(m_w, **kw)
            moved, maps = mesh.points, []
            for k in range(2):
                A3, t3 = gen.random_affine(rng, dim)
                maps.append(A3)
                moved = moved @ A3.T + size * t3
                size = float(np.ptp(moved[used], axis=0).max())
                m_w.update(points=moved.copy(), callback=rbw.reload)
            judge_moved(run, rbw, mesh.copy(points=moved), fam + "[second reload by the body's mesh]", volume=vol_of(*maps), flags=asked(**kw))
            q3 = fem.GaussLegendreBoundary(order=3, dim=dim)
            rbc = rbw.copy(quadrature=q3)
            judge_moved(run, rbc, mesh.copy(points=moved), fam + "[copy with another rule]", nq=4 ** (dim - 1), volume=vol_of(*maps), flags=asked(**kw))
            judge_moved(run, rbw, mesh.copy(points=moved), fam + "[region after it was copied]", volume=vol_of(*maps), flags=asked(**kw))
            A3, t3 = gen.random_affine(rng, dim)
            moved2 = moved @ A3.T + size * t3
            rbw.mesh.points[:] = moved2
            rbw.reload(quadrature=fem.GaussLegendreBoundary(order=2, dim=dim, permute=False))
            judge_moved(run, rbw, mesh.copy(points=moved2), fam + "[reload with another rule after an in-place move]", nq=3 ** (dim - 1),
                        volume=vol_of(*(maps + [A3])), flags=asked(**kw))
            judge_moved(run, rbc, mesh.copy(points=moved), fam + "[copy after the original moved]", nq=4 ** (dim - 1), volume=vol_of(*maps), flags=asked(**kw))
            rbw.mesh.points[:] = moved
            rbw.reload()
            judge_moved(run, rbw, mesh.copy(points=moved), fam + "[bare reload after an in-place move]", nq=3 ** (dim - 1), volume=vol_of(*maps), flags=asked(**kw))
            # a copy cast to single precision describes the same surface: its arrays are those of the region, rounded (own cast; taken
            # from the unmoved body, whose areas of 1e-14 .. 1e6 are far inside the range of single precision)
            r32 = rb0.astype(np.float32)
            err = max(maxabs(np.asarray(getattr(r32, a_), float) - np.asarray(getattr(rb0, a_)).astype(np.float32)) / maxabs(getattr(rb0, a_))
                      for a_ in ("dV", "dA", "normals"))
            run.compare("boundary.geometry", "celltype=%s clause=astype-float32" % fam, err, 1e-5,
                        "%s: dV / dA / normals of region.astype(float32) are not those of the region" % fam, unit=fam + ":astype")
            run.units[fam + ":reload-twice+copy-rule+bare-reload"] += 1
            run.units["methods:" + ",".join("%s=%s" % (k_, v_) for k_, v_ in sorted(kw.items()) if k_ != "mask") + (",mask" if "mask" in kw else "")] += 1
            # the geometric gradient of the boundary cells stays the derivative of the position (dXdr drdX = 1)
            one = np.einsum("IKqc,KJqc->IJqc", rb0.dXdr, rb0.drdX)
            run.compare("boundary.geometry", "celltype=%s clause=dXdr-times-drdX" % fam, maxabs(one - np.eye(dim).reshape(dim, dim, 1, 1)), 1e-10,
                        "%s: region.dXdr is not the inverse of region.drdX after the faces were initialised" % fam, unit=fam + ":dXdr")
            # ... and it is the derivative of the position in the parent cell: where the cells are parallelograms / parallelepipeds
            # (undistorted and affine class: X = X_c + J r in every cell) the column that belongs to the direction into the cell is the
            # vector from the centre of the face to the centre of the cell, at every point of the rule. Closed form from the caller's
            # points and the own table of faces; this column is made by the nodes off the face alone (the complementary half of
            # the boundary cell, which no area vector feels - fourth audit). The owner of a face is looked up by its set of points.
            if geometry in ("undistorted", "affine"):
                corner = np.zeros(mesh.npoints, bool)
                corner[np.unique(mesh.cells[:, : MB.NV[fam]])] = True
                centre = {frozenset(c): mesh.points[c[: MB.NV[fam]]].mean(0) for c in mesh.cells.tolist()}
                for key_ in ((True, False), (False, False)):
                    rbk = built[key_]
                    into = np.array([centre[frozenset(c)] - mesh.points[[i for i in f if corner[i]]].mean(0)
                                     for c, f in zip(rbk.mesh.cells.tolist(), np.asarray(rbk.mesh.cells_faces).tolist())]).T  # (dim, faces)
                    err = maxabs(np.asarray(rbk.dXdr)[:, -1] - into[:, None, :]) / maxabs(into)
                    run.compare("boundary.geometry", "celltype=%s clause=dXdr-into-the-cell only_surface=%s" % (fam, key_[0]), err, 1e-11,
                                "%s: the last column of region.dXdr is not the vector from the centre of the face to the centre of its cell "
                                "(parallelepiped cells)" % fam, unit=fam + ":dXdr-into-the-cell")
            # surface selection == faces that occur exactly once among all faces
            allf = built[(False, False)]
            cnt = {}
            for f in allf.mesh.cells_faces:
                k = frozenset(int(i) for i in f)
                cnt[k] = cnt.get(k, 0) + 1
            once = set(k for k, v in cnt.items() if v == 1)
            if faces_as_sets(built[(True, False)]) == once and len(built[(True, False)].mesh.cells) == len(once):
                run.ok("boundary.surface-selection", unit=fam + ":surface-selection")
            else:
                run.fail("boundary.surface-selection", "celltype=%s clause=surface-selection" % fam,
                         "%s: only_surface does not select exactly the faces that occur once" % fam)
            # the same against the own universe of faces (the library's cells_faces of the unselected region are not taken on trust):
            # all faces with their multiplicities, the surface = those that occur once
            if collections.Counter(faces_as_sets_list(allf)) == own_cnt and set(faces_as_sets_list(built[(True, False)])) == own_once \
                    and len(built[(True, False)].mesh.cells) == len(own_once):
                run.ok("boundary.surface-selection", unit=fam + ":surface-selection-own-faces")
            else:
                run.fail("boundary.surface-selection", "celltype=%s clause=surface-selection-own-faces" % fam,
                         "%s: the faces of the region are not the faces of the cells (only_surface: those that occur once)" % fam,
                         {"all": len(allf.mesh.cells), "expected all": len(own), "surface": len(built[(True, False)].mesh.cells),
                          "expected surface": len(own_once)})
            # mesh_faces(): the selected faces as a mesh of lines / quads - the faces of the region in the documented cell type, with
            # the area vectors of the region (rim of every face cell)
            if fam in FACE_MESH:
                for key_ in ((True, False), (False, False)):
                    mf = built[key_].mesh_faces()
                    ref_ = MB.rim_area_vectors(mf.points[mf.cells], dim)
                    got_ = np.asarray(built[key_].dA)[:dim].sum(1).T
                    sgn_ = np.sign((got_ * ref_).sum(1))[:, None] if got_.shape == ref_.shape else None
                    err = maxabs(got_ - sgn_ * ref_) / maxabs(ref_) if sgn_ is not None else np.inf
                    same = mf.cell_type == FACE_MESH[fam] and [frozenset(c) for c in mf.cells.tolist()] == faces_as_sets_list(built[key_])
                    run.compare("boundary.geometry", "celltype=%s clause=mesh_faces only_surface=%s" % (fam, key_[0]), err if same else np.inf, 1e-12,
                                "%s: mesh_faces() is not the mesh of the region's faces" % fam, unit=fam + ":mesh_faces")
            # mask clause
            X = mesh.points
            masks = []
            lo, hi = X[used].min(0), X[used].max(0)
            for k in range(3 if run.tier == "quick" else 8):
                ax = int(rng.integers(0, dim))
                thr = lo[ax] + rng.uniform(0.2, 0.8) * (hi[ax] - lo[ax])
                masks.append(X[:, ax] >= thr if rng.integers(0, 2) else X[:, ax] <= thr)
            masks.append(rng.uniform(size=len(X)) < 0.7)
            # designed masks: all points of some faces, and of further faces everything but one node (corner or mid node) - these
            # tell "all points of the face" from "its corners" / "most of its points" for every cell type
            allfaces = np.asarray(built[(False, False)].mesh.cells_faces)
            for k in range(2 if run.tier == "quick" else 5):
                pick = rng.uniform(size=len(allfaces)) < 0.35
                if not pick.any():
                    pick[int(rng.integers(0, len(allfaces)))] = True
                md = np.zeros(len(X), bool)
                md[allfaces[pick].ravel()] = True
                for f in allfaces[~pick]:
                    j = int(rng.integers(0, len(f))) if k % 2 else len(f) - 1  # leave one node out: any node / the last (a mid node of quadratic faces)
                    keep = np.delete(f, j)
                    if not md[f[j]]:
                        md[keep] = True
                masks.append(md)
                masks.append(np.where(md)[0])  # the same selection as an array of point indices
                # ... and in the other types an index may arrive in (one per designed mask, all of them in every run)
                kind = MASK_TYPES[(k + fi + gi + rep + run.seed) % len(MASK_TYPES)]
                idx = np.where(md)[0]
                masks.append({"list-of-bools": md.tolist(), "list-of-indices": idx.tolist(), "int32-indices": idx.astype(np.int32),
                              "negative-indices": idx - len(X), "repeated-indices": np.r_[idx[::-1], idx]}[kind])
                run.units["mask-type=" + kind] += 1
            n_designed = len(masks)
            # masks that select no face at all: nothing selected, the empty list of points, single points (a face needs all its points);
            # all corners of the body's cells but none of the other nodes (quadratic families: no complete face)
            corners = np.zeros(len(X), bool)
            corners[np.unique(mesh.cells[:, : MB.NV[fam]])] = True
            masks += [np.zeros(len(X), bool), np.array([], int), np.array([0]), [0], np.array([-1])] + ([corners] if fam not in ("quad", "hexahedron") else [])
            universe_sets = {s_: (own_once if s_ else set(own)) for s_ in (True, False)}
            library_faces = {s_: faces_as_sets_list(built[(s_, False)]) for s_ in (True, False)}
            for j, m_arg in enumerate(masks):
                sel = selected_points(m_arg, len(X))
                for only_surface in (True, False):
                    # expected faces: those of the own universe whose points all satisfy the mask (with the library's list of the
                    # unselected region as a second, equally binding reference)
                    expect = set(f for f in universe_sets[only_surface] if f <= sel)
                    n_expect = sum(1 for f in (own if not only_surface else own_once) if f <= sel)
                    expect_lib = [f for f in library_faces[only_surface] if f <= sel]
                    if j >= n_designed and (j + fi + gi + run.seed + only_surface) % 2:
                        continue  # the emptied selections alternate between surface and all faces
                    rbm = R(mesh, only_surface=only_surface, mask=m_arg)
                    got = faces_as_sets(rbm)
                    if not expect:
                        # no face has all its points in the mask: the region is empty (it is built all the same - an over-selection
                        # shows nowhere else)
                        if len(rbm.mesh.cells) == 0 and len(rbm.mesh.cells_faces) == 0 and not expect_lib:
                            run.ok("boundary.mask", unit=fam + ":mask-selects-nothing", config=(fam, "mask-selects-nothing", only_surface))
                        else:
                            run.fail("boundary.mask", "celltype=%s clause=mask-selects-nothing only_surface=%s" % (fam, only_surface),
                                     "%s: a mask that contains no complete face selects faces" % fam,
                                     {"expected": 0, "got": len(rbm.mesh.cells), "points in the mask": len(sel)})
                        continue
                    if got == expect and len(rbm.mesh.cells) == n_expect and got == set(expect_lib) and len(rbm.mesh.cells) == len(expect_lib):
                        run.ok("boundary.mask", unit=fam + ":mask", config=(fam, geometry, "mask", only_surface))
                    else:
                        run.fail("boundary.mask", "celltype=%s clause=mask only_surface=%s" % (fam, only_surface),
                                 "%s: mask selects other faces than those whose points all satisfy it" % fam,
                                 {"expected": len(expect), "got": len(got), "mask": type(m_arg).__name__ + ":" + str(np.asarray(m_arg).dtype)})
        finally:
            attach.detach_all()
            del MB.KNOWN[:]
    return fn


def cases(tier, seed):
    out = []
    reps = 1 if tier == "quick" else 4
    for fam in TEMPLATES:
        for geo in gen.GEOMETRIES:
            for rep in range(reps):
                out.append(("%s:%s:%d" % (fam, geo, rep), case(fam, geo, rep)))
    return out


def _required():
    req = []
    for fam in TEMPLATES:
        for s in (True, False):
            u = "%s:only_surface=%s" % (fam, s)
            req += [u + ":normals", u + ":tangents", u + ":outward", u + ":flux"]
        req += ["%s:only_surface=True:closure" % fam, "%s:only_surface=False:cell-closure" % fam, fam + ":mask",
                fam + ":cells_faces", fam + ":surface-selection", fam + ":reload-by-body-mesh"]
    req += ["quad:ensure_3d", "quad8:ensure_3d", "quad9:ensure_3d", "points-in-random-order", "length-unit=1", "length-unit=1e-05", "length-unit=0.001", "length-unit=1000", "length-unit=1e-07"]
    req += ["%s:only_surface=%s:face-area-vector" % (f, s_) for f in ("quad", "hexahedron") for s_ in (True, False)]
    for fam in TEMPLATES:
        for s in (True, False):
            u = "%s:only_surface=%s" % (fam, s)
            req += [u + ":face-rim", u + ":flux-analytic"] + ([u + ":tangent-span"] if gen.FAMILIES[fam]["dim"] == 3 else [])
        req += [fam + ":" + k for k in TOPOLOGIES + ("points-without-cells", "mask-selects-nothing", "surface-selection-own-faces", "flag-types",
                                                     "renumbered-faces", "single-cell", "mask-first-points", "generic-constructor+rule-not-permuted",
                                                     "reload-twice+copy-rule+bare-reload", "astype")]
    req += [fam + ":mesh_faces" for fam in FACE_MESH] + ["mask-type=" + k for k in MASK_TYPES]
    req += ["mesh-arrays=column-major+int32", "refreshed-points", "quadrature-order=0:not-permuted"]
    # fourth audit: the boundary cell against the own table of rotations, the caller's points and rule, the column of dXdr into the cell
    req += [fam + ":" + k for fam in TEMPLATES for k in ("rotated-cell", "points-of-the-region", "points-of-the-requested-rule", "dXdr-into-the-cell")]
    return req


SPEC = {
    "required_units": _required(),
    "rule": ("six boundary templates x geometric classes (undistorted, affine, straight-distorted, curved by a smooth map with "
             "bounded gradient) x length units 1e-7 .. 1e3 x only_surface x ensure_3d x random point masks on seeded meshes of 2..12 cells; the "
             "RegionBoundary.__init__ post-hook evaluates every identity; a configuration is distinct by (cell type, "
             "geometry class, flags, clause). Bodies with points without cells, rings / revolved rings / two bodies / coincident bodies, "
             "cells numbered from any corner, single cells; masks as boolean / index arrays and lists, int32, negative, repeated, "
             "empty, incomplete faces; flags as numpy booleans / integers; the generic constructor, rules not permuted / of order 0; "
             "copy, reload (twice, with another rule, bare after an in-place move), astype, mesh_faces. Expected faces from an own table "
             "of reference coordinates; face area vectors from the rim of cells_faces; flux against the generator's closed-form volume. "
             "The clauses are gated by the flags / rule the caller passed (hook on the templates), geometry from the caller's points; every "
             "boundary cell is a proper rotation (own table, 4 / 24) of its parent cell with the face at r_last = -1, and on parallelepiped "
             "cells dXdr[:, -1] is the vector from the face's centre to the cell's centre"),
    "assumptions": ["outwardness is judged against the vertex centroid of the owning cell (valid for the generated, mildly "
                    "distorted cells)", "the volume on the right-hand side of the flux identity is the one measured by the "
                    "corresponding volume region (as the property states); where the generator knows the volume in closed form the "
                    "flux is judged against that number as well",
                    "the node order of cells_faces is read as a face cell (ring of corners, mid nodes between them, centre last), "
                    "its sense of rotation is left open; the two tangents of a 3d face are required to span it, their handedness is left open"],
    "jobs": {"quick": 6, "thorough": 12},
}
