"""C09 - homogeneous deformation problems are solved exactly, independent of the mesh.

End-to-end monitor: the results of Newton solves and CharacteristicCurve jobs (job.x, job.y, result fields) are compared
with closed-form homogeneous solutions (vmon.oracles.hyper: textbook energies in principal stretches, complex-step
derivatives, root solve of the lateral stretch).  The solver monitors of C07/C15 stay attached during these jobs.
"""
import numpy as np

from .. import attach, gen, problems
from ..monitors.solver import SolverMonitor, check_trace
from ..oracles import hyper as OH
from ..util import maxabs, rng_for

FAMS3 = ["hexahedron", "hexahedron20", "hexahedron27", "tetra", "tetra10", "tetraMINI"]
FAMS2 = ["quad", "quad8", "quad9", "triangle", "triangle6", "triangleMINI"]


def ref_material(rng, name, condensed=False, scale=1.0):
    """(felupe umat or (umat, bulk) for the condensed body, oracle energy W(l1,l2,l3), parameter dict); ``scale`` is the unit of
    the moduli (every parameter of the dimension of a stress is multiplied after the draw; 1.0 leaves the draw as it is)"""
    import felupe as fem
    if name == "neo_hooke":
        p = dict(mu=scale * float(rng.uniform(0.5, 2)), bulk=scale * float(rng.uniform(2, 10)))
        return fem.NeoHooke(mu=p["mu"], bulk=p["bulk"]), OH.energy("neo_hooke", p), p
    if name == "neo_hooke_compressible":
        p = dict(mu=scale * float(rng.uniform(0.5, 2)), lmbda=scale * float(rng.uniform(1, 5)))
        return fem.NeoHookeCompressible(mu=p["mu"], lmbda=p["lmbda"]), OH.energy("neo_hooke_compressible", p), p
    if name == "linear_elastic_large_strain":
        # documented: the compressible Neo-Hookean law with the Lame parameters of (E, nu); the conversion is the oracle's own
        E, nu = scale * float(rng.uniform(1, 10)), float(rng.uniform(0.05, 0.45))
        p = dict(mu=E / (2 * (1 + nu)), lmbda=E * nu / ((1 + nu) * (1 - 2 * nu)), E=E, nu=nu)
        return fem.LinearElasticLargeStrain(E=E, nu=nu), OH.energy("neo_hooke_compressible", p), p
    if name == "ogden_roxburgh":
        # pseudo-elastic softening around a Neo-Hookean base: eta = 1 - erf((Wmax - W) / (m + beta Wmax)) / r scales the stress of
        # the base law (documented); on the primary loading path (W = Wmax) the response is that of the base material.  r, beta
        # are numbers, m is an energy density
        p = dict(mu=scale * float(rng.uniform(0.5, 2)), bulk=scale * float(rng.uniform(2, 10)))
        p.update(r=float(rng.uniform(1.5, 4)), m=scale * float(rng.uniform(0.5, 2)), beta=float(rng.uniform(0, 0.3)))
        um = fem.OgdenRoxburgh(fem.NeoHooke(mu=p["mu"], bulk=p["bulk"]), r=p["r"], m=p["m"], beta=p["beta"])
        return um, OH.energy("neo_hooke", p), p
    bulk = scale * float(rng.uniform(5, 50))
    if name == "mooney_rivlin":
        p = dict(C10=scale * float(rng.uniform(0.2, 1)), C01=scale * float(rng.uniform(0.05, 0.4)), bulk=bulk)
        iso = fem.Hyperelastic(fem.mooney_rivlin, C10=p["C10"], C01=p["C01"])
    elif name == "yeoh":
        p = dict(C10=scale * float(rng.uniform(0.3, 1)), C20=scale * float(rng.uniform(-0.02, 0.08)), C30=scale * float(rng.uniform(0, 0.03)), bulk=bulk)
        iso = fem.Hyperelastic(fem.yeoh, C10=p["C10"], C20=p["C20"], C30=p["C30"])
    elif name == "ogden":
        p = dict(mu=[scale * float(rng.uniform(0.5, 1.5)), scale * float(rng.uniform(0.05, 0.3))], alpha=[float(rng.uniform(1.5, 3)), float(rng.uniform(-2, -1))], bulk=bulk)
        iso = fem.Hyperelastic(fem.ogden, mu=p["mu"], alpha=p["alpha"])
    else:
        raise KeyError(name)
    W = OH.energy(name, p)
    if condensed:
        return (iso, bulk), W, p
    return iso & fem.Volumetric(bulk=bulk), W, p


def or_eta(W, p, states, Wmax=0.0):
    """Softening factors of the pseudo-elastic law along a list of principal-stretch states (own history loop: the running
    maximum of the base energy, started at ``Wmax``; documented eta = 1 - erf((Wmax - W) / (m + beta Wmax)) / r)."""
    from scipy.special import erf
    out = []
    for l in states:
        w = float(np.real(W([float(x) for x in l])))
        Wmax = max(Wmax, w)
        out.append(1.0 - float(erf((Wmax - w) / (p["m"] + p["beta"] * Wmax))) / p["r"])
    return np.array(out)


def segments(points, num):
    """piecewise linear list through ``points`` with ``num`` intervals per segment (every turning point is a member)"""
    out = [np.array([float(points[0])])]
    for a, b in zip(points[:-1], points[1:]):
        out.append(a + (b - a) * np.arange(1, num + 1) / num)
    return np.concatenate(out)


# length unit and force level by index (third audit: the check had no magnitude sweep - forces were always O(1), so an absolute
# threshold on the recording / post-processing side would not show): (length scale s, level of modulus * s^(d-1)).  The smallest level
# keeps the total reaction at 1e-4 .. 1e-3 (nodal forces 1e-5 .. 1e-4), where Newton's documented criterion |f1| / (1e-3 + |f0|) < 1e-10
# still bounds the force error by 1e-9 relative, 100 x below the force tolerance
UNITS = [(1.0, 1.0), (1e-3, 3e-4), (250.0, 1e5), (3e-6, 1.0)]


def units_for(k, d):
    """(length scale, modulus scale) of schedule entry k for a body of dimension d"""
    s, level = UNITS[k % len(UNITS)]
    return s, level / s ** (d - 1)


def scaled_box(fam, rng, s, **kw):
    """problems.box_mesh in another length unit (scaled after the draw: the random stream does not depend on the unit)"""
    mesh, L = problems.box_mesh(fam, rng, **kw)
    if s != 1.0:
        mesh, L = mesh.copy(points=mesh.points * s), L * s
    return mesh, L


def own_face(X, axis, value):
    """point numbers (ascending) of the plane X[axis] = value in the caller's own bookkeeping, tolerance relative to the body"""
    return np.flatnonzero(np.abs(X[:, axis] - value) <= 1e-9 * float(np.ptp(X[:, axis])))


def first_pk(W, F3):
    """First Piola-Kirchhoff stress of an isotropic energy W(l1, l2, l3) at a general 3x3 deformation gradient: oracle-side polar
    decomposition, P = F N diag(dW/dl_i / l_i) N^T with C = N diag(l_i^2) N^T"""
    w, N = np.linalg.eigh(F3.T @ F3)
    lam = np.sqrt(w)
    return F3 @ N @ np.diag(OH.principal_P(W, lam) / lam) @ N.T


REF = ["neo_hooke", "neo_hooke_compressible", "mooney_rivlin", "yeoh", "ogden", "ogden_roxburgh", "linear_elastic_large_strain"]
# the tensortrax ogden model goes through tensortrax' eigvalsh, which perturbs C[0,0], C[1,1] by +-1.49e-8 (modelled, 100 x)
REG = {"ogden": 100 * 1.4901161193847656e-08}


CURVE_FAMS = ["hexahedron", "tetra", "hexahedron20", "tetra10", "quad", "triangle", "quad8", "quad9", "triangle6", "hexahedron27", "tetraMINI", "triangleMINI"]


def case_patch(fam, rep):
    def fn(run):
        import felupe as fem
        rng = rng_for(run.seed, "C09", "patch", fam, rep)
        mon = SolverMonitor(run).attach()
        try:
            mesh, L = problems.box_mesh(fam, rng, curved_interior=bool(rep % 2))
            d = mesh.dim
            kind = "3d" if d == 3 else "planestrain"
            field = problems.field_for(fam, mesh, kind)
            mats = ["neo_hooke", "neo_hooke_compressible", "mooney_rivlin", "yeoh", "ogden"]
            name = mats[rep % 5]
            umat, W, p = ref_material(rng, name)
            while True:
                A = np.eye(d) + 0.3 * rng.uniform(-1, 1, (d, d)) / np.sqrt(d)
                if np.linalg.det(A) > 0.5:
                    break
            X = mesh.points
            nv = len(X)
            mini = gen.FAMILIES[fam].get("mini")
            geo = np.ones(nv, bool)
            if mini:
                geo[mesh.cells[:, -1]] = False
            onb = np.any(np.isclose(X, 0) | np.isclose(X, L), axis=1) & geo
            uex = X @ (A - np.eye(d)).T
            b = {"all": fem.Boundary(field[0], mask=onb.reshape(-1, 1), value=uex[onb])}
            dof0, dof1 = fem.dof.partition(field, b)
            ext0 = fem.dof.apply(field, b, dof0)
            body = fem.SolidBody(umat, field)
            label = "%s/%s" % (fam, name)
            disturbed = (rep // 2) % 2 == 1
            if disturbed:
                # a start that is not the solution of the first linear step: Newton iterates at general (sheared) states
                from scipy.spatial import cKDTree
                hmin = float(cKDTree(X[geo]).query(X[geo], k=2)[0][:, 1].min())  # smallest node spacing
                free = geo & ~onb
                field[0].values[geo] = uex[geo]  # the boundary already at its prescribed values, the interior next to the solution
                field[0].values[free] = uex[free] + 0.05 * hmin * rng.uniform(-1, 1, uex[free].shape)
                run.units["patch:disturbed-start"] += 1
            try:
                res = fem.newtonrhapson(items=[body], dof0=dof0, dof1=dof1, ext0=ext0, tol=1e-11, verbose=False)
            except ValueError as exc:
                if disturbed:
                    run.skip("homogeneous.patch", "Newton did not converge from the disturbed start: " + str(exc).strip()[:40])
                    return
                # the exact solution is reached by the first linear step from a zero start
                run.fail("homogeneous.patch", "family=%s clause=patch-test-converges" % fam,
                         "%s: the patch test did not converge (%s)" % (label, str(exc).strip()[:60]))
                return
            u = res.x[0].values
            run.compare("homogeneous.patch", "family=%s clause=affine-displacement" % fam, maxabs(u[geo] - uex[geo]) / max(maxabs(uex), 1e-300), 1e-8,
                        "%s: computed nodal displacements are not the prescribed affine map" % label, unit="patch:" + fam, config=(fam, name, "u"),
                        sample={"family": fam, "material": name, "A": A.tolist(), "points": int(nv), "max|u-u_exact|": maxabs(u[geo] - uex[geo])})
            if mini:
                run.compare("homogeneous.patch", "family=%s clause=bubble-amplitude-zero" % fam, maxabs(u[~geo]) / max(maxabs(uex), 1e-300), 1e-8,
                            "%s: bubble unknowns are not zero for a homogeneous solution" % label, unit="patch:" + fam + ":bubble")
            Fq = res.x.extract()[0][:d, :d]
            run.compare("homogeneous.patch", "family=%s clause=uniform-deformation-gradient" % fam, maxabs(Fq - A.reshape(d, d, 1, 1)), 1e-8,
                        "%s: deformation gradient is not uniform = A" % label, unit="patch:" + fam + ":F", config=(fam, name, "F"))
        finally:
            attach.detach_all()
    return fn


def lagrange_min_jacobian(X0, X, order, dim):
    """Smallest Jacobian determinant of the geometry map of one arbitrary-order Lagrange cell with points X, relative to the
    undistorted cell X0 (an equidistant grid in a box), sampled on 3 * order + 1 positions per axis.  Own tensor-product Lagrange
    basis; the points are identified by their undistorted grid position, so the point order of the cell type plays no role."""
    lo, hi = X0.min(0), X0.max(0)
    idx = np.rint((X0 - lo) / (hi - lo) * order).astype(int)
    nodes = np.arange(order + 1) / order
    xi = np.linspace(0, 1, 3 * order + 1)
    V, D = [], []
    for i in range(order + 1):
        c = np.poly(np.delete(nodes, i)) / np.prod(nodes[i] - np.delete(nodes, i))
        V.append(np.polyval(c, xi))
        D.append(np.polyval(np.polyder(c), xi))
    V, D = np.array(V), np.array(D)
    letters = "pqr"[:dim]
    Jm = np.zeros((dim, dim) + (len(xi),) * dim)
    for b in range(dim):
        ops = [(D if a == b else V)[idx[:, a]] for a in range(dim)]
        T = np.einsum(",".join("n" + l for l in letters) + "->n" + letters, *ops)
        Jm[:, b] = np.einsum("ni,n...->i...", X, T)
    det = np.linalg.det(np.moveaxis(Jm, (0, 1), (-2, -1)))
    return float(det.min() / np.prod(hi - lo))


def case_patch_lagrange(order, dim, rep):
    """Displacement patch test on an arbitrary-order Lagrange cell with displaced interior nodes (curved interior)."""
    def fn(run):
        import felupe as fem
        rng = rng_for(run.seed, "C09", "patch-lagrange", order, dim, rep)
        mesh = gen.lagrange_mesh(order, dim)
        X0 = mesh.points.copy()
        X = mesh.points.copy()
        lo, hi = X.min(0), X.max(0)
        onb = np.any(np.isclose(X, lo) | np.isclose(X, hi), axis=1)
        h = float(np.min(hi - lo)) / order
        # validity of the cell is decided by the own Jacobian of the geometry map (third audit: the precondition was read from the
        # region under test, reg.dV > 0, which is positive at the quadrature points of one order-4 draw in four whose Jacobian is
        # negative in between); the displacement is drawn again until the own map is valid everywhere, and a cell that the own
        # map finds valid is judged whatever the region reports
        amp = 0.15 if order <= 4 else 1.5 / order ** 2  # (equidistant high-order cells fold at much smaller displacements)
        for attempt in range(50):
            X = X0.copy()
            X[~onb] += amp * h * rng.uniform(-1, 1, X[~onb].shape)
            if lagrange_min_jacobian(X0, X, order, dim) >= 0.05:
                break
        else:
            run.skip("homogeneous.patch", "displaced interior nodes make the cell invalid")
            return
        mesh = mesh.copy(points=X)
        reg = fem.RegionLagrange(mesh, order=order, dim=dim)
        field = fem.FieldContainer([fem.Field(reg, dim=dim) if dim == 3 else fem.FieldPlaneStrain(reg, dim=2)])
        name = ["neo_hooke", "neo_hooke_compressible"][rep % 2]
        umat, W, p = ref_material(rng, name)
        while True:
            A = np.eye(dim) + 0.3 * rng.uniform(-1, 1, (dim, dim)) / np.sqrt(dim)
            if np.linalg.det(A) > 0.5:
                break
        uex = X @ (A - np.eye(dim)).T
        b = {"all": fem.Boundary(field[0], mask=onb.reshape(-1, 1), value=uex[onb])}
        dof0, dof1 = fem.dof.partition(field, b)
        ext0 = fem.dof.apply(field, b, dof0)
        try:
            res = fem.newtonrhapson(items=[fem.SolidBody(umat, field)], dof0=dof0, dof1=dof1, ext0=ext0, tol=1e-11, verbose=False)
        except ValueError as exc:
            run.skip("homogeneous.patch", "Newton did not converge: " + str(exc).strip()[:40])
            return
        u = res.x[0].values
        grp = "lagrange[order<=2]" if order <= 2 else ("lagrange[order>=3,dim=%d]" % dim)
        run.compare("homogeneous.patch", "family=%s clause=affine-displacement" % grp, maxabs(u - uex) / max(maxabs(uex), 1e-300), 1e-8,
                    "RegionLagrange(order=%d, dim=%d) with displaced interior nodes: computed displacements are not the prescribed affine map" % (order, dim),
                    unit="patch:" + grp, config=("patch-lagrange", order, dim, name))
    return fn


def case_curve(loadcase, fam, name, rep):
    def fn(run):
        import felupe as fem
        rng = rng_for(run.seed, "C09", "curve", loadcase, fam, name, rep)
        mon = SolverMonitor(run).attach()
        try:
            mesh, L = problems.box_mesh(fam, rng, curved_interior=bool((rep // 2) % 2))
            d = mesh.dim
            planestrain = d == 2
            field = problems.field_for(fam, mesh, "planestrain" if planestrain else "3d")
            condensed = name in ("mooney_rivlin", "yeoh", "ogden") and rep % 2 == 1 and not gen.FAMILIES[fam].get("mini")
            umat, W, p = ref_material(rng, name, condensed=condensed)
            if condensed:
                body = fem.SolidBodyNearlyIncompressible(umat[0], field, bulk=umat[1])
            else:
                body = fem.SolidBody(umat, field)
            nsub = [1, 3, 7][rep % 3]
            # (the softening law equals its base on the primary path only: its reference carries the softening factor of the own
            # history loop or_eta along the recorded states, so the unloading branch is judged too)
            cyclic = rep % 4 == 3
            symflag = bool(rep % 2)
            if loadcase == "uniaxial":
                axis = int(rng.integers(0, d))
                symarg = symflag
                if not symflag:
                    # symmetry planes for the lateral axes only (without them the lateral rigid modes are free: a singular
                    # system, no well-posed problem); along the loading axis the body may sit anywhere (the left end face is the
                    # outermost left position of the points)
                    symarg = tuple(a != axis for a in range(3))
                if not symflag and rep % 4 == 2:
                    shift = np.zeros(d)
                    shift[axis] = float(rng.uniform(-2, 2))
                    mesh.points[:] = mesh.points + shift
                    field = problems.field_for(fam, mesh, "planestrain" if planestrain else "3d")
                    body = fem.SolidBodyNearlyIncompressible(umat[0], field, bulk=umat[1]) if condensed else fem.SolidBody(umat, field)
                    run.units["curve:body-away-from-origin"] += 1
                bounds, lc = fem.dof.uniaxial(field, clamped=False, axis=axis, sym=symarg)
                top = float(rng.uniform(0.15, 0.35)) * L[axis]
                move = fem.math.linsteps([0, top, -0.3 * top] if cyclic else [0, top], num=nsub)[1:] if nsub > 1 else np.array([top])
                key = "move"
                others = [a for a in range(d) if a != axis]
                A0 = float(np.prod(L[others]))
            else:
                pairs = [(0, 1), (1, 0)] if d == 2 else [(0, 1), (1, 0), (0, 2), (2, 0), (1, 2), (2, 1)]
                axes = pairs[rep % len(pairs)]
                bounds, lc = fem.dof.biaxial(field, axes=axes, clampes=(False, False), sym=True, moves=(0.0, 0.0))
                top = np.array([float(rng.uniform(0.1, 0.3)) * L[axes[0]], float(rng.uniform(-0.1, 0.25)) * L[axes[1]]])
                t = np.linspace(0, 1, nsub + 1)[1:]
                key = "move-right-%d" % axes[0]
                axis = axes[0]
                others = [a for a in range(d) if a != axis]
                A0 = float(np.prod(L[others]))
            mini = gen.FAMILIES[fam].get("mini")
            if loadcase == "uniaxial":
                ramp = {bounds[key]: move}
            else:
                ramp = {bounds["move-right-%d" % axes[0]]: t * top[0], bounds["move-right-%d" % axes[1]]: t * top[1]}
            step = fem.Step([body], ramp=ramp, boundaries=bounds)
            use_items = rep % 3 == 1  # reaction forces taken from the items' own results instead of the Newton residual
            job = fem.CharacteristicCurve([step], bounds[key], items=[body] if use_items else None)
            try:
                job.evaluate(verbose=False, tol=1e-10)
            except ValueError as exc:
                # Newton did not converge for this load level in the chosen subdivision: it raised (C07), nothing to compare.
                # Only for a coarse subdivision, though: from the undeformed state in stretch increments of at most 15 % (own ramp)
                # a homogeneous problem in the stable range has to be solved (a class of jobs that stops converging would
                # otherwise vanish into the skips; no job of the unchanged tree fails to converge)
                if loadcase == "uniaxial":
                    inc = maxabs(np.diff(np.concatenate([[0.0], np.atleast_1d(move)]))) / L[axis]
                else:
                    inc = maxabs(top / L[list(axes)]) / nsub
                if inc <= 0.15 and "not converged" in str(exc):
                    run.fail("homogeneous.curve", "loadcase=%s clause=job-converges" % loadcase,
                             "%s/%s/%s: the job did not converge although no substep stretches by more than %.0f %% (%s)" % (loadcase, fam, name, 100 * inc, str(exc).strip()[:40]))
                    return
                run.skip("homogeneous.curve", "job did not converge (%s/%s/%s, %d substeps): %s" % (loadcase, fam, name, nsub, str(exc).strip()[:40]))
                return
            x = np.array(job.x)
            y = np.array(job.y)
            label = "%s/%s/%s%s" % (loadcase, fam, name, "/condensed" if condensed else "")
            nsteps = len(x)
            if nsteps != len(list(ramp.values())[0]):
                run.fail("homogeneous.curve", "loadcase=%s clause=curve-length" % loadcase, "%s: %d points recorded for %d substeps" % (label, nsteps, len(move)))
                return
            worst_x = worst_y = 0.0
            Pscale = 0.0
            P11s, states = [], []  # per substep: stress of the (base) law, principal stretches along the coordinate axes
            for k in range(nsteps):
                st = np.ones(3)
                if loadcase == "uniaxial":
                    mv = float(np.atleast_1d(move)[k])
                    lam = 1 + mv / L[axis]
                    P11, l2, l3 = OH.uniaxial(W, lam, planestrain=planestrain)
                    worst_x = max(worst_x, abs(x[k][axis] - mv))
                    st[axis] = lam
                    st[[a for a in range(3) if a != axis]] = l2
                    if planestrain:
                        st[2] = 1.0
                else:
                    l1, l2 = 1 + t[k] * top[0] / L[axes[0]], 1 + t[k] * top[1] / L[axes[1]]
                    if planestrain:
                        P = OH.principal_P(W, [l1, l2, 1.0])
                        P11, l3 = P[0], 1.0
                    else:
                        P11, P22, l3 = OH.biaxial(W, l1, l2)
                    worst_x = max(worst_x, abs(x[k][axis] - t[k] * top[0]))
                    st[axes[0]], st[axes[1]] = l1, l2
                    st[[a for a in range(3) if a not in axes][0]] = l3
                P11s.append(P11)
                states.append(st)
            # the pseudo-elastic law scales the stress of its base by the softening factor of the history so far (1 on the primary
            # path; the lateral stretches are those of the base law because the factor scales the whole stress)
            eta = or_eta(W, p, states) if name == "ogden_roxburgh" else np.ones(nsteps)
            if name == "ogden_roxburgh" and eta.min() < 1 - 1e-3:
                run.units["curve:softened-branch"] += 1
            for k in range(nsteps):
                Pscale = max(Pscale, abs(eta[k] * P11s[k]))
                worst_y = max(worst_y, abs(y[k][axis] - eta[k] * P11s[k] * A0))
            sc = max(Pscale * A0, 1e-300)
            run.compare("homogeneous.curve", "loadcase=%s family=%s clause=recorded-displacement" % (loadcase, fam), worst_x / max(maxabs(x), 1e-300), 1e-12,
                        "%s: job.x is not the ramp value" % label, unit="curve:%s:x" % loadcase, config=(loadcase, fam, name, "x"))
            run.compare("homogeneous.curve", "loadcase=%s family=%s clause=reaction-force" % (loadcase, fam), worst_y / sc, 1e-7 + REG.get(name, 0.0),
                        "%s: recorded reaction force differs from the analytic P * A0" % label, unit="curve:%s:%s" % (loadcase, "planestrain" if planestrain else "3d"),
                        config=(loadcase, fam, name, condensed, nsub),
                        sample={"loadcase": loadcase, "family": fam, "material": name, "params": p, "substeps": nsteps, "max|F - P*A0|": worst_y, "P*A0 scale": sc})
            # all components of the record (third audit: every point of a moved face carries the same normal displacement, and one
            # compared component cannot tell the first boundary point from any other): job.x is the displacement of the first
            # point of the tracked boundary (lowest point number on the moved face, own bookkeeping) in the homogeneous state -
            # the lateral symmetry planes pass through the origin in every variant -, job.y = P N A0 has no lateral component
            Xp = mesh.points
            first = own_face(Xp, axis, Xp[:, axis].max())[0]
            lat = [a for a in range(d) if a != axis]
            xlat = np.array([[(states[k][a] - 1) * Xp[first, a] for a in lat] for k in range(nsteps)])
            run.compare("homogeneous.curve", "loadcase=%s family=%s clause=recorded-displacement-vector" % (loadcase, fam),
                        maxabs(x[:, lat] - xlat) / max(maxabs(x), 1e-300), 1e-7 + 10 * REG.get(name, 0.0),
                        "%s: the lateral components of job.x are not the displacement of the first point of the tracked face" % label,
                        unit="curve:%s:x-vector" % loadcase, config=(loadcase, fam, name, "x-vector"))
            run.compare("homogeneous.curve", "loadcase=%s family=%s clause=reaction-force-vector" % (loadcase, fam), maxabs(y[:, lat]) / sc, 1e-7 + REG.get(name, 0.0),
                        "%s: the recorded reaction force has a component in the plane of the moved face" % label,
                        unit="curve:%s:y-vector" % loadcase, config=(loadcase, fam, name, "y-vector"))
            run.units["curve:material:" + name] += 1
            run.units["curve:family:" + fam] += 1
            # final displacement field: the homogeneous stretch state
            u = job.res.x[0].values
            X = mesh.points
            geo = np.ones(len(X), bool)
            if mini:
                geo[mesh.cells[:, -1]] = False
            if loadcase == "uniaxial":
                lam = 1 + float(np.atleast_1d(move)[-1]) / L[axis]
                P11, l2, l3 = OH.uniaxial(W, lam, planestrain=planestrain)
                lams = np.ones(d)
                lams[axis] = lam
                for a in others:
                    lams[a] = l2
                origin = np.zeros(d) if symflag else None
            else:
                la, lb = 1 + top[0] / L[axes[0]], 1 + top[1] / L[axes[1]]
                lams = np.ones(d)
                lams[axes[0]], lams[axes[1]] = la, lb
                if d == 3:
                    lams[[a for a in range(3) if a not in axes][0]] = OH.biaxial(W, la, lb)[2]
                origin = np.zeros(d)
            # uniform stretch state at every quadrature point, whatever rigid motion is left free: C = F^T F = diag(lams^2)
            Fq = job.res.x.extract()[0][:d, :d]
            Cq = np.einsum("kiqc,kjqc->ijqc", Fq, Fq)
            run.compare("homogeneous.curve", "loadcase=%s family=%s clause=uniform-stretch-state" % (loadcase, fam),
                        maxabs(Cq - np.diag(lams ** 2).reshape(d, d, 1, 1)), 1e-6 + 10 * REG.get(name, 0.0),
                        "%s: the right Cauchy-Green tensor at the quadrature points is not diag(lambda_i^2) of the homogeneous state" % label,
                        unit="curve:%s:uniform-C" % loadcase, config=(loadcase, fam, name, "C"))
            if origin is not None:
                uex = X * (lams - 1)
                run.compare("homogeneous.curve", "loadcase=%s family=%s clause=homogeneous-displacement" % (loadcase, fam), maxabs(u[geo] - uex[geo]) / max(maxabs(uex), 1e-300),
                            1e-7 + REG.get(name, 0.0), "%s: final displacement field is not the homogeneous stretch state" % label, unit="curve:%s:field" % loadcase)
            check_trace(run, mon.trace, label)
            # the recorded curve is a record: it keeps the computed values when the field is used on (reset for the next job)
            x_rec, y_rec = np.array(job.x, dtype=float, copy=True), np.array(job.y, dtype=float, copy=True)
            field[0].fill(0)
            run.compare("homogeneous.curve", "loadcase=%s clause=record-survives-field-reset" % loadcase,
                        max(maxabs(np.array(job.x, dtype=float) - x_rec), maxabs(np.array(job.y, dtype=float) - y_rec)) / max(maxabs(x_rec), 1e-300), 0.0,
                        "%s: the recorded displacements / forces of the job change when the field is reset afterwards" % label,
                        unit="curve:record")
        finally:
            attach.detach_all()
    return fn


def case_curve_other(rep):
    """Homogeneous problems driven in other documented ways: a biaxial load case without symmetry planes on a body away from
    the origin (both faces of an axis move), a load-controlled uniaxial state (ramp keyed by a follower-pressure item, forces
    from the body's own results), the reaction tracked on a face that is not the moved one."""
    def fn(run):
        import felupe as fem
        rng = rng_for(run.seed, "C09", "curve-other", rep)
        variant = rep % 3
        fam = ["hexahedron", "hexahedron20", "tetra10", "hexahedron27"][(rep // 3) % 4]
        mesh, L = problems.box_mesh(fam, rng, curved_interior=bool(rep % 2))
        name = ["neo_hooke", "neo_hooke_compressible", "mooney_rivlin"][rep % 3]
        umat, W, p = ref_material(rng, name)
        label = "curve-other/%d/%s/%s" % (variant, fam, name)
        try:
            if variant == 0:
                off = rng.uniform(-2, 2, 3)
                mesh = mesh.copy(points=mesh.points + off)
                field = problems.field_for(fam, mesh, "3d")
                body = fem.SolidBody(umat, field)
                axes = [(0, 1), (1, 2), (2, 0)][(rep // 3) % 3]
                third = [a for a in range(3) if a not in axes][0]
                sym = [False, False, False]
                sym[third] = True
                # the symmetry plane of the third axis sits at the origin (documented): put that face of the body there
                shift = np.zeros(3)
                shift[third] = -mesh.points[:, third].min()
                mesh.points[:] = mesh.points + shift
                field = problems.field_for(fam, mesh, "3d")
                body = fem.SolidBody(umat, field)
                bnd, _ = fem.dof.biaxial(field, axes=axes, sym=tuple(sym), moves=(0.0, 0.0))
                top = np.array([float(rng.uniform(0.05, 0.15)) * L[axes[0]], float(rng.uniform(-0.05, 0.12)) * L[axes[1]]])
                t = np.array([0.5, 1.0])
                ramp = {bnd["move-right-%d" % axes[0]]: t * top[0], bnd["move-left-%d" % axes[0]]: -t * top[0],
                        bnd["move-right-%d" % axes[1]]: t * top[1], bnd["move-left-%d" % axes[1]]: -t * top[1]}
                job = fem.CharacteristicCurve([fem.Step([body], ramp=ramp, boundaries=bnd)], bnd["move-right-%d" % axes[0]])
                job.evaluate(verbose=False, tol=1e-10)
                y = np.array(job.y)
                others = [a for a in range(3) if a != axes[0]]
                worst, lams = 0.0, None
                for k in range(2):
                    l1, l2 = 1 + 2 * t[k] * top[0] / L[axes[0]], 1 + 2 * t[k] * top[1] / L[axes[1]]
                    P11, P22, l3 = OH.biaxial(W, l1, l2)
                    worst = max(worst, abs(y[k][axes[0]] - P11 * np.prod(L[others])) / abs(P11 * np.prod(L[others])))
                    lams = np.ones(3)
                    lams[axes[0]], lams[axes[1]], lams[third] = l1, l2, l3
                run.compare("homogeneous.curve", "loadcase=biaxial-without-symmetry clause=reaction-force", worst, 1e-7,
                            "%s: recorded reaction force differs from the analytic P * A0" % label, unit="curve:biaxial:no-symmetry", config=("other", 0, fam, name))
            else:
                field = problems.field_for(fam, mesh, "3d")
                body = fem.SolidBody(umat, field)
                bnd = fem.dof.symmetry(field[0])
                X = mesh.points
                if variant == 1:
                    Rb = {"hexahedron": fem.RegionHexahedronBoundary, "hexahedron20": fem.RegionQuadraticHexahedronBoundary,
                          "hexahedron27": fem.RegionTriQuadraticHexahedronBoundary}.get(fam)
                    if Rb is None:
                        run.skip("homogeneous.curve", "no boundary region for this family")
                        return
                    fb = fem.FieldContainer([fem.Field(Rb(mesh, mask=np.isclose(X[:, 0], L[0])), dim=3)])
                    pr = fem.SolidBodyPressure(fb)
                    lam = np.array([1.1, 1.25]) if rep % 2 else np.array([0.9, 1.2, 1.3])
                    pv = []
                    for l in lam:
                        P11, l2, l3 = OH.uniaxial(W, l)
                        pv.append(-P11 / (l2 * l3))  # p = - sigma_11
                    right = fem.Boundary(field[0], fx=L[0], skip=(0, 1, 1))  # tracked only, no constraint
                    job = fem.CharacteristicCurve([fem.Step([body, pr], ramp={pr: np.array(pv)}, boundaries=bnd)], right, items=[body])
                    job.evaluate(verbose=False, tol=1e-10)
                    x, y = np.array(job.x), np.array(job.y)
                    A0 = L[1] * L[2]
                    ref = np.array([OH.uniaxial(W, l)[0] * A0 for l in lam])
                    run.compare("homogeneous.curve", "loadcase=pressure-controlled clause=recorded-displacement", maxabs(x[:, 0] - (lam - 1) * L[0]) / L[0], 1e-8,
                                "%s: the displacement reached under the follower pressure is not (lambda - 1) L" % label, unit="curve:pressure-controlled", config=("other", 1, fam, name))
                    run.compare("homogeneous.curve", "loadcase=pressure-controlled clause=reaction-force", maxabs(y[:, 0] - ref) / maxabs(ref), 1e-7,
                                "%s: the force of the body on the loaded face is not P * A0" % label, unit="curve:pressure-controlled")
                    lams = np.array([lam[-1], OH.uniaxial(W, lam[-1])[1], OH.uniaxial(W, lam[-1])[2]])
                else:
                    b2, _ = fem.dof.uniaxial(field, clamped=False, axis=0, sym=True)
                    mv = np.array([0.1, 0.2]) * L[0]
                    job = fem.CharacteristicCurve([fem.Step([body], ramp={b2["move"]: mv}, boundaries=b2)], b2["symx"])
                    job.evaluate(verbose=False, tol=1e-10)
                    y = np.array(job.y)
                    ref = np.array([-OH.uniaxial(W, 1 + m / L[0])[0] * L[1] * L[2] for m in mv])
                    run.compare("homogeneous.curve", "loadcase=uniaxial tracked=symmetry-face clause=reaction-force", maxabs(y[:, 0] - ref) / maxabs(ref), 1e-7,
                                "%s: the reaction on the symmetry face is not -P * A0" % label, unit="curve:tracked-other-face", config=("other", 2, fam, name))
                    l = 1 + mv[-1] / L[0]
                    lams = np.array([l, OH.uniaxial(W, l)[1], OH.uniaxial(W, l)[2]])
            Fq = job.res.x.extract()[0]
            Cq = np.einsum("kiqc,kjqc->ijqc", Fq, Fq)
            run.compare("homogeneous.curve", "loadcase=other[%d] clause=uniform-stretch-state" % variant, maxabs(Cq - np.diag(lams ** 2).reshape(3, 3, 1, 1)), 1e-6,
                        "%s: the right Cauchy-Green tensor at the quadrature points is not diag(lambda_i^2)" % label, unit="curve:other:uniform-C")
        except ValueError as exc:
            run.skip("homogeneous.curve", "job did not converge: " + str(exc).strip()[:40])
    return fn


def case_curve_multi(rep):
    """Curve jobs of other shapes: several steps (the second not starting where the first ended, with unloading), a step without
    a ramp, the start field / threaded options, a mixed (u, p, J) body whose reaction is split off the global vector."""
    def fn(run):
        import felupe as fem
        rng = rng_for(run.seed, "C09", "curve-multi", rep)
        mon = SolverMonitor(run).attach()
        try:
            fam = ["hexahedron", "tetra", "hexahedron20"][rep % 3]
            mesh, L = problems.box_mesh(fam, rng)
            name = ["neo_hooke", "neo_hooke_compressible"][rep % 2]
            umat, W, p = ref_material(rng, name)
            axis = int(rng.integers(0, 3))
            others = [a for a in range(3) if a != axis]
            A0 = float(np.prod(L[others]))

            def judge(job, moves, what, unit):
                x, y = np.array(job.x), np.array(job.y)
                if len(x) != len(moves):
                    run.fail("homogeneous.curve", "shape=%s clause=curve-length" % what, "%s: %d points recorded for %d substeps" % (what, len(x), len(moves)))
                    return
                worst, sc = 0.0, 0.0
                for k, mv in enumerate(moves):
                    P11 = OH.uniaxial(W, 1 + mv / L[axis])[0]
                    sc = max(sc, abs(P11) * A0)
                    worst = max(worst, abs(y[k][axis] - P11 * A0))
                    if abs(x[k][axis] - mv) > 1e-12 * max(1.0, abs(mv)):
                        run.fail("homogeneous.curve", "shape=%s clause=recorded-displacement" % what, "%s: job.x is not the prescribed value" % what)
                        return
                run.compare("homogeneous.curve", "shape=%s clause=reaction-force" % what, worst / max(sc, 1e-300), 1e-7,
                            "%s: recorded reaction force differs from the analytic P * A0" % what, unit=unit, config=(what, fam, name))
            # (a) two steps, start field and threaded assembly handed to evaluate()
            field = problems.field_for(fam, mesh, "3d")
            body = fem.SolidBody(umat, field)
            b, _ = fem.dof.uniaxial(field, clamped=False, axis=axis, sym=True)
            m1 = np.array([0.1, 0.2]) * L[axis]
            m2 = np.array([0.1, -0.1, 0.0]) * L[axis]
            job = fem.CharacteristicCurve([fem.Step([body], ramp={b["move"]: m1}, boundaries=b), fem.Step([body], ramp={b["move"]: m2}, boundaries=b)], b["move"])
            job.evaluate(verbose=False, tol=1e-10, x0=field, parallel=True)
            judge(job, list(m1) + list(m2), "two-steps+x0+parallel", "curve:multi:two-steps")
            # (b) a step without a ramp: one substep with the value stored in the boundary
            f2 = problems.field_for(fam, mesh, "3d")
            mv = float(rng.uniform(0.1, 0.3)) * L[axis]
            b2, _ = fem.dof.uniaxial(f2, clamped=False, axis=axis, sym=True, move=mv)
            job2 = fem.CharacteristicCurve([fem.Step([fem.SolidBody(umat, f2)], boundaries=b2)], b2["move"])
            job2.evaluate(verbose=False, tol=1e-10)
            judge(job2, [mv], "step-without-ramp", "curve:multi:no-ramp")
            # (c) mixed (u, p, J) body: only the displacement block of the global force vector is summed
            if name == "neo_hooke" and fam in ("hexahedron", "hexahedron20"):
                fm = fem.FieldsMixed(gen.make_region(fam, mesh), n=3)
                bm, _ = fem.dof.uniaxial(fm, clamped=False, axis=axis, sym=True)
                bodym = fem.SolidBody(fem.ThreeFieldVariation(umat), fm)
                mvs = np.linspace(0, float(rng.uniform(0.15, 0.3)) * L[axis], 4)[1:]
                for use_items in (False, True):
                    jm = fem.CharacteristicCurve([fem.Step([bodym], ramp={bm["move"]: mvs}, boundaries=bm)], bm["move"], items=[bodym] if use_items else None)
                    jm.evaluate(verbose=False, tol=1e-10)
                    judge(jm, list(mvs), "mixed-body items=%s" % use_items, "curve:multi:mixed")
                    fm[0].values[:] = 0
                    fm[1].values[:] = 0
                    fm[2].values[:] = 1
        except ValueError as exc:
            if "not converged" in str(exc) or "NaN" in str(exc):
                run.skip("homogeneous.curve", "job did not converge: " + str(exc).strip()[:40])
            else:
                raise
        finally:
            attach.detach_all()
    return fn


class Recorder:
    """User callback of a CharacteristicCurve job: notes the (step, substep) numbers and the keyword arguments it is handed, how
    many points the job had recorded at that moment, and sums the force vector of the substep on faces of the caller's own
    bookkeeping (plain numpy: displacement block of the global vector, rows of the own point list)."""

    def __init__(self, faces, dim):
        self.faces, self.dim = faces, dim
        self.calls, self.kwargs, self.forces, self.recorded, self.job = [], [], [], [], None

    def __call__(self, stepnumber, substepnumber, substep, **kwargs):
        from scipy.sparse import issparse
        self.calls.append((int(stepnumber), int(substepnumber)))
        self.kwargs.append(dict(kwargs))
        fun = substep.fun
        fun = np.asarray(fun.toarray() if issparse(fun) else fun, float).ravel()
        n = substep.x[0].values.size  # the displacement block comes first
        f = fun[:n].reshape(-1, self.dim)
        self.forces.append({key: f[pts].sum(axis=0) for key, pts in self.faces.items()})
        if self.job is not None:
            self.recorded.append((len(self.job.x), len(self.job.y)))


def homogeneous_states(W, d, moves, L):
    """Principal stretches along the coordinate axes and principal stresses of the base law for a list of prescribed end-face
    displacements {axis: value}; axes that are not prescribed are stress free (3D) resp. held (third axis of plane strain)."""
    from scipy.optimize import brentq
    out = []
    for mv in moves:
        lam = np.ones(3)
        for a, v in mv.items():
            lam[a] = 1 + v / L[a]
        unknown = [a for a in range(d) if a not in mv]
        if len(unknown) == 1 or (len(unknown) == 2 and d == 3):
            # one free in-plane axis, or two free axes with the same stretch (uniaxial tension in 3D)
            def f(l):
                z = lam.copy()
                z[unknown] = l
                return OH.principal_P(W, z)[unknown[0]]
            lam[unknown] = brentq(f, 0.1, 4.0, xtol=1e-14, rtol=1e-14)
        out.append((lam, OH.principal_P(W, lam)))
    return out


def case_curve_steps(rep):
    """Two steps with *different* boundary dictionaries (third audit: all multi-step jobs handed one dictionary to both steps, a
    dof partition cached from the first step went unnoticed): a uniaxial step, then the biaxial load case that holds the first
    axis and stretches the second.  The job gets a user callback (numbering, keyword arguments, own force sums on both moved
    faces: the reaction on the second face, P22 A0, is nowhere else compared) and runs in another unit system per index."""
    def fn(run):
        import felupe as fem
        rng = rng_for(run.seed, "C09", "curve-steps", rep)
        fam = CURVE_FAMS[(5 * rep + 2) % len(CURVE_FAMS)]
        name = REF[rep % len(REF)]
        d = gen.FAMILIES[fam]["dim"]
        s, ms = units_for(rep, d)
        mon = SolverMonitor(run).attach()
        try:
            mesh, L = scaled_box(fam, rng, s, curved_interior=bool(rep % 2))
            planestrain = d == 2
            field = problems.field_for(fam, mesh, "planestrain" if planestrain else "3d")
            umat, W, p = ref_material(rng, name, scale=ms)
            body = fem.SolidBody(umat, field)
            a0, a1 = [(0, 1), (1, 0), (1, 2), (2, 0)][rep % 4] if d == 3 else [(0, 1), (1, 0)][rep % 2]
            b1, _ = fem.dof.uniaxial(field, clamped=False, axis=a0, sym=True)
            m1 = np.array([0.1, 0.2]) * L[a0]
            b2, _ = fem.dof.biaxial(field, axes=(a0, a1), sym=True, moves=(float(m1[-1]), 0.0))
            m2 = (np.array([-0.04, -0.09]) if rep % 3 == 2 else np.array([0.06, 0.15])) * L[a1]
            X = mesh.points
            faces = {"a0": own_face(X, a0, L[a0]), "a1": own_face(X, a1, L[a1])}
            rec = Recorder(faces, d)
            use_items = bool(rep % 2)
            job = fem.CharacteristicCurve([fem.Step([body], ramp={b1["move"]: m1}, boundaries=b1),
                                           fem.Step([body], ramp={b2["move-right-%d" % a1]: m2}, boundaries=b2)],
                                          b2["move-right-%d" % a0], items=[body] if use_items else None, callback=rec, tag="C09", number=rep)
            rec.job = job
            label = "two-dictionaries/%s/%s length %g modulus %.1e" % (fam, name, s, ms)
            try:
                job.evaluate(verbose=False, tol=1e-10)
            except ValueError as exc:
                if "not converged" in str(exc):
                    run.fail("homogeneous.curve", "shape=two-dictionaries clause=job-converges", "%s: the job did not converge (%s)" % (label, str(exc).strip()[:40]))
                    return
                raise
            moves = [{a0: v} for v in m1] + [{a0: m1[-1], a1: v} for v in m2]
            x, y = np.array(job.x), np.array(job.y)
            if len(x) != 4 or len(y) != 4:
                run.fail("homogeneous.curve", "shape=two-dictionaries clause=curve-length", "%s: %d / %d points recorded for 4 substeps" % (label, len(x), len(y)))
                return
            hs = homogeneous_states(W, d, moves, L)
            eta = or_eta(W, p, [h[0] for h in hs]) if name == "ogden_roxburgh" else np.ones(4)
            A = lambda a: float(np.prod([L[b] for b in range(d) if b != a]))
            yref = np.zeros((4, d))
            y1ref = np.zeros((4, d))
            for k, (lam, P) in enumerate(hs):
                yref[k, a0] = eta[k] * P[a0] * A(a0)
                y1ref[k, a1] = eta[k] * P[a1] * A(a1)  # (zero in the uniaxial step: the face is free)
            sc = maxabs(yref)
            first = faces["a0"][0]
            xref = np.array([(lam[:d] - 1) * X[first] for lam, P in hs])
            tolf = 1e-7 + REG.get(name, 0.0)
            run.compare("homogeneous.curve", "shape=two-dictionaries clause=recorded-displacement", maxabs(x[:, a0] - xref[:, a0]) / maxabs(xref), 1e-12,
                        "%s: job.x is not the prescribed value of the moved / held face" % label, unit="curve:steps:x", config=("steps", fam, name, "x"))
            run.compare("homogeneous.curve", "shape=two-dictionaries clause=recorded-displacement-vector", maxabs(x - xref) / maxabs(xref), 1e-7 + 10 * REG.get(name, 0.0),
                        "%s: job.x is not the displacement of the first point of the tracked face in the homogeneous state" % label, unit="curve:steps:x-vector")
            run.compare("homogeneous.curve", "shape=two-dictionaries clause=reaction-force", maxabs(y - yref) / sc, tolf,
                        "%s: recorded reaction force vector differs from the analytic P N A0 (second step: the boundary dictionary changes)" % label,
                        unit="curve:steps:two-dictionaries", config=("steps", fam, name, use_items, s),
                        sample={"shape": "two boundary dictionaries", "family": fam, "material": name, "length unit": s, "modulus unit": ms, "max|F - P*A0|": maxabs(y - yref), "P*A0 scale": sc})
            if not use_items and len(rec.forces) == 4:
                # own sums of the residual the callback was handed: the tracked face once more (tools.force / boundary.points), and
                # the second moved face
                f0 = np.array([fo["a0"] for fo in rec.forces])
                f1 = np.array([fo["a1"] for fo in rec.forces])
                run.compare("homogeneous.curve", "shape=two-dictionaries clause=record-is-force-sum-of-callback-state", maxabs(f0 - y) / sc, 1e-12,
                            "%s: job.y is not the sum of the substep's force vector over the points of the tracked face" % label, unit="curve:steps:callback-force")
                run.compare("homogeneous.curve", "shape=two-dictionaries clause=reaction-force-second-face", maxabs(f1 - y1ref) / sc, tolf,
                            "%s: the reaction on the second moved face differs from the analytic P22 A0" % label, unit="curve:steps:second-face", config=("steps", fam, name, "P22"))
            want = [(0, 0), (0, 1), (1, 0), (1, 1)]
            good = rec.calls == want and all(kw == {"tag": "C09", "number": rep} for kw in rec.kwargs) and rec.recorded == [(k + 1, k + 1) for k in range(4)]
            if good:
                run.ok("homogeneous.curve", unit="curve:steps:user-callback")
            else:
                run.fail("homogeneous.curve", "shape=two-dictionaries clause=user-callback",
                         "%s: the user callback of the job saw (step, substep) %r with keyword arguments %r after %r recorded points; expected %r, the keywords handed to the job, one more point per call" % (label, rec.calls, rec.kwargs[:1], rec.recorded, want))
            # final state: uniform C = diag(lambda_i^2)
            Fq = job.res.x.extract()[0][:d, :d]
            Cq = np.einsum("kiqc,kjqc->ijqc", Fq, Fq)
            run.compare("homogeneous.curve", "shape=two-dictionaries clause=uniform-stretch-state", maxabs(Cq - np.diag(hs[-1][0][:d] ** 2).reshape(d, d, 1, 1)), 1e-6 + 10 * REG.get(name, 0.0),
                        "%s: the right Cauchy-Green tensor at the quadrature points is not diag(lambda_i^2)" % label, unit="curve:steps:uniform-C")
            check_trace(run, mon.trace, label)
        finally:
            attach.detach_all()
    return fn


# families of case_curve_items per variant (all twelve in the thorough tier; the quick tier takes the first two of every row)
ITEMS_FAMS = [["hexahedron20", "triangle6", "tetra10", "quad9", "hexahedron", "quad", "tetraMINI", "triangleMINI", "hexahedron27", "quad8", "tetra", "triangle"],
              ["tetra10", "quad8", "hexahedron", "triangleMINI", "hexahedron27", "triangle6", "tetra", "quad9", "hexahedron20", "quad", "tetraMINI", "triangle"],
              ["hexahedron", "quad8", "tetra10", "triangle6", "quad9", "hexahedron20", "tetraMINI", "quad", "triangleMINI", "tetra", "triangle", "hexahedron27"]]


def case_curve_items(rep):
    """Curve jobs whose record depends on *which* items / points are taken (third audit): (0) the composite law split into two
    bodies on one field, both handed to the job as items=[a, b]; (1) a tracked boundary whose points move differently (the free
    lateral face: job.x is the displacement of its first point in every component, the reaction is zero); (2) several unloading /
    reloading cycles of the pseudo-elastic law (the softened branch per substep, own history loop)."""
    def fn(run):
        import felupe as fem
        rng = rng_for(run.seed, "C09", "curve-items", rep)
        variant = rep % 3
        q = rep // 3
        fam = ITEMS_FAMS[variant][q % len(CURVE_FAMS)]
        d = gen.FAMILIES[fam]["dim"]
        planestrain = d == 2
        s, ms = units_for(q + variant, d)
        mon = SolverMonitor(run).attach()
        try:
            mesh, L = scaled_box(fam, rng, s, curved_interior=bool(q % 2))
            field = problems.field_for(fam, mesh, "planestrain" if planestrain else "3d")
            X = mesh.points
            axis = int(rng.integers(0, d))
            A0 = float(np.prod([L[b] for b in range(d) if b != axis]))
            b, _ = fem.dof.uniaxial(field, clamped=False, axis=axis, sym=True)
            if variant == 0:
                name = ["mooney_rivlin", "yeoh", "ogden"][q % 3]
                (iso, bulk), W, p = ref_material(rng, name, condensed=True, scale=ms)
                items = [fem.SolidBody(iso, field), fem.SolidBody(fem.Volumetric(bulk=bulk), field)]
                if (q // 3) % 2:
                    items = items[::-1]
                mv = np.array([0.1, 0.25]) * L[axis] if q % 2 == 0 else np.array([-0.05, -0.12]) * L[axis]
                tracked, what = b["move"], "items=[isochoric, volumetric]"
                job = fem.CharacteristicCurve([fem.Step(items, ramp={b["move"]: mv}, boundaries=b)], tracked, items=list(items))
            elif variant == 1:
                name = REF[q % 5]
                umat, W, p = ref_material(rng, name, scale=ms)
                body = fem.SolidBody(umat, field)
                other = (axis + 1 + (q // 2) % (d - 1)) % d
                tracked = fem.Boundary(field[0], **{"f" + "xyz"[other]: L[other]})  # tracked only: it is in no boundary dictionary
                mv = np.array([0.1, 0.3]) * L[axis]
                what = "tracked=free-lateral-face"
                job = fem.CharacteristicCurve([fem.Step([body], ramp={b["move"]: mv}, boundaries=b)], tracked, items=[body] if q % 2 else None)
            else:
                name = "ogden_roxburgh"
                umat, W, p = ref_material(rng, name, scale=ms)
                body = fem.SolidBody(umat, field)
                tp = [1 + float(rng.uniform(0.2, 0.3)), 1 + float(rng.uniform(0.03, 0.08)), 1 + float(rng.uniform(0.35, 0.45)), 1 + float(rng.uniform(0.08, 0.15))]
                mv = (segments([1.0] + tp, 2)[1:] - 1) * L[axis]
                tracked, what = b["move"], "pseudo-elastic-cycles"
                job = fem.CharacteristicCurve([fem.Step([body], ramp={b["move"]: mv}, boundaries=b)], tracked, items=[body] if q % 2 else None)
            label = "%s/%s/%s length %g modulus %.1e" % (what, fam, name, s, ms)
            try:
                job.evaluate(verbose=False, tol=1e-10)
            except ValueError as exc:
                if "not converged" in str(exc):
                    run.fail("homogeneous.curve", "shape=%s clause=job-converges" % what, "%s: the job did not converge (%s)" % (label, str(exc).strip()[:40]))
                    return
                raise
            x, y = np.array(job.x), np.array(job.y)
            if len(x) != len(mv) or len(y) != len(mv):
                run.fail("homogeneous.curve", "shape=%s clause=curve-length" % what, "%s: %d points recorded for %d substeps" % (label, len(x), len(mv)))
                return
            hs = homogeneous_states(W, d, [{axis: v} for v in mv], L)
            eta = or_eta(W, p, [h[0] for h in hs]) if name == "ogden_roxburgh" else np.ones(len(mv))
            Pa = np.array([e * h[1][axis] for e, h in zip(eta, hs)])
            sc = maxabs(Pa) * A0
            tolf = 1e-7 + REG.get(name, 0.0)
            if variant == 1:
                first = own_face(X, other, L[other])[0]
                yref = np.zeros((len(mv), d))
            else:
                first = own_face(X, axis, L[axis])[0]
                yref = np.zeros((len(mv), d))
                yref[:, axis] = Pa * A0
            xref = np.array([(h[0][:d] - 1) * X[first] for h in hs])
            run.compare("homogeneous.curve", "shape=%s clause=recorded-displacement-vector" % what, maxabs(x - xref) / maxabs(xref), 1e-7 + 10 * REG.get(name, 0.0),
                        "%s: job.x is not the displacement of the first point of the tracked boundary in the homogeneous state" % label,
                        unit="curve:items:x-vector", config=("items", variant, fam, name, "x"))
            unit = ["curve:items:two-items", "curve:items:lateral-face", "curve:items:pseudo-elastic-cycles"][variant]
            run.compare("homogeneous.curve", "shape=%s clause=reaction-force" % what, maxabs(y - yref) / sc, tolf,
                        "%s: recorded reaction force vector differs from the analytic one (P N A0 on a moved face, zero on a free face)" % label,
                        unit=unit, config=("items", variant, fam, name, s),
                        sample={"shape": what, "family": fam, "material": name, "params": p, "length unit": s, "max|F - ref|": maxabs(y - yref), "P*A0 scale": sc})
            if variant == 2:
                if eta.min() < 1 - 1e-3:
                    run.units["curve:softened-branch"] += 1
                else:
                    run.skip("homogeneous.curve", "no softened substep in the cyclic ramp")
            check_trace(run, mon.trace, label)
        finally:
            attach.detach_all()
    return fn


# formulation x family holes of the third audit: the condensed body on MINI families, the mixed (u, p, J) body on plane-strain, simplex
# and MINI families with their dual regions, meshes of one cell per axis (n = 2) in all three formulations
FORMS = [("tetraMINI", "condensed", 3), ("quad9", "mixed", 3), ("hexahedron27", "solid", 2), ("triangleMINI", "condensed", 3), ("triangle6", "mixed", 3),
         ("quad8", "mixed", 2), ("tetra10", "mixed", 3), ("hexahedron", "condensed", 2), ("triangleMINI", "mixed", 3), ("hexahedron27", "mixed", 3),
         ("tetraMINI", "mixed", 3), ("quad", "mixed", 3), ("quad8", "mixed", 3), ("hexahedron20", "mixed", 2), ("quad9", "condensed", 2), ("tetra10", "solid", 2),
         ("hexahedron20", "condensed", 2), ("triangle6", "condensed", 2), ("quad", "solid", 2), ("hexahedron", "mixed", 2)]


def judge_dual(run, monitor, fam, mesh, x, pref, Jref, pscale, used, label, unit):
    """Dual unknowns of a mixed (u, p, J) body in a homogeneous state, judged on the mesh of the case (fourth audit: which dual
    points count was read from the dual mesh of the result, ``used``; a dual mesh that drops cells or points shrinks the judged
    set).  Own bookkeeping: the documented dual regions carry one point per cell (constant pressure: hexahedron, quad, their
    serendipity families), the vertices of every cell on their own (quad9, hexahedron27: disconnected bi- / tri-linear duals) or the
    vertex points of the mesh (simplex and MINI families: the connected linear dual); and the dual fields as the body sees them -
    interpolated at every quadrature point of every cell of the mesh of the case - are the same two constants."""
    nvert = {"tetra10": 4, "triangle6": 3, "tetraMINI": 4, "triangleMINI": 3}.get(fam)
    if nvert:
        ndual = len(np.unique(mesh.cells[:, :nvert]))
    else:
        ndual = int(mesh.ncells) * {"quad9": 4, "hexahedron27": 8}.get(fam, 1)
    run.compare(monitor, "formulation=mixed family=%s clause=dual-points-of-all-cells" % fam, float(max(abs(len(u_) - ndual) for u_ in used)), 0.0,
                "%s: %r dual points belong to a cell of the pressure / volume-ratio fields, the mesh of the case has %d" % (label, [len(u_) for u_ in used], ndual),
                unit=unit + ":dual-points")
    ex = x.extract()
    if any(np.shape(ex[i])[-1] != mesh.ncells or np.shape(ex[i])[-2] != np.shape(ex[0])[-2] for i in (1, 2)):
        run.fail(monitor, "formulation=mixed family=%s clause=dual-fields-at-quadrature-points" % fam,
                 "%s: dual fields extracted with shapes %r, %r for %d cells" % (label, np.shape(ex[1]), np.shape(ex[2]), mesh.ncells))
        return
    run.compare(monitor, "formulation=mixed family=%s clause=dual-fields-at-quadrature-points" % fam, max(maxabs(ex[1] - pref) / pscale, maxabs(ex[2] - Jref)), 1e-7,
                "%s: pressure / volume ratio at the quadrature points of the cells are not K (J - 1) / J = det F of the homogeneous state" % label,
                unit=unit + ":dual-fields-at-points")


def case_curve_forms(rep):
    def fn(run):
        import felupe as fem
        rng = rng_for(run.seed, "C09", "curve-forms", rep)
        fam, kind, n = FORMS[rep % len(FORMS)]
        d = gen.FAMILIES[fam]["dim"]
        planestrain = d == 2
        mon = SolverMonitor(run).attach()
        try:
            mesh, L = problems.box_mesh(fam, rng, n=(2,) * d if n == 2 else None, curved_interior=bool(rep % 2))
            # ratio of bulk to shear modulus: up to the regime the condensed and mixed bodies exist for
            ratio = [8.0, 2e3, 1e4, 50.0][(rep + rep // len(FORMS)) % 4] if kind != "solid" else [8.0, 50.0][rep % 2]
            mu = float(rng.uniform(0.5, 2))
            if rep % 2 == 0 or kind == "mixed":
                name = "neo_hooke"
                p = dict(mu=mu, bulk=ratio * mu)
                iso, full = fem.NeoHooke(mu=mu), fem.NeoHooke(mu=mu, bulk=p["bulk"])
            else:
                name = "mooney_rivlin"
                c01 = float(rng.uniform(0.1, 0.3)) * mu / 2
                p = dict(C10=mu / 2 - c01, C01=c01, bulk=ratio * mu)
                iso = fem.Hyperelastic(fem.mooney_rivlin, C10=p["C10"], C01=p["C01"])
                full = iso & fem.Volumetric(bulk=p["bulk"])
            W = OH.energy(name, p)
            if kind == "mixed":
                field = fem.FieldsMixed(gen.make_region(fam, mesh), n=3, planestrain=planestrain)
                body = fem.SolidBody(fem.ThreeFieldVariation(full), field)
            else:
                field = problems.field_for(fam, mesh, "planestrain" if planestrain else "3d")
                body = fem.SolidBodyNearlyIncompressible(iso, field, bulk=p["bulk"]) if kind == "condensed" else fem.SolidBody(full, field)
            biax = (rep // 2) % 2 == 1
            a0 = int(rng.integers(0, d))
            a1 = (a0 + 1 + int(rng.integers(0, d - 1))) % d
            t = np.array([0.4, 1.0]) if rep % 3 else np.array([0.2, 0.5, 1.0])
            top0 = float(rng.uniform(0.15, 0.3)) * L[a0]
            if biax:
                top1 = float(rng.uniform(-0.08, 0.2)) * L[a1]
                b, _ = fem.dof.biaxial(field, axes=(a0, a1), sym=True, moves=(0.0, 0.0))
                ramp = {b["move-right-%d" % a0]: t * top0, b["move-right-%d" % a1]: t * top1}
                tracked = b["move-right-%d" % a0]
                moves = [{a0: tt * top0, a1: tt * top1} for tt in t]
            else:
                b, _ = fem.dof.uniaxial(field, clamped=False, axis=a0, sym=True)
                ramp = {b["move"]: t * top0}
                tracked = b["move"]
                moves = [{a0: tt * top0} for tt in t]
            use_items = rep % 3 == 1
            job = fem.CharacteristicCurve([fem.Step([body], ramp=ramp, boundaries=b)], tracked, items=[body] if use_items else None)
            label = "%s/%s/%s/%s cells=%d K/mu=%g" % ("biaxial" if biax else "uniaxial", fam, kind, name, mesh.ncells, ratio)
            try:
                job.evaluate(verbose=False, tol=1e-10)
            except ValueError as exc:
                if "not converged" in str(exc):
                    run.fail("homogeneous.curve", "formulation=%s clause=job-converges" % kind, "%s: the job did not converge (%s)" % (label, str(exc).strip()[:40]))
                    return
                raise
            x, y = np.array(job.x), np.array(job.y)
            if len(x) != len(t) or len(y) != len(t):
                run.fail("homogeneous.curve", "formulation=%s clause=curve-length" % kind, "%s: %d points recorded for %d substeps" % (label, len(x), len(t)))
                return
            hs = homogeneous_states(W, d, moves, L)
            A0 = float(np.prod([L[c] for c in range(d) if c != a0]))
            yref = np.zeros((len(t), d))
            yref[:, a0] = [h[1][a0] * A0 for h in hs]
            sc = maxabs(yref)
            X = mesh.points
            first = own_face(X, a0, L[a0])[0]
            xref = np.array([(h[0][:d] - 1) * X[first] for h in hs])
            run.compare("homogeneous.curve", "formulation=%s family=%s clause=recorded-displacement-vector" % (kind, fam), maxabs(x - xref) / maxabs(xref), 1e-7,
                        "%s: job.x is not the displacement of the first point of the moved face in the homogeneous state" % label,
                        unit="curve:forms:x-vector", config=("forms", fam, kind, "x"))
            run.compare("homogeneous.curve", "formulation=%s family=%s clause=reaction-force" % (kind, fam), maxabs(y - yref) / sc, 1e-7,
                        "%s: recorded reaction force vector differs from the analytic P N A0" % label,
                        unit="curve:forms:%s%s" % (kind, ":one-cell" if n == 2 else (":mini" if gen.FAMILIES[fam].get("mini") else "")), config=("forms", fam, kind, name, n, ratio, biax),
                        sample={"family": fam, "formulation": kind, "material": name, "params": p, "cells": int(mesh.ncells), "max|F - P*A0|": maxabs(y - yref), "P*A0 scale": sc})
            if kind == "mixed":
                run.units["curve:forms:mixed:%s" % ("planestrain" if planestrain else "3d")] += 1
            if ratio >= 1e3:
                run.units["curve:forms:nearly-incompressible"] += 1
            u = job.res.x[0].values
            geo = np.ones(len(X), bool)
            if gen.FAMILIES[fam].get("mini"):
                geo[mesh.cells[:, -1]] = False
            uex = X * (hs[-1][0][:d] - 1)
            run.compare("homogeneous.curve", "formulation=%s family=%s clause=homogeneous-displacement" % (kind, fam), maxabs(u[geo] - uex[geo]) / maxabs(uex), 1e-7,
                        "%s: final displacement field is not the homogeneous stretch state" % label, unit="curve:forms:field")
            if kind == "mixed":
                # the dual unknowns of the homogeneous state: J = det F and p = dU/dJ = K (J - 1) at every point of the dual fields
                # that belongs to a cell (the dual meshes of the higher-order families keep unused points: prescribed, not solved);
                # the pressure is measured against the stress level, J against 1
                J = float(np.prod(hs[-1][0]))
                used = [np.unique(job.res.x[i].region.mesh.cells) for i in (1, 2)]
                errp = maxabs(job.res.x[1].values[used[0]] - p["bulk"] * (J - 1)) / max(maxabs(hs[-1][1]), p["bulk"] * abs(J - 1))
                errJ = maxabs(job.res.x[2].values[used[1]] - J)
                run.compare("homogeneous.curve", "formulation=mixed family=%s clause=dual-fields" % fam, max(errp, errJ), 1e-7,
                            "%s: the pressure / volume-ratio unknowns are not K (J - 1) / J = det F of the homogeneous state" % label, unit="curve:forms:dual-fields")
                judge_dual(run, "homogeneous.curve", fam, mesh, job.res.x, p["bulk"] * (J - 1), J, max(maxabs(hs[-1][1]), p["bulk"] * abs(J - 1)), used, label, "curve:forms")
            check_trace(run, mon.trace, label)
        finally:
            attach.detach_all()
    return fn


PATCH_JOBS = [("hexahedron27", "solid"), ("tetra10", "condensed"), ("quad8", "mixed"), ("triangleMINI", "solid"), ("hexahedron", "mixed"), ("quad9", "condensed"),
              ("tetraMINI", "solid"), ("triangle6", "solid"), ("hexahedron20", "condensed"), ("quad", "solid"), ("tetra", "condensed"), ("triangle", "solid")]


def case_patch_job(rep):
    """The displacement patch test as a job (third audit: the affine map was only ever solved by one direct Newton call with a
    SolidBody): ramped through Step with array-valued boundary values per substep, with the condensed and the mixed body, and with
    the reaction of a *sheared* state: the force vector on a face is P(F_t) N A0 with off-axis components (all curve states are
    diagonal), P from the oracle's polar decomposition."""
    def fn(run):
        import felupe as fem
        rng = rng_for(run.seed, "C09", "patch-job", rep)
        fam, kind = PATCH_JOBS[rep % len(PATCH_JOBS)]
        d = gen.FAMILIES[fam]["dim"]
        planestrain = d == 2
        # (the mixed body stays in the unit system of the draw: Newton's documented criterion is one norm over rows of different
        # units - forces for u, volumes for p, energies for J -, and the displacement rows of a patch test vanish after the first
        # linear step, so in other unit systems the call returns before p and J are iterated; reported, not judged here)
        s, ms = units_for(rep // 2, d) if kind != "mixed" else (1.0, 1.0)
        mon = SolverMonitor(run).attach()
        try:
            mesh, L = scaled_box(fam, rng, s, curved_interior=bool(rep % 2))
            if kind == "solid":
                name = ["neo_hooke", "neo_hooke_compressible", "yeoh", "ogden"][(rep // 3) % 4]
                umat, W, p = ref_material(rng, name, scale=ms)
            elif kind == "condensed":
                name = ["mooney_rivlin", "yeoh"][(rep // 3) % 2]
                (iso, bulk), W, p = ref_material(rng, name, condensed=True, scale=ms)
            else:
                name = "neo_hooke"
                umat, W, p = ref_material(rng, name, scale=ms)
            if kind == "mixed":
                field = fem.FieldsMixed(gen.make_region(fam, mesh), n=3, planestrain=planestrain)
                body = fem.SolidBody(fem.ThreeFieldVariation(umat), field)
            else:
                field = problems.field_for(fam, mesh, "planestrain" if planestrain else "3d")
                body = fem.SolidBodyNearlyIncompressible(iso, field, bulk=bulk) if kind == "condensed" else fem.SolidBody(umat, field)
            while True:
                A = np.eye(d) + 0.25 * rng.uniform(-1, 1, (d, d)) / np.sqrt(d)
                if np.linalg.det(A) > 0.5:
                    break
            X = mesh.points
            geo = np.ones(len(X), bool)
            if gen.FAMILIES[fam].get("mini"):
                geo[mesh.cells[:, -1]] = False
            onb = np.zeros(len(X), bool)
            for a in range(d):
                onb[own_face(X, a, 0.0)] = True
                onb[own_face(X, a, L[a])] = True
            onb &= geo
            vector_values = rep % 3 == 1
            if vector_values:
                # the displacement depends on X_0 only (H = h (x) e_0): the two faces X_0 = const translate rigidly, and their prescribed
                # values are given the way a user writes a rigid translation - ONE vector per boundary, a (substeps, dim) table as ramp
                # (round 11: a tile / repeat mix-up in the expansion of such a value put the components on the wrong unknowns)
                hvec = (A - np.eye(d))[:, 0].copy()
                A = np.eye(d)
                A[:, 0] += hvec
            uex = X @ (A - np.eye(d)).T
            t = np.array([0.3, 0.7, 1.0]) if rep % 2 == 0 else np.array([0.5, 1.0])
            if vector_values:
                m0, mL = np.zeros(len(X), bool), np.zeros(len(X), bool)
                m0[own_face(X, 0, 0.0)] = True
                mL[own_face(X, 0, L[0])] = True
                m0, mL = m0 & geo, mL & geo
                rest = onb & ~m0 & ~mL
                b0 = fem.Boundary(field[0], mask=m0.reshape(-1, 1), value=np.zeros(d))
                bL = fem.Boundary(field[0], mask=mL.reshape(-1, 1), value=np.zeros(d))
                brest = fem.Boundary(field[0], mask=rest.reshape(-1, 1), value=0 * uex[rest])
                ramp = {bL: t[:, None] * (hvec * L[0])[None], brest: t[:, None, None] * uex[rest][None]}
                bnds = {"x0": b0, "xL": bL, "rest": brest}
                run.units["patch-job:vector-valued-boundaries"] += 1
            else:
                ball = fem.Boundary(field[0], mask=onb.reshape(-1, 1), value=0 * uex[onb])
                ramp, bnds = {ball: t[:, None, None] * uex[onb][None]}, {"all": ball}
            a = rep % d  # the tracked face X_a = L_a
            face = fem.Boundary(field[0], **{"f" + "xyz"[a]: L[a]})
            job = fem.CharacteristicCurve([fem.Step([body], ramp=ramp, boundaries=bnds)], face)
            label = "patch-job/%s/%s/%s length %g modulus %.1e" % (fam, kind, name, s, ms)
            try:
                job.evaluate(verbose=False, tol=1e-10)
            except ValueError as exc:
                if "not converged" in str(exc):
                    run.fail("homogeneous.patch", "family=%s clause=patch-job-converges" % fam, "%s: the ramped patch test did not converge (%s)" % (label, str(exc).strip()[:40]))
                    return
                raise
            x, y = np.array(job.x), np.array(job.y)
            if len(x) != len(t) or len(y) != len(t):
                run.fail("homogeneous.patch", "family=%s clause=curve-length" % fam, "%s: %d points recorded for %d substeps" % (label, len(x), len(t)))
                return
            A0 = float(np.prod([L[c] for c in range(d) if c != a]))
            yref = []
            for tt in t:
                F3 = np.eye(3)
                F3[:d, :d] += tt * (A - np.eye(d))
                yref.append(first_pk(W, F3)[:d, a] * A0)
            yref = np.array(yref)
            first = own_face(X, a, L[a])[0]
            xref = t[:, None] * uex[first][None]
            u = job.res.x[0].values
            run.compare("homogeneous.patch", "family=%s formulation=%s clause=ramped-affine-displacement" % (fam, kind), maxabs(u[geo] - uex[geo]) / maxabs(uex), 1e-8,
                        "%s: nodal displacements after the ramp are not the prescribed affine map" % label, unit="patch-job:" + kind, config=("patch-job", fam, kind, name, "u"))
            if gen.FAMILIES[fam].get("mini"):
                run.compare("homogeneous.patch", "family=%s formulation=%s clause=bubble-amplitude-zero" % (fam, kind), maxabs(u[~geo]) / maxabs(uex), 1e-8,
                            "%s: bubble unknowns are not zero for a homogeneous solution" % label, unit="patch-job:bubble")
            run.compare("homogeneous.patch", "family=%s formulation=%s clause=recorded-displacement" % (fam, kind), maxabs(x - xref) / max(maxabs(xref), 1e-3 * maxabs(uex), 1e-300), 1e-12,
                        "%s: job.x is not the prescribed displacement of the first point of the tracked face at every substep" % label, unit="patch-job:x")
            run.compare("homogeneous.patch", "family=%s formulation=%s clause=reaction-force-vector" % (fam, kind), maxabs(y - yref) / maxabs(yref), 1e-7 + REG.get(name, 0.0),
                        "%s: the reaction vector on a face of the sheared homogeneous state is not P(F) N A0" % label, unit="patch-job:reaction-vector",
                        config=("patch-job", fam, kind, name, s),
                        sample={"family": fam, "formulation": kind, "material": name, "A": A.tolist(), "length unit": s, "max|F - P N A0|": maxabs(y - yref), "scale": maxabs(yref)})
            Fq = job.res.x.extract()[0][:d, :d]
            run.compare("homogeneous.patch", "family=%s formulation=%s clause=uniform-deformation-gradient" % (fam, kind), maxabs(Fq - A.reshape(d, d, 1, 1)), 1e-8,
                        "%s: deformation gradient is not uniform = A" % label, unit="patch-job:F")
            if kind == "mixed":
                # the dual unknowns of the sheared homogeneous state (the curve jobs reach diagonal states only): J = det A and
                # p = dU/dJ = K (J - 1) at every dual point that belongs to a cell and at every quadrature point of the mesh of the
                # case; the pressure is measured against the stress level
                J = float(np.linalg.det(A))
                F3 = np.eye(3)
                F3[:d, :d] = A
                pscale = max(maxabs(first_pk(W, F3)), p["bulk"] * abs(J - 1))
                used = [np.unique(job.res.x[i].region.mesh.cells) for i in (1, 2)]
                errp = maxabs(job.res.x[1].values[used[0]] - p["bulk"] * (J - 1)) / pscale
                run.compare("homogeneous.patch", "family=%s formulation=mixed clause=dual-fields" % fam, max(errp, maxabs(job.res.x[2].values[used[1]] - J)), 1e-7,
                            "%s: the pressure / volume-ratio unknowns are not K (J - 1) / J = det A of the homogeneous state" % label, unit="patch-job:dual-fields")
                judge_dual(run, "homogeneous.patch", fam, mesh, job.res.x, p["bulk"] * (J - 1), J, pscale, used, label, "patch-job")
            check_trace(run, mon.trace, label)
        finally:
            attach.detach_all()
    return fn


VIEW_LISTS = {"Uniaxial": "ux", "Planar Shear": "ps", "Biaxial": "bx"}


def judge_view_axis(run, data, own, suffix, material, config):
    """A curve is (stretch, force): the stretch axis a view returns is the list the caller passed for that load case (fourth audit:
    the reference was selected by the returned label and the returned stretches only went into the sample, so a right force list
    against another abscissa - the lateral stretch, the list of another load case - was not seen).  ``own`` = the caller's own
    copies {"ux": .., "ps": .., "bx": ..} (the view is handed other copies; a list that is None is a load case that is not
    included, as documented); every load case once, as many forces as stretches.  False: nothing more to compare."""
    want = sorted(lab + suffix for lab, k in VIEW_LISTS.items() if own.get(k) is not None)
    got = sorted(str(item[2]) for item in data)
    if got != want:
        run.fail("homogeneous.view", "view=labels material=%s clause=load-cases-returned" % material,
                 "view of %s: load cases %r returned for the stretch lists %r" % (material, got, want))
        return False
    for lam, force, label in data:
        mine = np.asarray(own[VIEW_LISTS[label[:len(label) - len(suffix)] if suffix else label]], float)
        if np.shape(lam) != mine.shape or np.shape(force) != mine.shape:
            run.fail("homogeneous.view", "view=%s material=%s clause=curve-length" % (label, material),
                     "ViewMaterial %s of %s: %r stretches and %r forces returned for a list of %d stretches" % (label, material, np.shape(lam), np.shape(force), len(mine)))
            return False
        run.compare("homogeneous.view", "view=%s material=%s clause=stretch-axis" % (label, material), maxabs(np.asarray(lam, float) - mine) / maxabs(mine), 0.0,
                    "ViewMaterial %s of %s: the stretches of the returned curve are not the list the caller passed for this load case" % (label, material),
                    unit="view:stretch-axis:" + label, config=config + (label, "axis"))
    return True


def case_view_history(rep):
    """Views of a law with state variables where the history matters (third audit: monotone lists from the virgin state cannot tell
    whether the state is handed from increment to increment, the argument statevars= and the state branches of the incompressible
    view were never driven): non-monotone stretch lists, a start state statevars=, the incompressible view, a second evaluate() of
    the same view; reference = own history loop or_eta times the stress of the base law."""
    def fn(run):
        import felupe as fem
        rng = rng_for(run.seed, "C09", "view-history", rep)
        scale = [1.0, 1e-6, 1e6][rep % 3]
        umat, W, p = ref_material(rng, "ogden_roxburgh", scale=scale)
        tp = [float(rng.uniform(1.3, 1.5)), float(rng.uniform(1.05, 1.2)), float(rng.uniform(1.6, 1.8))]
        lists = {"ux": segments([1.0, tp[0], tp[1], tp[2], 0.8], 2), "ps": segments([1.0, tp[0], tp[1], tp[2], 1.1], 2),
                 "bx": segments([1.0, 1 + 0.6 * (tp[0] - 1), 1 + 0.6 * (tp[1] - 1), 1 + 0.6 * (tp[2] - 1), 1.02], 2)}
        state = {"Uniaxial": lambda l: [l, OH.uniaxial(W, l)[1], OH.uniaxial(W, l)[2]], "Planar Shear": lambda l: [l, 1.0, _l3_planar(W, l)],
                 "Biaxial": lambda l: [l, l, OH.biaxial(W, l, l)[2]]}
        key = {"Uniaxial": "ux", "Planar Shear": "ps", "Biaxial": "bx"}
        # a start state that matters: the energy of a uniaxial stretch between the two loading peaks (the first loading and
        # unloading branch is softened as a whole, the second peak is primary loading again)
        w0 = float(np.real(W(state["Uniaxial"](0.5 * (tp[0] + tp[2])))))
        for incompressible in (False, True):
            given = (rep % 2 == 1) != incompressible
            start = w0 if given else 0.0
            kw = dict(statevars=np.full((1, 1, 1), start)) if given else {}
            if incompressible:
                pi = {**p, "bulk": 0.0}
                Wv = OH.energy("neo_hooke", pi)
                um = fem.OgdenRoxburgh(fem.NeoHooke(mu=p["mu"]), r=p["r"], m=p["m"], beta=p["beta"])
                st = {"Uniaxial": lambda l: [l, l ** -0.5, l ** -0.5], "Planar Shear": lambda l: [l, 1.0, 1 / l], "Biaxial": lambda l: [l, l, l ** -2]}
                force = lambda z: OH.incompressible(Wv, *z)
                tol = 1e-9
            else:
                Wv, um, st, tol = W, umat, state, 1e-6  # (lateral stretch from the view's hybr root solve: 1e-8)
                force = lambda z: OH.principal_P(Wv, z)[0]
            # (the view gets copies: the returned stretch axes are compared with the lists of this case)
            view = um.view(incompressible=incompressible, **{k: v.copy() for k, v in lists.items()}, **kw)
            ref = {}
            for lab, fs in st.items():
                states = [fs(float(l)) for l in lists[key[lab]]]
                eta = or_eta(Wv, p, states, Wmax=start)
                f0 = np.array([force(z) for z in states])
                # (how much the start state changes the curve: the unit of the statevars= argument counts only where it matters)
                matters = maxabs((eta - or_eta(Wv, p, states)) * f0) / maxabs(f0) > 1e-3 if given else False
                ref[lab + (" (Incompressible)" if incompressible else "")] = (eta * f0, eta, matters)
            for second in (False, True):
                data = view.evaluate()
                if len(data) != 3:
                    run.fail("homogeneous.view", "view=history clause=three-load-cases", "%d load cases returned for three stretch lists" % len(data))
                    return
                if not judge_view_axis(run, data, lists, " (Incompressible)" if incompressible else "", "OgdenRoxburgh(neo_hooke)", ("history", given, second, scale)):
                    return
                for lam, f, lab in data:
                    r, eta, matters = ref[lab]
                    what = "%s%s%s" % (lab, " statevars=" if given else "", " second evaluate()" if second else "")
                    run.compare("homogeneous.view", "view=%s material=OgdenRoxburgh(neo_hooke) start=%s evaluate=%s clause=history-curve" % (lab, "statevars" if given else "virgin", "second" if second else "first"),
                                maxabs(np.asarray(f) - r) / maxabs(r), tol,
                                "ViewMaterial %s: curve of the pseudo-elastic law on a non-monotone stretch list differs from eta(history) * stress of the base law" % what,
                                unit="view:history:" + lab if eta.min() < 1 - 1e-3 else None, config=(lab, "history", given, second, scale),
                                sample={"view": what, "params": p, "stretch": list(map(float, lam)), "force": list(map(float, np.asarray(f))), "eta": list(map(float, eta))})
                    if eta.min() > 1 - 1e-3:
                        run.note("view-history list without a softened increment")
                    if given and matters:
                        run.units["view:history:statevars="] += 1
                    if second:
                        run.units["view:history:second-evaluate"] += 1
    return fn


def case_view(name, rep):
    def fn(run):
        import felupe as fem
        rng = rng_for(run.seed, "C09", "view", name, rep)
        umat, W, p = ref_material(rng, name)
        ux = np.linspace(0.8, 1.8, 6)
        ps = np.linspace(1.0, 1.8, 5)
        bx = np.linspace(1.0, 1.5, 4)
        own = {"ux": ux, "ps": ps, "bx": bx}  # (the views get copies: the returned stretch axes are compared with these)
        copies = lambda o: {k: (None if v is None else v.copy()) for k, v in o.items()}
        stress = {"Uniaxial": lambda l: OH.uniaxial(W, l)[0], "Planar Shear": lambda l: OH.principal_P(W, [l, 1.0, _l3_planar(W, l)])[0],
                  "Biaxial": lambda l: OH.biaxial(W, l, l)[0]}
        data = umat.view(**copies(own)).evaluate()
        if not judge_view_axis(run, data, own, "", name, (name,)):
            return
        ref = {lab: [stress[lab](l) for l in own[k]] for lab, k in VIEW_LISTS.items()}
        for lam, force, label in data:
            r = np.array(ref[label])
            run.compare("homogeneous.view", "view=%s material=%s clause=curve" % (label, name), maxabs(np.asarray(force) - r) / max(maxabs(r), 1e-300), 1e-7 + REG.get(name, 0.0),
                        "ViewMaterial %s curve of %s differs from the analytic stress" % (label, name), unit="view:" + label, config=(label, name),
                        sample={"view": label, "material": name, "params": p, "stretch": list(map(float, lam)), "force": list(map(float, force))})
        # fourth audit: the other two documented ways to say which curves are wanted (by index: every load case is left out /
        # called directly once over the five materials).  (a) a list that is None: that load case is not included, the others are
        # the curves of their lists; (b) the method of one load case with stretches=: the curve of *that* list, not of the list
        # of the constructor (another length, another range)
        k = (rep + REF.index(name)) % 3
        left_out = ["ux", "ps", "bx"][k]
        own2 = {**own, left_out: None}
        data = umat.view(**copies(own2)).evaluate()
        if judge_view_axis(run, data, own2, "", name, (name, "without", left_out)):
            for lam, force, label in data:
                r = np.array(ref[label])
                run.compare("homogeneous.view", "view=%s material=%s clause=curve-with-a-list-left-out" % (label, name), maxabs(np.asarray(force) - r) / max(maxabs(r), 1e-300), 1e-7 + REG.get(name, 0.0),
                            "ViewMaterial %s curve of %s with %s=None differs from the analytic stress" % (label, name, left_out), unit="view:list-left-out:" + left_out, config=(label, name, "without", left_out))
        lab2 = ["Biaxial", "Uniaxial", "Planar Shear"][k]
        meth = {"Uniaxial": "uniaxial", "Planar Shear": "planar", "Biaxial": "biaxial"}[lab2]
        given = {"Uniaxial": np.array([0.9, 1.15, 1.4]), "Planar Shear": np.array([1.05, 1.3, 1.6]), "Biaxial": np.array([0.95, 1.1, 1.3])}[lab2]
        item = getattr(umat.view(**copies(own)), meth)(stretches=given.copy())
        if judge_view_axis(run, [item], {VIEW_LISTS[lab2]: given}, "", name, (name, "stretches=")):
            r = np.array([stress[lab2](l) for l in given])
            run.compare("homogeneous.view", "view=%s material=%s clause=curve-of-given-stretches" % (lab2, name), maxabs(np.asarray(item[1]) - r) / max(maxabs(r), 1e-300), 1e-7 + REG.get(name, 0.0),
                        "ViewMaterial.%s(stretches=) of %s is not the analytic stress at the stretches handed to the method" % (meth, name),
                        unit="view:stretches=:" + lab2, config=(lab2, name, "stretches="))
        if name == "neo_hooke":
            # a law with state variables in the same views (per-increment history loop): on monotone (primary) loading the
            # pseudo-elastic model is its base law
            um_sv = fem.OgdenRoxburgh(umat, r=3.0, m=1.0, beta=0.1)
            mono = {"ux": np.linspace(1.0, 1.8, 5), "ps": ps, "bx": bx}
            data = um_sv.view(**copies(mono)).evaluate()
            if not judge_view_axis(run, data, mono, "", "OgdenRoxburgh(%s)" % name, (name, "OgdenRoxburgh")):
                return
            ref2 = {"Uniaxial": [OH.uniaxial(W, l)[0] for l in mono["ux"]], "Planar Shear": ref["Planar Shear"], "Biaxial": ref["Biaxial"]}
            for lam, force, label in data:
                r = np.array(ref2[label])
                run.compare("homogeneous.view", "view=%s material=OgdenRoxburgh(%s) clause=primary-curve" % (label, name), maxabs(np.asarray(force) - r) / max(maxabs(r), 1e-300),
                            1e-7, "ViewMaterial %s curve of a model with state variables differs from its base law on primary loading" % label,
                            unit="view:statevars:" + label, config=(label, "OgdenRoxburgh"))
        if name in ("mooney_rivlin", "yeoh", "ogden"):
            iso, Wiso, piso = ref_material(rng, name, condensed=True)
            Wi = OH.energy(name, {**piso, "bulk": 0.0})
            inc = " (Incompressible)"
            stress_i = {"Uniaxial": lambda l: OH.incompressible(Wi, l, l ** -0.5, l ** -0.5), "Planar Shear": lambda l: OH.incompressible(Wi, l, 1.0, 1 / l),
                        "Biaxial": lambda l: OH.incompressible(Wi, l, l, l ** -2)}
            data = iso[0].view(incompressible=True, **copies(own)).evaluate()
            if not judge_view_axis(run, data, own, inc, name, (name, "incompressible")):
                return
            refs = {lab + inc: [stress_i[lab](l) for l in own[kk]] for lab, kk in VIEW_LISTS.items()}
            for lam, force, label in data:
                r = np.array(refs[label])
                run.compare("homogeneous.view", "view=%s material=%s clause=curve" % (label, name), maxabs(np.asarray(force) - r) / max(maxabs(r), 1e-300), 1e-9 + REG.get(name, 0.0),
                            "incompressible view %s of %s differs from the analytic stress" % (label, name), unit="view:" + label, config=(label, name))
            item = getattr(iso[0].view(incompressible=True, **copies(own)), meth)(stretches=given.copy())
            if judge_view_axis(run, [item], {VIEW_LISTS[lab2]: given}, inc, name, (name, "incompressible", "stretches=")):
                r = np.array([stress_i[lab2](l) for l in given])
                run.compare("homogeneous.view", "view=%s material=%s clause=curve-of-given-stretches" % (lab2 + inc, name), maxabs(np.asarray(item[1]) - r) / max(maxabs(r), 1e-300), 1e-9 + REG.get(name, 0.0),
                            "ViewMaterialIncompressible.%s(stretches=) of %s is not the analytic stress at the stretches handed to the method" % (meth, name),
                            unit="view:stretches=:" + lab2 + inc, config=(lab2 + inc, name, "stretches="))
    return fn


def _l3_planar(W, l1):
    from scipy.optimize import brentq
    return brentq(lambda l3: OH.principal_P(W, [l1, 1.0, l3])[2], 0.1, 4.0, xtol=1e-14, rtol=1e-14)


def cases(tier, seed):
    out = []
    reps = 1 if tier == "quick" else 5
    for fam in FAMS3 + FAMS2:
        for rep in range(reps if tier == "thorough" else 2):
            out.append(("patch:%s:%d" % (fam, rep), case_patch(fam, rep + (FAMS3 + FAMS2).index(fam))))
    # (orders 5 and 6: third audit, the arbitrary-order region was never driven beyond order 4)
    for order, dim in ((2, 2), (3, 2), (4, 2), (2, 3), (3, 3), (5, 2)) + (((6, 2),) if tier == "thorough" else ()):
        for rep in range(reps):
            out.append(("patch-lagrange:%d:%d:%d" % (order, dim, rep), case_patch_lagrange(order, dim, rep)))
    k = 0
    for loadcase in ("uniaxial", "biaxial"):
        fams = list(CURVE_FAMS)
        for fam in fams:
            for name in (REF if tier == "thorough" else [REF[k % len(REF)]]):
                for rep in range(reps * (2 if tier == "thorough" else 1)):
                    out.append(("curve:%s:%s:%s:%d" % (loadcase, fam, name, rep), case_curve(loadcase, fam, name, rep + k)))
                k += 1
    for name in REF[:5]:  # (the pseudo-elastic law is driven in the views of its base law, on monotone stretch lists)
        for rep in range(reps):
            out.append(("view:%s:%d" % (name, rep), case_view(name, rep)))
    for rep in range(2 if tier == "quick" else 6):
        out.append(("curve-multi:%d" % rep, case_curve_multi(rep)))
    for rep in range(6 if tier == "quick" else 24):
        out.append(("curve-other:%d" % rep, case_curve_other(rep)))
    # third audit: inputs where the history, the dictionary of the step, the list of items, the tracked points, the unit system, the
    # formulation matter (all scheduled by index)
    for rep in range(3 if tier == "quick" else 6):
        out.append(("view-history:%d" % rep, case_view_history(rep)))
    for rep in range(4 if tier == "quick" else 24):
        out.append(("curve-steps:%d" % rep, case_curve_steps(rep)))
    for rep in range(6 if tier == "quick" else 36):
        out.append(("curve-items:%d" % rep, case_curve_items(rep)))
    for rep in range(8 if tier == "quick" else 40):
        out.append(("curve-forms:%d" % rep, case_curve_forms(rep)))
    for rep in range(4 if tier == "quick" else 24):
        out.append(("patch-job:%d" % rep, case_patch_job(rep)))
    return out


SPEC = {
    "required_units": ["patch:" + f for f in FAMS3 + FAMS2] + ["patch:tetraMINI:bubble", "patch:hexahedron:F", "curve:uniaxial:3d", "curve:uniaxial:planestrain",
                       "curve:biaxial:3d", "curve:biaxial:planestrain", "curve:uniaxial:x", "curve:uniaxial:field", "view:Uniaxial", "view:Planar Shear",
                       "view:Biaxial", "patch:lagrange[order<=2]", "patch:lagrange[order>=3,dim=2]", "curve:multi:two-steps", "curve:multi:no-ramp", "curve:multi:mixed", "view:statevars:Uniaxial", "view:statevars:Planar Shear", "view:statevars:Biaxial", "view:Uniaxial (Incompressible)", "view:Planar Shear (Incompressible)", "view:Biaxial (Incompressible)"]
    + ["curve:material:" + n for n in REF] + ["curve:family:" + f for f in CURVE_FAMS]
    + ["curve:uniaxial:uniform-C", "curve:biaxial:uniform-C", "curve:body-away-from-origin", "curve:record", "patch:disturbed-start", "curve:biaxial:no-symmetry", "curve:pressure-controlled", "curve:tracked-other-face"]
    # third audit
    + ["curve:uniaxial:x-vector", "curve:uniaxial:y-vector", "curve:biaxial:x-vector", "curve:biaxial:y-vector", "curve:softened-branch"]
    + ["view:history:" + v + i for v in ("Uniaxial", "Planar Shear", "Biaxial") for i in ("", " (Incompressible)")] + ["view:history:statevars=", "view:history:second-evaluate"]
    + ["curve:steps:two-dictionaries", "curve:steps:x-vector", "curve:steps:second-face", "curve:steps:callback-force", "curve:steps:user-callback"]
    + ["curve:items:two-items", "curve:items:lateral-face", "curve:items:pseudo-elastic-cycles"]
    + ["curve:forms:condensed:mini", "curve:forms:mixed", "curve:forms:mixed:planestrain", "curve:forms:mixed:3d", "curve:forms:solid:one-cell", "curve:forms:mixed:one-cell",
       "curve:forms:condensed:one-cell", "curve:forms:nearly-incompressible", "curve:forms:dual-fields"]
    + ["patch-job:solid", "patch-job:condensed", "patch-job:mixed", "patch-job:reaction-vector", "patch-job:vector-valued-boundaries"]
    # fourth audit (mirrored oracles): the stretch axis of every view against the caller's lists, the dual points from the caller's mesh
    + ["view:stretch-axis:" + v + i for v in VIEW_LISTS for i in ("", " (Incompressible)")] + ["view:list-left-out:" + k for k in ("ux", "ps", "bx")]
    + ["view:stretches=:" + v + i for v in VIEW_LISTS for i in ("", " (Incompressible)")] + ["curve:forms:dual-points", "curve:forms:dual-fields-at-points", "patch-job:dual-fields", "patch-job:dual-points", "patch-job:dual-fields-at-points"],
    "rule": ("displacement patch tests (random affine map on the whole boundary) on 12 element families with interior distortion, 3D and plane "
             "strain; uniaxial and biaxial load cases with CharacteristicCurve jobs (1, 3, 7 substeps, cyclic ramps, with/without symmetry "
             "planes, SolidBody and condensed nearly-incompressible body) on 10 families x 5 materials with oracle-side closed forms; material-"
             "level uniaxial/planar/biaxial curves incl. the incompressible view; all components of job.x / job.y; the pseudo-elastic law on "
             "unloading / reloading paths (jobs and views with statevars=, second evaluate) against an own history loop; two steps with "
             "different boundary dictionaries, items=[a, b], tracked free faces, user callback with own force sums; length / modulus units "
             "1e-6 .. 250 / forces 1e-4 .. 1e5; condensed and mixed bodies on MINI / simplex / plane-strain families, one-cell meshes, K/mu up to "
             "1e4; the patch test ramped as a job with the reaction vector P(F) N A0 of the sheared state; the stretch axis of every view curve "
             "against the caller's own lists (a list left out, stretches= handed to one method); a configuration is distinct by "
             "(load case, family, material, formulation, substeps, unit)"),
    "assumptions": ["reference stresses: textbook energies in principal stretches (vmon/oracles/hyper.py), lateral stretches by brentq",
                    "Newton tolerance 1e-10/1e-11; comparison tolerances 1e-7 (forces) and 1e-8 (displacements)",
                    "pseudo-elastic law: documented eta = 1 - erf((Wmax - W) / (m + beta Wmax)) / r times the stress of the base law, Wmax the running maximum "
                    "over the committed substeps / list members (own loop); view curves of that law 1e-6 (hybr root solve of the view)",
                    "unit sweep: lengths 3e-6 .. 250, total reactions 1e-4 .. 1e5 (above 1e-4 Newton's documented eps = 1e-3 still bounds the force error by 1e-9); "
                    "mixed (u, p, J) bodies are judged in the unit system of the draw only (one residual norm over rows of different units)",
                    "views: the returned stretches are the caller's list exactly (tolerance 0: no arithmetic is documented on them); dual points of the mixed "
                    "bodies counted from the caller's mesh (one per cell / vertices per cell / vertex points, as the documented dual regions say)",
                    "non-convergence of a job from the undeformed state in stretch increments <= 15 % is a violation, coarser subdivisions stay a skip"],
    "jobs": {"quick": 12, "thorough": 16},
    "timeout": {"quick": 1200, "thorough": 5400},
}
