"""C09 - homogeneous deformation problems are solved exactly, independent of the mesh.

End-to-end monitor: the results of Newton solves and CharacteristicCurve jobs (job.x, job.y, result fields) are compared
with closed-form homogeneous solutions (vmon.oracles.hyper: textbook energies in principal stretches, complex-step
derivatives, root solve of the lateral stretch).  The solver monitors of C07/C15 stay attached during these jobs.
"""
import numpy as np

from .. import attach, gen, problems
from ..monitors.solver import SolverMonitor, check_trace
from ..oracles import hyper as OH
from ..util import maxabs, rng_for

FAMS3 = ["hexahedron", "hexahedron20", "hexahedron27", "tetra", "tetra10", "tetraMINI"]
FAMS2 = ["quad", "quad8", "quad9", "triangle", "triangle6", "triangleMINI"]


def ref_material(rng, name, condensed=False):
    """(felupe umat or (umat, bulk) for the condensed body, oracle energy W(l1,l2,l3), parameter dict)"""
    import felupe as fem
    if name == "neo_hooke":
        p = dict(mu=float(rng.uniform(0.5, 2)), bulk=float(rng.uniform(2, 10)))
        return fem.NeoHooke(mu=p["mu"], bulk=p["bulk"]), OH.energy("neo_hooke", p), p
    if name == "neo_hooke_compressible":
        p = dict(mu=float(rng.uniform(0.5, 2)), lmbda=float(rng.uniform(1, 5)))
        return fem.NeoHookeCompressible(mu=p["mu"], lmbda=p["lmbda"]), OH.energy("neo_hooke_compressible", p), p
    if name == "ogden_roxburgh":
        # pseudo-elastic softening around a Neo-Hookean base: on the primary loading path (monotone ramp from the virgin state)
        # the response is that of the base material
        p = dict(mu=float(rng.uniform(0.5, 2)), bulk=float(rng.uniform(2, 10)))
        um = fem.OgdenRoxburgh(fem.NeoHooke(mu=p["mu"], bulk=p["bulk"]), r=float(rng.uniform(1.5, 4)), m=float(rng.uniform(0.5, 2)), beta=float(rng.uniform(0, 0.3)))
        return um, OH.energy("neo_hooke", p), p
    bulk = float(rng.uniform(5, 50))
    if name == "mooney_rivlin":
        p = dict(C10=float(rng.uniform(0.2, 1)), C01=float(rng.uniform(0.05, 0.4)), bulk=bulk)
        iso = fem.Hyperelastic(fem.mooney_rivlin, C10=p["C10"], C01=p["C01"])
    elif name == "yeoh":
        p = dict(C10=float(rng.uniform(0.3, 1)), C20=float(rng.uniform(-0.02, 0.08)), C30=float(rng.uniform(0, 0.03)), bulk=bulk)
        iso = fem.Hyperelastic(fem.yeoh, C10=p["C10"], C20=p["C20"], C30=p["C30"])
    elif name == "ogden":
        p = dict(mu=[float(rng.uniform(0.5, 1.5)), float(rng.uniform(0.05, 0.3))], alpha=[float(rng.uniform(1.5, 3)), float(rng.uniform(-2, -1))], bulk=bulk)
        iso = fem.Hyperelastic(fem.ogden, mu=p["mu"], alpha=p["alpha"])
    else:
        raise KeyError(name)
    W = OH.energy(name, p)
    if condensed:
        return (iso, bulk), W, p
    return iso & fem.Volumetric(bulk=bulk), W, p


REF = ["neo_hooke", "neo_hooke_compressible", "mooney_rivlin", "yeoh", "ogden", "ogden_roxburgh"]
# the tensortrax ogden model goes through tensortrax' eigvalsh, which perturbs C[0,0], C[1,1] by +-1.49e-8 (modelled, 100 x)
REG = {"ogden": 100 * 1.4901161193847656e-08}


CURVE_FAMS = ["hexahedron", "tetra", "hexahedron20", "tetra10", "quad", "triangle", "quad8", "quad9", "triangle6", "hexahedron27", "tetraMINI", "triangleMINI"]


def case_patch(fam, rep):
    def fn(run):
        import felupe as fem
        rng = rng_for(run.seed, "C09", "patch", fam, rep)
        mon = SolverMonitor(run).attach()
        try:
            mesh, L = problems.box_mesh(fam, rng, curved_interior=bool(rep % 2))
            d = mesh.dim
            kind = "3d" if d == 3 else "planestrain"
            field = problems.field_for(fam, mesh, kind)
            mats = ["neo_hooke", "neo_hooke_compressible", "mooney_rivlin", "yeoh", "ogden"]
            name = mats[rep % 5]
            umat, W, p = ref_material(rng, name)
            while True:
                A = np.eye(d) + 0.3 * rng.uniform(-1, 1, (d, d)) / np.sqrt(d)
                if np.linalg.det(A) > 0.5:
                    break
            X = mesh.points
            nv = len(X)
            mini = gen.FAMILIES[fam].get("mini")
            geo = np.ones(nv, bool)
            if mini:
                geo[mesh.cells[:, -1]] = False
            onb = np.any(np.isclose(X, 0) | np.isclose(X, L), axis=1) & geo
            uex = X @ (A - np.eye(d)).T
            b = {"all": fem.Boundary(field[0], mask=onb.reshape(-1, 1), value=uex[onb])}
            dof0, dof1 = fem.dof.partition(field, b)
            ext0 = fem.dof.apply(field, b, dof0)
            body = fem.SolidBody(umat, field)
            label = "%s/%s" % (fam, name)
            disturbed = (rep // 2) % 2 == 1
            if disturbed:
                # a start that is not the solution of the first linear step: Newton iterates at general (sheared) states
                from scipy.spatial import cKDTree
                hmin = float(cKDTree(X[geo]).query(X[geo], k=2)[0][:, 1].min())  # smallest node spacing
                free = geo & ~onb
                field[0].values[geo] = uex[geo]  # the boundary already at its prescribed values, the interior next to the solution
                field[0].values[free] = uex[free] + 0.05 * hmin * rng.uniform(-1, 1, uex[free].shape)
                run.units["patch:disturbed-start"] += 1
            try:
                res = fem.newtonrhapson(items=[body], dof0=dof0, dof1=dof1, ext0=ext0, tol=1e-11, verbose=False)
            except ValueError as exc:
                if disturbed:
                    run.skip("homogeneous.patch", "Newton did not converge from the disturbed start: " + str(exc).strip()[:40])
                    return
                # the exact solution is reached by the first linear step from a zero start
                run.fail("homogeneous.patch", "family=%s clause=patch-test-converges" % fam,
                         "%s: the patch test did not converge (%s)" % (label, str(exc).strip()[:60]))
                return
            u = res.x[0].values
            run.compare("homogeneous.patch", "family=%s clause=affine-displacement" % fam, maxabs(u[geo] - uex[geo]) / max(maxabs(uex), 1e-300), 1e-8,
                        "%s: computed nodal displacements are not the prescribed affine map" % label, unit="patch:" + fam, config=(fam, name, "u"),
                        sample={"family": fam, "material": name, "A": A.tolist(), "points": int(nv), "max|u-u_exact|": maxabs(u[geo] - uex[geo])})
            if mini:
                run.compare("homogeneous.patch", "family=%s clause=bubble-amplitude-zero" % fam, maxabs(u[~geo]) / max(maxabs(uex), 1e-300), 1e-8,
                            "%s: bubble unknowns are not zero for a homogeneous solution" % label, unit="patch:" + fam + ":bubble")
            Fq = res.x.extract()[0][:d, :d]
            run.compare("homogeneous.patch", "family=%s clause=uniform-deformation-gradient" % fam, maxabs(Fq - A.reshape(d, d, 1, 1)), 1e-8,
                        "%s: deformation gradient is not uniform = A" % label, unit="patch:" + fam + ":F", config=(fam, name, "F"))
        finally:
            attach.detach_all()
    return fn


def case_patch_lagrange(order, dim, rep):
    """Displacement patch test on an arbitrary-order Lagrange cell with displaced interior nodes (curved interior)."""
    def fn(run):
        import felupe as fem
        rng = rng_for(run.seed, "C09", "patch-lagrange", order, dim, rep)
        mesh = gen.lagrange_mesh(order, dim)
        X = mesh.points.copy()
        lo, hi = X.min(0), X.max(0)
        onb = np.any(np.isclose(X, lo) | np.isclose(X, hi), axis=1)
        h = float(np.min(hi - lo)) / order
        X[~onb] += 0.15 * h * rng.uniform(-1, 1, X[~onb].shape)
        mesh = mesh.copy(points=X)
        reg = fem.RegionLagrange(mesh, order=order, dim=dim)
        if not np.all(reg.dV > 0):
            run.skip("homogeneous.patch", "displaced interior nodes make the cell invalid")
            return
        field = fem.FieldContainer([fem.Field(reg, dim=dim) if dim == 3 else fem.FieldPlaneStrain(reg, dim=2)])
        name = ["neo_hooke", "neo_hooke_compressible"][rep % 2]
        umat, W, p = ref_material(rng, name)
        while True:
            A = np.eye(dim) + 0.3 * rng.uniform(-1, 1, (dim, dim)) / np.sqrt(dim)
            if np.linalg.det(A) > 0.5:
                break
        uex = X @ (A - np.eye(dim)).T
        b = {"all": fem.Boundary(field[0], mask=onb.reshape(-1, 1), value=uex[onb])}
        dof0, dof1 = fem.dof.partition(field, b)
        ext0 = fem.dof.apply(field, b, dof0)
        try:
            res = fem.newtonrhapson(items=[fem.SolidBody(umat, field)], dof0=dof0, dof1=dof1, ext0=ext0, tol=1e-11, verbose=False)
        except ValueError as exc:
            run.skip("homogeneous.patch", "Newton did not converge: " + str(exc).strip()[:40])
            return
        u = res.x[0].values
        grp = "lagrange[order<=2]" if order <= 2 else ("lagrange[order>=3,dim=%d]" % dim)
        run.compare("homogeneous.patch", "family=%s clause=affine-displacement" % grp, maxabs(u - uex) / max(maxabs(uex), 1e-300), 1e-8,
                    "RegionLagrange(order=%d, dim=%d) with displaced interior nodes: computed displacements are not the prescribed affine map" % (order, dim),
                    unit="patch:" + grp, config=("patch-lagrange", order, dim, name))
    return fn


def case_curve(loadcase, fam, name, rep):
    def fn(run):
        import felupe as fem
        rng = rng_for(run.seed, "C09", "curve", loadcase, fam, name, rep)
        mon = SolverMonitor(run).attach()
        try:
            mesh, L = problems.box_mesh(fam, rng, curved_interior=bool((rep // 2) % 2))
            d = mesh.dim
            planestrain = d == 2
            field = problems.field_for(fam, mesh, "planestrain" if planestrain else "3d")
            condensed = name in ("mooney_rivlin", "yeoh", "ogden") and rep % 2 == 1 and not gen.FAMILIES[fam].get("mini")
            umat, W, p = ref_material(rng, name, condensed=condensed)
            if condensed:
                body = fem.SolidBodyNearlyIncompressible(umat[0], field, bulk=umat[1])
            else:
                body = fem.SolidBody(umat, field)
            nsub = [1, 3, 7][rep % 3]
            cyclic = rep % 4 == 3 and name != "ogden_roxburgh"  # (the softening law equals its base on the primary path only)
            symflag = bool(rep % 2)
            if loadcase == "uniaxial":
                axis = int(rng.integers(0, d))
                symarg = symflag
                if not symflag:
                    # symmetry planes for the lateral axes only (without them the lateral rigid modes are free: a singular
                    # system, no well-posed problem); along the loading axis the body may sit anywhere (the left end face is the
                    # outermost left position of the points)
                    symarg = tuple(a != axis for a in range(3))
                if not symflag and rep % 4 == 2:
                    shift = np.zeros(d)
                    shift[axis] = float(rng.uniform(-2, 2))
                    mesh.points[:] = mesh.points + shift
                    field = problems.field_for(fam, mesh, "planestrain" if planestrain else "3d")
                    body = fem.SolidBodyNearlyIncompressible(umat[0], field, bulk=umat[1]) if condensed else fem.SolidBody(umat, field)
                    run.units["curve:body-away-from-origin"] += 1
                bounds, lc = fem.dof.uniaxial(field, clamped=False, axis=axis, sym=symarg)
                top = float(rng.uniform(0.15, 0.35)) * L[axis]
                move = fem.math.linsteps([0, top, -0.3 * top] if cyclic else [0, top], num=nsub)[1:] if nsub > 1 else np.array([top])
                key = "move"
                others = [a for a in range(d) if a != axis]
                A0 = float(np.prod(L[others]))
            else:
                pairs = [(0, 1), (1, 0)] if d == 2 else [(0, 1), (1, 0), (0, 2), (2, 0), (1, 2), (2, 1)]
                axes = pairs[rep % len(pairs)]
                bounds, lc = fem.dof.biaxial(field, axes=axes, clampes=(False, False), sym=True, moves=(0.0, 0.0))
                top = np.array([float(rng.uniform(0.1, 0.3)) * L[axes[0]], float(rng.uniform(-0.1, 0.25)) * L[axes[1]]])
                t = np.linspace(0, 1, nsub + 1)[1:]
                key = "move-right-%d" % axes[0]
                axis = axes[0]
                others = [a for a in range(d) if a != axis]
                A0 = float(np.prod(L[others]))
            mini = gen.FAMILIES[fam].get("mini")
            if loadcase == "uniaxial":
                ramp = {bounds[key]: move}
            else:
                ramp = {bounds["move-right-%d" % axes[0]]: t * top[0], bounds["move-right-%d" % axes[1]]: t * top[1]}
            step = fem.Step([body], ramp=ramp, boundaries=bounds)
            use_items = rep % 3 == 1  # reaction forces taken from the items' own results instead of the Newton residual
            job = fem.CharacteristicCurve([step], bounds[key], items=[body] if use_items else None)
            try:
                job.evaluate(verbose=False, tol=1e-10)
            except ValueError as exc:
                # Newton did not converge for this load level in the chosen subdivision: it raised (C07), nothing to compare
                run.skip("homogeneous.curve", "job did not converge (%s/%s/%s, %d substeps): %s" % (loadcase, fam, name, nsub, str(exc).strip()[:40]))
                return
            x = np.array(job.x)
            y = np.array(job.y)
            label = "%s/%s/%s%s" % (loadcase, fam, name, "/condensed" if condensed else "")
            nsteps = len(x)
            if nsteps != len(list(ramp.values())[0]):
                run.fail("homogeneous.curve", "loadcase=%s clause=curve-length" % loadcase, "%s: %d points recorded for %d substeps" % (label, nsteps, len(move)))
                return
            worst_x = worst_y = 0.0
            Pscale = 0.0
            for k in range(nsteps):
                if loadcase == "uniaxial":
                    mv = float(np.atleast_1d(move)[k])
                    lam = 1 + mv / L[axis]
                    P11, l2, l3 = OH.uniaxial(W, lam, planestrain=planestrain)
                    worst_x = max(worst_x, abs(x[k][axis] - mv))
                else:
                    l1, l2 = 1 + t[k] * top[0] / L[axes[0]], 1 + t[k] * top[1] / L[axes[1]]
                    if planestrain:
                        P = OH.principal_P(W, [l1, l2, 1.0])
                        P11 = P[0]
                    else:
                        P11, P22, l3 = OH.biaxial(W, l1, l2)
                    worst_x = max(worst_x, abs(x[k][axis] - t[k] * top[0]))
                Pscale = max(Pscale, abs(P11))
                worst_y = max(worst_y, abs(y[k][axis] - P11 * A0))
            sc = max(Pscale * A0, 1e-300)
            run.compare("homogeneous.curve", "loadcase=%s family=%s clause=recorded-displacement" % (loadcase, fam), worst_x / max(maxabs(x), 1e-300), 1e-12,
                        "%s: job.x is not the ramp value" % label, unit="curve:%s:x" % loadcase, config=(loadcase, fam, name, "x"))
            run.compare("homogeneous.curve", "loadcase=%s family=%s clause=reaction-force" % (loadcase, fam), worst_y / sc, 1e-7 + REG.get(name, 0.0),
                        "%s: recorded reaction force differs from the analytic P * A0" % label, unit="curve:%s:%s" % (loadcase, "planestrain" if planestrain else "3d"),
                        config=(loadcase, fam, name, condensed, nsub),
                        sample={"loadcase": loadcase, "family": fam, "material": name, "params": p, "substeps": nsteps, "max|F - P*A0|": worst_y, "P*A0 scale": sc})
            run.units["curve:material:" + name] += 1
            run.units["curve:family:" + fam] += 1
            # final displacement field: the homogeneous stretch state
            u = job.res.x[0].values
            X = mesh.points
            geo = np.ones(len(X), bool)
            if mini:
                geo[mesh.cells[:, -1]] = False
            if loadcase == "uniaxial":
                lam = 1 + float(np.atleast_1d(move)[-1]) / L[axis]
                P11, l2, l3 = OH.uniaxial(W, lam, planestrain=planestrain)
                lams = np.ones(d)
                lams[axis] = lam
                for a in others:
                    lams[a] = l2
                origin = np.zeros(d) if symflag else None
            else:
                la, lb = 1 + top[0] / L[axes[0]], 1 + top[1] / L[axes[1]]
                lams = np.ones(d)
                lams[axes[0]], lams[axes[1]] = la, lb
                if d == 3:
                    lams[[a for a in range(3) if a not in axes][0]] = OH.biaxial(W, la, lb)[2]
                origin = np.zeros(d)
            # uniform stretch state at every quadrature point, whatever rigid motion is left free: C = F^T F = diag(lams^2)
            Fq = job.res.x.extract()[0][:d, :d]
            Cq = np.einsum("kiqc,kjqc->ijqc", Fq, Fq)
            run.compare("homogeneous.curve", "loadcase=%s family=%s clause=uniform-stretch-state" % (loadcase, fam),
                        maxabs(Cq - np.diag(lams ** 2).reshape(d, d, 1, 1)), 1e-6 + 10 * REG.get(name, 0.0),
                        "%s: the right Cauchy-Green tensor at the quadrature points is not diag(lambda_i^2) of the homogeneous state" % label,
                        unit="curve:%s:uniform-C" % loadcase, config=(loadcase, fam, name, "C"))
            if origin is not None:
                uex = X * (lams - 1)
                run.compare("homogeneous.curve", "loadcase=%s family=%s clause=homogeneous-displacement" % (loadcase, fam), maxabs(u[geo] - uex[geo]) / max(maxabs(uex), 1e-300),
                            1e-7 + REG.get(name, 0.0), "%s: final displacement field is not the homogeneous stretch state" % label, unit="curve:%s:field" % loadcase)
            check_trace(run, mon.trace, label)
            # the recorded curve is a record: it keeps the computed values when the field is used on (reset for the next job)
            x_rec, y_rec = np.array(job.x, dtype=float, copy=True), np.array(job.y, dtype=float, copy=True)
            field[0].fill(0)
            run.compare("homogeneous.curve", "loadcase=%s clause=record-survives-field-reset" % loadcase,
                        max(maxabs(np.array(job.x, dtype=float) - x_rec), maxabs(np.array(job.y, dtype=float) - y_rec)) / max(maxabs(x_rec), 1e-300), 0.0,
                        "%s: the recorded displacements / forces of the job change when the field is reset afterwards" % label,
                        unit="curve:record")
        finally:
            attach.detach_all()
    return fn


def case_curve_other(rep):
    """Homogeneous problems driven in other documented ways: a biaxial load case without symmetry planes on a body away from
    the origin (both faces of an axis move), a load-controlled uniaxial state (ramp keyed by a follower-pressure item, forces
    from the body's own results), the reaction tracked on a face that is not the moved one."""
    def fn(run):
        import felupe as fem
        rng = rng_for(run.seed, "C09", "curve-other", rep)
        variant = rep % 3
        fam = ["hexahedron", "hexahedron20", "tetra10", "hexahedron27"][(rep // 3) % 4]
        mesh, L = problems.box_mesh(fam, rng, curved_interior=bool(rep % 2))
        name = ["neo_hooke", "neo_hooke_compressible", "mooney_rivlin"][rep % 3]
        umat, W, p = ref_material(rng, name)
        label = "curve-other/%d/%s/%s" % (variant, fam, name)
        try:
            if variant == 0:
                off = rng.uniform(-2, 2, 3)
                mesh = mesh.copy(points=mesh.points + off)
                field = problems.field_for(fam, mesh, "3d")
                body = fem.SolidBody(umat, field)
                axes = [(0, 1), (1, 2), (2, 0)][(rep // 3) % 3]
                third = [a for a in range(3) if a not in axes][0]
                sym = [False, False, False]
                sym[third] = True
                # the symmetry plane of the third axis sits at the origin (documented): put that face of the body there
                shift = np.zeros(3)
                shift[third] = -mesh.points[:, third].min()
                mesh.points[:] = mesh.points + shift
                field = problems.field_for(fam, mesh, "3d")
                body = fem.SolidBody(umat, field)
                bnd, _ = fem.dof.biaxial(field, axes=axes, sym=tuple(sym), moves=(0.0, 0.0))
                top = np.array([float(rng.uniform(0.05, 0.15)) * L[axes[0]], float(rng.uniform(-0.05, 0.12)) * L[axes[1]]])
                t = np.array([0.5, 1.0])
                ramp = {bnd["move-right-%d" % axes[0]]: t * top[0], bnd["move-left-%d" % axes[0]]: -t * top[0],
                        bnd["move-right-%d" % axes[1]]: t * top[1], bnd["move-left-%d" % axes[1]]: -t * top[1]}
                job = fem.CharacteristicCurve([fem.Step([body], ramp=ramp, boundaries=bnd)], bnd["move-right-%d" % axes[0]])
                job.evaluate(verbose=False, tol=1e-10)
                y = np.array(job.y)
                others = [a for a in range(3) if a != axes[0]]
                worst, lams = 0.0, None
                for k in range(2):
                    l1, l2 = 1 + 2 * t[k] * top[0] / L[axes[0]], 1 + 2 * t[k] * top[1] / L[axes[1]]
                    P11, P22, l3 = OH.biaxial(W, l1, l2)
                    worst = max(worst, abs(y[k][axes[0]] - P11 * np.prod(L[others])) / abs(P11 * np.prod(L[others])))
                    lams = np.ones(3)
                    lams[axes[0]], lams[axes[1]], lams[third] = l1, l2, l3
                run.compare("homogeneous.curve", "loadcase=biaxial-without-symmetry clause=reaction-force", worst, 1e-7,
                            "%s: recorded reaction force differs from the analytic P * A0" % label, unit="curve:biaxial:no-symmetry", config=("other", 0, fam, name))
            else:
                field = problems.field_for(fam, mesh, "3d")
                body = fem.SolidBody(umat, field)
                bnd = fem.dof.symmetry(field[0])
                X = mesh.points
                if variant == 1:
                    Rb = {"hexahedron": fem.RegionHexahedronBoundary, "hexahedron20": fem.RegionQuadraticHexahedronBoundary,
                          "hexahedron27": fem.RegionTriQuadraticHexahedronBoundary}.get(fam)
                    if Rb is None:
                        run.skip("homogeneous.curve", "no boundary region for this family")
                        return
                    fb = fem.FieldContainer([fem.Field(Rb(mesh, mask=np.isclose(X[:, 0], L[0])), dim=3)])
                    pr = fem.SolidBodyPressure(fb)
                    lam = np.array([1.1, 1.25]) if rep % 2 else np.array([0.9, 1.2, 1.3])
                    pv = []
                    for l in lam:
                        P11, l2, l3 = OH.uniaxial(W, l)
                        pv.append(-P11 / (l2 * l3))  # p = - sigma_11
                    right = fem.Boundary(field[0], fx=L[0], skip=(0, 1, 1))  # tracked only, no constraint
                    job = fem.CharacteristicCurve([fem.Step([body, pr], ramp={pr: np.array(pv)}, boundaries=bnd)], right, items=[body])
                    job.evaluate(verbose=False, tol=1e-10)
                    x, y = np.array(job.x), np.array(job.y)
                    A0 = L[1] * L[2]
                    ref = np.array([OH.uniaxial(W, l)[0] * A0 for l in lam])
                    run.compare("homogeneous.curve", "loadcase=pressure-controlled clause=recorded-displacement", maxabs(x[:, 0] - (lam - 1) * L[0]) / L[0], 1e-8,
                                "%s: the displacement reached under the follower pressure is not (lambda - 1) L" % label, unit="curve:pressure-controlled", config=("other", 1, fam, name))
                    run.compare("homogeneous.curve", "loadcase=pressure-controlled clause=reaction-force", maxabs(y[:, 0] - ref) / maxabs(ref), 1e-7,
                                "%s: the force of the body on the loaded face is not P * A0" % label, unit="curve:pressure-controlled")
                    lams = np.array([lam[-1], OH.uniaxial(W, lam[-1])[1], OH.uniaxial(W, lam[-1])[2]])
                else:
                    b2, _ = fem.dof.uniaxial(field, clamped=False, axis=0, sym=True)
                    mv = np.array([0.1, 0.2]) * L[0]
                    job = fem.CharacteristicCurve([fem.Step([body], ramp={b2["move"]: mv}, boundaries=b2)], b2["symx"])
                    job.evaluate(verbose=False, tol=1e-10)
                    y = np.array(job.y)
                    ref = np.array([-OH.uniaxial(W, 1 + m / L[0])[0] * L[1] * L[2] for m in mv])
                    run.compare("homogeneous.curve", "loadcase=uniaxial tracked=symmetry-face clause=reaction-force", maxabs(y[:, 0] - ref) / maxabs(ref), 1e-7,
                                "%s: the reaction on the symmetry face is not -P * A0" % label, unit="curve:tracked-other-face", config=("other", 2, fam, name))
                    l = 1 + mv[-1] / L[0]
                    lams = np.array([l, OH.uniaxial(W, l)[1], OH.uniaxial(W, l)[2]])
            Fq = job.res.x.extract()[0]
            Cq = np.einsum("kiqc,kjqc->ijqc", Fq, Fq)
            run.compare("homogeneous.curve", "loadcase=other[%d] clause=uniform-stretch-state" % variant, maxabs(Cq - np.diag(lams ** 2).reshape(3, 3, 1, 1)), 1e-6,
                        "%s: the right Cauchy-Green tensor at the quadrature points is not diag(lambda_i^2)" % label, unit="curve:other:uniform-C")
        except ValueError as exc:
            run.skip("homogeneous.curve", "job did not converge: " + str(exc).strip()[:40])
    return fn


def case_curve_multi(rep):
    """Curve jobs of other shapes: several steps (the second not starting where the first ended, with unloading), a step without
    a ramp, the start field / threaded options, a mixed (u, p, J) body whose reaction is split off the global vector."""
    def fn(run):
        import felupe as fem
        rng = rng_for(run.seed, "C09", "curve-multi", rep)
        mon = SolverMonitor(run).attach()
        try:
            fam = ["hexahedron", "tetra", "hexahedron20"][rep % 3]
            mesh, L = problems.box_mesh(fam, rng)
            name = ["neo_hooke", "neo_hooke_compressible"][rep % 2]
            umat, W, p = ref_material(rng, name)
            axis = int(rng.integers(0, 3))
            others = [a for a in range(3) if a != axis]
            A0 = float(np.prod(L[others]))

            def judge(job, moves, what, unit):
                x, y = np.array(job.x), np.array(job.y)
                if len(x) != len(moves):
                    run.fail("homogeneous.curve", "shape=%s clause=curve-length" % what, "%s: %d points recorded for %d substeps" % (what, len(x), len(moves)))
                    return
                worst, sc = 0.0, 0.0
                for k, mv in enumerate(moves):
                    P11 = OH.uniaxial(W, 1 + mv / L[axis])[0]
                    sc = max(sc, abs(P11) * A0)
                    worst = max(worst, abs(y[k][axis] - P11 * A0))
                    if abs(x[k][axis] - mv) > 1e-12 * max(1.0, abs(mv)):
                        run.fail("homogeneous.curve", "shape=%s clause=recorded-displacement" % what, "%s: job.x is not the prescribed value" % what)
                        return
                run.compare("homogeneous.curve", "shape=%s clause=reaction-force" % what, worst / max(sc, 1e-300), 1e-7,
                            "%s: recorded reaction force differs from the analytic P * A0" % what, unit=unit, config=(what, fam, name))
            # (a) two steps, start field and threaded assembly handed to evaluate()
            field = problems.field_for(fam, mesh, "3d")
            body = fem.SolidBody(umat, field)
            b, _ = fem.dof.uniaxial(field, clamped=False, axis=axis, sym=True)
            m1 = np.array([0.1, 0.2]) * L[axis]
            m2 = np.array([0.1, -0.1, 0.0]) * L[axis]
            job = fem.CharacteristicCurve([fem.Step([body], ramp={b["move"]: m1}, boundaries=b), fem.Step([body], ramp={b["move"]: m2}, boundaries=b)], b["move"])
            job.evaluate(verbose=False, tol=1e-10, x0=field, parallel=True)
            judge(job, list(m1) + list(m2), "two-steps+x0+parallel", "curve:multi:two-steps")
            # (b) a step without a ramp: one substep with the value stored in the boundary
            f2 = problems.field_for(fam, mesh, "3d")
            mv = float(rng.uniform(0.1, 0.3)) * L[axis]
            b2, _ = fem.dof.uniaxial(f2, clamped=False, axis=axis, sym=True, move=mv)
            job2 = fem.CharacteristicCurve([fem.Step([fem.SolidBody(umat, f2)], boundaries=b2)], b2["move"])
            job2.evaluate(verbose=False, tol=1e-10)
            judge(job2, [mv], "step-without-ramp", "curve:multi:no-ramp")
            # (c) mixed (u, p, J) body: only the displacement block of the global force vector is summed
            if name == "neo_hooke" and fam in ("hexahedron", "hexahedron20"):
                fm = fem.FieldsMixed(gen.make_region(fam, mesh), n=3)
                bm, _ = fem.dof.uniaxial(fm, clamped=False, axis=axis, sym=True)
                bodym = fem.SolidBody(fem.ThreeFieldVariation(umat), fm)
                mvs = np.linspace(0, float(rng.uniform(0.15, 0.3)) * L[axis], 4)[1:]
                for use_items in (False, True):
                    jm = fem.CharacteristicCurve([fem.Step([bodym], ramp={bm["move"]: mvs}, boundaries=bm)], bm["move"], items=[bodym] if use_items else None)
                    jm.evaluate(verbose=False, tol=1e-10)
                    judge(jm, list(mvs), "mixed-body items=%s" % use_items, "curve:multi:mixed")
                    fm[0].values[:] = 0
                    fm[1].values[:] = 0
                    fm[2].values[:] = 1
        except ValueError as exc:
            if "not converged" in str(exc) or "NaN" in str(exc):
                run.skip("homogeneous.curve", "job did not converge: " + str(exc).strip()[:40])
            else:
                raise
        finally:
            attach.detach_all()
    return fn


def case_view(name, rep):
    def fn(run):
        import felupe as fem
        rng = rng_for(run.seed, "C09", "view", name, rep)
        umat, W, p = ref_material(rng, name)
        ux = np.linspace(0.8, 1.8, 6)
        ps = np.linspace(1.0, 1.8, 5)
        bx = np.linspace(1.0, 1.5, 4)
        data = umat.view(ux=ux, ps=ps, bx=bx).evaluate()
        ref = {"Uniaxial": [OH.uniaxial(W, l)[0] for l in ux],
               "Planar Shear": [OH.principal_P(W, [l, 1.0, _l3_planar(W, l)])[0] for l in ps],
               "Biaxial": [OH.biaxial(W, l, l)[0] for l in bx]}
        for lam, force, label in data:
            r = np.array(ref[label])
            run.compare("homogeneous.view", "view=%s material=%s clause=curve" % (label, name), maxabs(np.asarray(force) - r) / max(maxabs(r), 1e-300), 1e-7 + REG.get(name, 0.0),
                        "ViewMaterial %s curve of %s differs from the analytic stress" % (label, name), unit="view:" + label, config=(label, name),
                        sample={"view": label, "material": name, "params": p, "stretch": list(map(float, lam)), "force": list(map(float, force))})
        if name == "neo_hooke":
            # a law with state variables in the same views (per-increment history loop): on monotone (primary) loading the
            # pseudo-elastic model is its base law
            um_sv = fem.OgdenRoxburgh(umat, r=3.0, m=1.0, beta=0.1)
            mono = {"ux": np.linspace(1.0, 1.8, 5), "ps": ps, "bx": bx}
            data = um_sv.view(**mono).evaluate()
            ref2 = {"Uniaxial": [OH.uniaxial(W, l)[0] for l in mono["ux"]], "Planar Shear": ref["Planar Shear"], "Biaxial": ref["Biaxial"]}
            for lam, force, label in data:
                r = np.array(ref2[label])
                run.compare("homogeneous.view", "view=%s material=OgdenRoxburgh(%s) clause=primary-curve" % (label, name), maxabs(np.asarray(force) - r) / max(maxabs(r), 1e-300),
                            1e-7, "ViewMaterial %s curve of a model with state variables differs from its base law on primary loading" % label,
                            unit="view:statevars:" + label, config=(label, "OgdenRoxburgh"))
        if name in ("mooney_rivlin", "yeoh", "ogden"):
            iso, Wiso, piso = ref_material(rng, name, condensed=True)
            Wi = OH.energy(name, {**piso, "bulk": 0.0})
            data = iso[0].view(incompressible=True, ux=ux, ps=ps, bx=bx).evaluate()
            refs = {"Uniaxial (Incompressible)": [OH.incompressible(Wi, l, l ** -0.5, l ** -0.5) for l in ux],
                    "Planar Shear (Incompressible)": [OH.incompressible(Wi, l, 1.0, 1 / l) for l in ps],
                    "Biaxial (Incompressible)": [OH.incompressible(Wi, l, l, l ** -2) for l in bx]}
            for lam, force, label in data:
                r = np.array(refs[label])
                run.compare("homogeneous.view", "view=%s material=%s clause=curve" % (label, name), maxabs(np.asarray(force) - r) / max(maxabs(r), 1e-300), 1e-9 + REG.get(name, 0.0),
                            "incompressible view %s of %s differs from the analytic stress" % (label, name), unit="view:" + label, config=(label, name))
    return fn


def _l3_planar(W, l1):
    from scipy.optimize import brentq
    return brentq(lambda l3: OH.principal_P(W, [l1, 1.0, l3])[2], 0.1, 4.0, xtol=1e-14, rtol=1e-14)


def cases(tier, seed):
    out = []
    reps = 1 if tier == "quick" else 5
    for fam in FAMS3 + FAMS2:
        for rep in range(reps if tier == "thorough" else 2):
            out.append(("patch:%s:%d" % (fam, rep), case_patch(fam, rep + (FAMS3 + FAMS2).index(fam))))
    for order, dim in ((2, 2), (3, 2), (4, 2), (2, 3), (3, 3)):
        for rep in range(reps):
            out.append(("patch-lagrange:%d:%d:%d" % (order, dim, rep), case_patch_lagrange(order, dim, rep)))
    k = 0
    for loadcase in ("uniaxial", "biaxial"):
        fams = list(CURVE_FAMS)
        for fam in fams:
            for name in (REF if tier == "thorough" else [REF[k % len(REF)]]):
                for rep in range(reps * (2 if tier == "thorough" else 1)):
                    out.append(("curve:%s:%s:%s:%d" % (loadcase, fam, name, rep), case_curve(loadcase, fam, name, rep + k)))
                k += 1
    for name in REF[:5]:  # (the pseudo-elastic law is driven in the views of its base law, on monotone stretch lists)
        for rep in range(reps):
            out.append(("view:%s:%d" % (name, rep), case_view(name, rep)))
    for rep in range(2 if tier == "quick" else 6):
        out.append(("curve-multi:%d" % rep, case_curve_multi(rep)))
    for rep in range(6 if tier == "quick" else 24):
        out.append(("curve-other:%d" % rep, case_curve_other(rep)))
    return out


SPEC = {
    "required_units": ["patch:" + f for f in FAMS3 + FAMS2] + ["patch:tetraMINI:bubble", "patch:hexahedron:F", "curve:uniaxial:3d", "curve:uniaxial:planestrain",
                       "curve:biaxial:3d", "curve:biaxial:planestrain", "curve:uniaxial:x", "curve:uniaxial:field", "view:Uniaxial", "view:Planar Shear",
                       "view:Biaxial", "patch:lagrange[order<=2]", "patch:lagrange[order>=3,dim=2]", "curve:multi:two-steps", "curve:multi:no-ramp", "curve:multi:mixed", "view:statevars:Uniaxial", "view:statevars:Planar Shear", "view:statevars:Biaxial", "view:Uniaxial (Incompressible)", "view:Planar Shear (Incompressible)", "view:Biaxial (Incompressible)"]
    + ["curve:material:" + n for n in REF] + ["curve:family:" + f for f in CURVE_FAMS]
    + ["curve:uniaxial:uniform-C", "curve:biaxial:uniform-C", "curve:body-away-from-origin", "curve:record", "patch:disturbed-start", "curve:biaxial:no-symmetry", "curve:pressure-controlled", "curve:tracked-other-face"],
    "rule": ("displacement patch tests (random affine map on the whole boundary) on 12 element families with interior distortion, 3D and plane "
             "strain; uniaxial and biaxial load cases with CharacteristicCurve jobs (1, 3, 7 substeps, cyclic ramps, with/without symmetry "
             "planes, SolidBody and condensed nearly-incompressible body) on 10 families x 5 materials with oracle-side closed forms; material-"
             "level uniaxial/planar/biaxial curves incl. the incompressible view; a configuration is distinct by (load case, family, material, "
             "formulation, substeps)"),
    "assumptions": ["reference stresses: textbook energies in principal stretches (vmon/oracles/hyper.py), lateral stretches by brentq",
                    "Newton tolerance 1e-10/1e-11; comparison tolerances 1e-7 (forces) and 1e-8 (displacements)"],
    "jobs": {"quick": 12, "thorough": 16},
    "timeout": {"quick": 1200, "thorough": 5400},
}
