"""C16 - mesh generators and transformations preserve geometry and orientation.

Post-hooks (vmon.monitors.mesh) on every generator class and every
transformation tool judge each call against oracle-side cell geometry.  The
workload are the generators with seeded arguments and random *programs*
(sequences of transformations applicable to the current cell type).

Bodies and tool arguments come in four length units; by step index a program
hands the body over as generated / renumbered / Fortran-ordered with 32-bit
cells and calls the tool as a method or as the module-level function
``felupe.mesh.<tool>`` in one of the five documented call styles (judged by
the same post-conditions, ``vmon.monitors.mesh.call_function``).  The special
cases drive every documented argument at least once by construction, by keyword
and by position: the hooks name positional values by the documented order and
fill in the documented defaults (tables ``DOC_ORDER``, ``DOC_DEFAULTS``,
``DOC_GEN`` of the monitor), never by the parameter lists under test.
"""
import numpy as np

from .. import attach
from ..monitors import mesh as MM
from ..oracles import cells as OC
from ..util import rng_for


# length units of the bodies (the length unit is arbitrary: millimetres in metres, micrometres, kilometres): generator arguments and
# the arguments of the tools are drawn in units of the body, so that an absolute threshold hidden in a tool shows
UNITS = (1.0, 1e-3, 1e3, 1e-6)


def gen_mesh(rng, kind, u=1.0):
    import felupe as fem
    if kind == "line":
        a = u * float(rng.uniform(-1, 1))
        return fem.mesh.Line(a=a, b=a + u * float(rng.uniform(0.5, 2)), n=int(rng.integers(2, 6)))
    if kind == "rectangle":
        a = u * rng.uniform(0.1, 1, 2)
        return fem.Rectangle(a=tuple(a), b=tuple(a + u * rng.uniform(0.5, 2, 2)), n=tuple(int(x) for x in rng.integers(2, 5, 2)))
    if kind == "cube":
        a = u * rng.uniform(0.1, 1, 3)
        return fem.Cube(a=tuple(a), b=tuple(a + u * rng.uniform(0.5, 2, 3)), n=tuple(int(x) for x in rng.integers(2, 4, 3)))
    if kind == "grid2":
        xs = [u * np.cumsum(rng.uniform(0.2, 1, int(rng.integers(2, 5)))) for _ in range(2)]
        return fem.Grid(*xs)
    if kind == "grid3":
        xs = [u * np.cumsum(rng.uniform(0.2, 1, int(rng.integers(2, 4)))) for _ in range(3)]
        return fem.Grid(*xs)
    if kind == "circle":
        return fem.Circle(radius=u * float(rng.uniform(0.5, 3)), centerpoint=list(u * rng.uniform(3, 4, 2)), n=int(rng.integers(2, 6)))
    if kind == "triangle":
        pa = rng.uniform(0.5, 1, 2)
        pb = pa + np.array([rng.uniform(1, 2), rng.uniform(-0.3, 0.3)])
        pc = pa + np.array([rng.uniform(-0.3, 0.8), rng.uniform(1, 2)])
        if u == 1.0:
            return fem.mesh.Triangle(a=tuple(pa), b=tuple(pb), c=tuple(pc), n=int(rng.integers(2, 6)))
        # ``decimals`` is an absolute length by documentation (the joined sections are rounded to it): given in units of the body
        return fem.mesh.Triangle(a=tuple(u * pa), b=tuple(u * pb), c=tuple(u * pc), n=int(rng.integers(2, 6)), decimals=12 - int(round(np.log10(u))))
    raise KeyError(kind)


KINDS = ("line", "rectangle", "cube", "grid2", "grid3", "circle", "triangle")


def case_generators(rep):
    def fn(run):
        import felupe as fem
        rng = rng_for(run.seed, "C16", "generators", rep)
        MM.attach_hooks(run)
        try:
            for kind in KINDS:
                gen_mesh(rng, kind)
            # the same generators in other length units (every generator meets every unit over four repetitions)
            for k, kind in enumerate(KINDS):
                for j in (1, 2, 3) if run.tier == "thorough" else (1 + (rep + k) % 3,):
                    u = UNITS[j]
                    gen_mesh(rng, kind, u)
                    run.units["generator-unit:%g" % u] += 1
            # the documented defaults of the generators (the hooks read the defaults from the signatures; here they are stated): unit
            # line / square / cube from the origin with one cell, unit circle about the origin with n = 2, the triangle (0,0) (1,0) (0,1)
            if rep == 0:
                for gname, g, lo, hi, npts in (("Line", fem.mesh.Line(), [0.0], [1.0], 2), ("Rectangle", fem.Rectangle(), [0.0, 0.0], [1.0, 1.0], 4),
                                               ("Cube", fem.Cube(), [0.0] * 3, [1.0] * 3, 8), ("Circle", fem.Circle(), [-1.0, -1.0], [1.0, 1.0], 17),
                                               ("Triangle", fem.mesh.Triangle(), [0.0, 0.0], [1.0, 1.0], 7),
                                               ("RectangleArbitraryOrderQuad", fem.mesh.RectangleArbitraryOrderQuad(), [0.0, 0.0], [1.0, 1.0], 9),
                                               ("CubeArbitraryOrderHexahedron", fem.mesh.CubeArbitraryOrderHexahedron(), [0.0] * 3, [1.0] * 3, 27)):
                    run.compare("mesh.gen." + gname, "generator=%s clause=documented-defaults" % gname,
                                max(float(np.abs(g.points.min(0) - lo).max()), float(np.abs(g.points.max(0) - hi).max())) + float(g.npoints != npts), 1e-12,
                                "%s(): bounding box or number of points differ from the documented default arguments" % gname,
                                unit="generator:documented-defaults", config=("generator-defaults", gname))
            # every argument of the grid generator: both meshgrid indexings, one to three axes
            for nax in (1, 2, 3):
                xs = [np.cumsum(rng.uniform(0.2, 1, int(rng.integers(3, 5)) + k)) for k in range(nax)]
                for indexing in ("ij", "xy"):
                    fem.Grid(*xs, indexing=indexing)
                    run.units["generator:Grid:%s:%d" % (indexing, nax)] += 1
            fem.Circle(radius=1.0, n=3, sections=[0, 90])
            fem.Circle(radius=2.0, n=4, sections=[0, 90, 180, 270], value=0.2, exponent=3)
            # general section angles (one to four non-overlapping quarter sections, anywhere on the circle)
            for sec in ([30, 120], [45], [0, 90, 180], [10, 100, 190, 280], [float(rng.uniform(0, 360))]):
                fem.Circle(radius=float(rng.uniform(0.5, 3)), centerpoint=list(rng.uniform(-1, 1, 2)), n=int(rng.integers(2, 6)), sections=sec)
            # scalar point counts
            fem.Rectangle(a=(0.3, -0.2), b=(1.1, 0.9), n=int(rng.integers(2, 5)))
            fem.Cube(a=(0.3, -0.2, 1.0), b=(1.1, 0.9, 1.7), n=int(rng.integers(2, 4)))
            # point counts that differ on every axis, drawn in any order (an axis mix-up shows on the grid nodes)
            n3 = [int(x) for x in rng.permutation([2, 3, 5])]
            fem.Rectangle(a=(0.3, -0.2), b=(1.1, 0.9), n=tuple(n3[:2]))
            fem.Cube(a=(0.3, -0.2, 1.0), b=(1.1, 0.9, 1.7), n=tuple(n3))
            # the documented argument types: lists, arrays (also of integers), tuples
            fem.mesh.Line(a=-1, b=2, n=np.int64(4))
            fem.Rectangle(a=[0, 1], b=np.array([2, 3]), n=[4, 3])
            fem.Cube(a=np.array([0, -1, 2]), b=[2, 1, 3.5], n=np.array([3, 2, 4]))
            fem.Grid([0, 1, 3], (0, 2, 5, 6))
            fem.Grid(np.array([0, 1, 3]), [0.5, 2], np.linspace(0, 1, 3))
            fem.Circle(radius=2, centerpoint=(1, -1), sections=(0, 90), n=3)
            fem.Circle(radius=np.float64(1.5), centerpoint=np.array([1.0, -1.0]), sections=np.array([45.0, 225.0]), n=np.int64(3))
            fem.mesh.Triangle(a=[0, 0], b=[3, 0], c=[1, 2], n=3)
            fem.mesh.Triangle(a=np.array([0.5, 0.1]), b=(3, 0), c=[1, 2.5], n=np.int64(4))
            # the rounding of the joined sections, a documented argument
            fem.Circle(radius=float(rng.uniform(0.5, 3)), n=int(rng.integers(2, 5)), decimals=int(rng.integers(6, 9)))
            fem.mesh.Triangle(a=(0.3, 0.2), b=(1.2, 0.1), c=(0.1, 0.9), n=int(rng.integers(2, 6)), decimals=int(rng.integers(6, 9)))
            for order in (2, 3, 4, 5):
                a = rng.uniform(-1, 0, 2)
                fem.mesh.RectangleArbitraryOrderQuad(a=tuple(a), b=tuple(a + rng.uniform(1, 2, 2)), order=order)
                if order < 5 or run.tier == "thorough":
                    a = rng.uniform(-1, 0, 3)
                    fem.mesh.CubeArbitraryOrderHexahedron(a=tuple(a), b=tuple(a + rng.uniform(1, 2, 3)), order=order)
            # the remaining orders: the linear cell and high orders
            for order in (1, 6, 7):
                a = rng.uniform(-1, 0, 2)
                fem.mesh.RectangleArbitraryOrderQuad(a=tuple(a), b=tuple(a + rng.uniform(1, 2, 2)), order=order)
                if order < 6 or run.tier == "thorough":
                    a = rng.uniform(-1, 0, 3)
                    fem.mesh.CubeArbitraryOrderHexahedron(a=tuple(a), b=tuple(a + rng.uniform(1, 2, 3)), order=order)
                run.units["generator:lagrange-order:%d" % order] += 1
        finally:
            attach.detach_all()
    return fn


# --------------------------------------------------------------------------- programs
def applicable(m):
    ct, dim = m.cell_type, m.points.shape[1]
    ops = []
    if ct in ("line", "triangle", "quad", "tetra", "hexahedron") and OC.DIM.get(ct) == dim:
        ops += ["rotate", "translate", "mirror", "flipflip", "concat", "merge", "disconnect"]
        if dim == 1:
            ops.remove("rotate")
    if ct in ("quad", "hexahedron"):
        ops += ["triangulate"]
    if ct in ("line", "quad") and OC.DIM.get(ct) == dim:
        ops += ["expand", "revolve"]
    if ct in ("triangle", "quad", "tetra", "hexahedron"):
        ops += ["edges", "convert"]
    if ct in ("triangle6", "tetra10", "quad8", "hexahedron20") or ct in ("triangle",):
        ops += ["faces"]
    if ct in ("tetra", "hexahedron") or m.cells.shape[1] in (26,):
        ops += ["volumes"]
    if ct in ("triangle6", "tetra10", "quad8", "quad9", "hexahedron20", "hexahedron27"):
        ops += ["rotate", "translate", "disconnect"]
    # the remaining source types of the mid-point tools (results without a name end the program) and the partial rotation
    if ct in ("tetra10", "hexahedron20", "tetra14"):
        ops += ["volumes"]
    if ct in ("quad", "hexahedron"):
        ops += ["faces"]
    if "rotate" in ops:
        ops += ["rotate-mask"]
    return ops


def vary(run, m, variant):
    """The same body handed over in another way: points and cells in another order (numbers carry no meaning), or as
    Fortran-ordered points with Fortran-ordered 32-bit cells."""
    import felupe as fem
    from .. import gen
    if variant == 2:
        run.units["variant:renumbered"] += 1
        return gen.renumber(m, every=1)
    if variant == 3:
        run.units["variant:fortran-int32"] += 1
        return fem.Mesh(np.asfortranarray(m.points), np.asfortranarray(m.cells.astype(np.int32)), m.cell_type)
    return m


def caller(run, style=None):
    """How a tool is called: the method of the mesh, or the module-level function ``felupe.mesh.<tool>`` with the mesh / with the
    arrays in one of the documented styles (judged by the same post-condition, vmon.monitors.mesh.call_function)."""
    def call(mesh, tool, *args, **kw):
        if style is None or not hasattr(mesh, tool):
            return getattr(mesh, tool)(*args, **kw)
        if tool.startswith("add_midpoints") and "cell_type" in kw:
            kw["cell_type_new"] = kw.pop("cell_type")
        run.units["variant:function"] += 1
        return MM.call_function(run, tool, mesh, style, *args, **kw)
    return call


def apply_op(rng, m, op, u=1.0, call=None):
    import felupe as fem
    if call is None:
        call = caller(None)
    dim = m.points.shape[1]
    if op == "rotate":
        return call(m, "rotate", float(rng.uniform(-180, 180)), axis=int(rng.integers(0, 3)) if dim == 3 else 2,
                    center=list(u * rng.uniform(-1, 1, dim)))
    if op == "rotate-mask":
        # a part of the points only (boolean mask as array or list; now and then nobody or everybody)
        mask = rng.uniform(size=m.npoints) < [0.5, 0.5, 0.0, 1.0][int(rng.integers(0, 4))]
        return call(m, "rotate", angle_deg=float(rng.uniform(-30, 30)), axis=int(rng.integers(0, 3)) if dim == 3 else 2,
                    center=list(u * rng.uniform(-1, 1, dim)), mask=mask if rng.integers(0, 2) else mask.tolist())
    if op == "translate":
        return call(m, "translate", u * float(rng.uniform(-2, 2)), axis=int(rng.integers(0, dim)))
    if op == "mirror":
        if rng.integers(0, 2):
            return call(m, "mirror", axis=int(rng.integers(0, dim)), centerpoint=list(u * rng.uniform(-1, 1, 3)))
        return call(m, "mirror", normal=list(rng.standard_normal(3)), centerpoint=list(u * rng.uniform(-1, 1, 3)))
    if op == "flipflip":
        mask = rng.uniform(size=m.ncells) < [0.5, 0.5, 0.5, 0.0][int(rng.integers(0, 4))]
        if rng.integers(0, 3) == 0:
            mask = mask.tolist()  # documented: list or array
        f = call(m, "flip", mask)
        return call(f, "flip", mask=mask)
    if op == "triangulate":
        return call(m, "triangulate", mode=int(rng.choice([0, 3]))) if m.cell_type == "hexahedron" else call(m, "triangulate")
    if op == "expand":
        k = int(rng.integers(0, 8))
        if k < 3:
            return call(m, "expand", n=int(rng.integers(2, 5)), z=u * float(rng.uniform(0.3, 2)))
        if k < 6:
            z = u * np.cumsum(rng.uniform(0.2, 1, int(rng.integers(2, 5))))
            return call(m, "expand", z=[z, tuple(z), z.tolist()][k - 3])
        if k == 6:
            # the new axis given by its number; a conflicting n next to the array of positions (the array decides)
            return call(m, "expand", n=int(rng.integers(2, 5)), z=u * float(rng.uniform(0.3, 2)), axis=dim)
        return call(m, "expand", n=2, z=u * np.cumsum(rng.uniform(0.2, 1, int(rng.integers(3, 5)))), axis=-1, expand_dim=True)
    if op == "revolve":
        # the body must lie on the positive side of the rotation axis
        axis = int(rng.integers(0, 2)) if m.cell_type == "quad" else 2
        r_index = 1 - axis if m.cell_type == "quad" else 0
        shift = max(0.0, 0.2 * u - m.points[:, r_index].min())
        mm = m.translate(shift, axis=r_index) if shift > 0 else m
        closing = rng.integers(0, 3) == 0
        phi = 360 if closing else float(rng.uniform(20, 300))
        nseg = int(rng.integers(4, 9)) if not closing else int(rng.integers(5, 10))
        if rng.integers(0, 3) == 0:
            # explicit (non-uniform) angles, open or ending exactly at 360 degrees
            # the number of angles is independent of the keyword n (fewer or more than its default 11, or a
            # conflicting n handed over as well: the array decides)
            many = rng.integers(0, 2) == 1
            inner = np.sort(rng.uniform(10, (350 if closing else phi - 5), (int(rng.integers(12, 20)) if many else nseg - 1)))
            inner = inner[np.concatenate([[True], np.diff(inner) > (3 if many else 8)])]
            angles = np.concatenate([[0.0], inner, [360.0 if closing else phi]])
            start = int(rng.integers(0, 4))
            if start == 1:
                # the first layer need not sit at zero: a closed ring is one whose last angle is the first one plus 360
                angles = angles + float(rng.uniform(5, 90))
            elif start == 2 and not closing:
                # an open sweep that starts later and ends exactly at 360 degrees
                angles = angles[angles > 1e-9]
                angles = angles + (360.0 - angles[-1])
            if start == 3 and rng.integers(0, 2):
                angles = tuple(angles.tolist())  # documented: float or array - lists and tuples of angles as well
            if rng.integers(0, 3) == 0 and len(angles) > 2:
                return call(mm, "revolve", n=int(rng.integers(2, len(angles))), phi=angles, axis=axis)
            return call(mm, "revolve", phi=angles, axis=axis)
        return call(mm, "revolve", n=nseg + 1, phi=phi, axis=axis)
    if op == "edges":
        return call(m, "add_midpoints_edges")
    if op == "faces":
        return call(m, "add_midpoints_faces")
    if op == "volumes":
        return call(m, "add_midpoints_volumes")
    if op == "convert":
        k = int(rng.integers(0, 6))
        if k == 4:
            # one point per cell: the mean of the cell's points (or zeros)
            return call(m, "convert", order=0, calc_points=bool(rng.integers(0, 4)))
        if k == 5 and dim == 3:
            return call(m, "convert", order=2, calc_midfaces=False, calc_midvolumes=True)
        full = bool(k % 2)
        return call(m, "convert", order=2, calc_midfaces=full, calc_midvolumes=full and dim == 3)
    if op == "concat":
        ext = m.points[:, 0].max() - m.points[:, 0].min()
        m2 = m.translate(ext, axis=0)  # shares a face with m when m is an axis-aligned box, disjoint otherwise
        if rng.integers(0, 2):
            # parts with different numbers of points and cells (a part of the mesh: the cells of the first half, with the
            # points they use), in both orders and as a third member
            half = m.cells[: max(1, m.ncells // 2)]
            keep = np.unique(half)
            remap = -np.ones(m.npoints, int)
            remap[keep] = np.arange(len(keep))
            part = fem.Mesh(m.points[keep] + np.eye(dim)[0] * 2.5 * ext, remap[half], m.cell_type)
            order = [[m, part, m2], [part, m, m2], [m, m2, part]][int(rng.integers(0, 3))]
            return fem.mesh.concatenate(order)
        return fem.mesh.concatenate([m, m2])
    if op == "merge":
        dec = [None, 8, 5][int(rng.integers(0, 3))]
        # (the rounding tolerance is an absolute length: 8 / 5 digits in units of the body)
        return call(m, "merge_duplicate_points", decimals=dec if dec is None else dec - int(round(np.log10(u))))
    if op == "disconnect":
        if m.cell_type in OC.NV and rng.integers(0, 3) == 0:
            return m.disconnect(points_per_cell=OC.NV[m.cell_type])  # the vertex cells only (result without a name)
        return m.disconnect()
    raise KeyError(op)


def case_program(rep):
    def fn(run):
        import felupe as fem
        rng = rng_for(run.seed, "C16", "program", rep)
        MM.attach_hooks(run)
        try:
            kind = KINDS_PROGRAM[rep % 7]
            # every kind of body in every length unit (28 programs), bodies of unit size first
            u = UNITS[(rep // 7) % 4]
            m = gen_mesh(rng, kind, u)
            run.units["program-unit:%g" % u] += 1
            length = int(rng.integers(3, 7))
            prog = [kind]
            for step in range(length):
                ops = applicable(m)
                if not ops:
                    break
                op = str(rng.choice(ops))
                # by index, not by draw: how the body is handed over (as it is / renumbered / Fortran-ordered 32-bit) and how the
                # tool is called (method / module-level function in one of the five call styles)
                variant = (rep + step) % 4
                call = caller(run, MM.STYLES[(rep // 4 + step) % 5] if variant == 1 else None)
                try:
                    m2 = apply_op(rng, vary(run, m, variant), op, u, call)
                except (KeyError, NotImplementedError, TypeError) as exc:
                    # a tool that refuses a cell type raises loudly: outside the property
                    run.note("tool %s refused %s: %s" % (op, m.cell_type, type(exc).__name__))
                    continue
                prog.append(op)
                if op == "rotate-mask":
                    continue  # judged by its hook; the partly rotated body is distorted (no input for the clauses on straight-sided cells)
                if m2.cell_type is None or m2.cells.shape[1] != m.cells.shape[1] and m2.cell_type == m.cell_type:
                    break  # a result without a name (or one point per cell): nothing is applicable to it
                m = m2
            run.units["program-length>=3"] += 1 if len(prog) >= 4 else 0
            run.configs.add("program:" + ">".join(prog))
            if len(run.samples) < 4:
                run.samples.append({"program": prog, "final_cell_type": m.cell_type, "final_cells": int(m.ncells)})
        finally:
            attach.detach_all()
    return fn


KINDS_PROGRAM = ["line", "rectangle", "cube", "grid2", "circle", "triangle", "grid3"]


def case_special(name):
    def fn(run):
        import felupe as fem
        rng = rng_for(run.seed, "C16", "special", name)
        MM.attach_hooks(run)
        try:
            r = fem.Rectangle(a=(0.5, 1.0), b=(2.0, 2.0), n=(4, 3))
            c = fem.Cube(a=(0, 0, 0), b=(2, 1, 1), n=(3, 3, 2))
            if name == "conversions":
                for base in (r, c, r.triangulate(), c.triangulate(), c.triangulate(mode=0)):
                    q = base.add_midpoints_edges()
                    if base.cell_type in ("quad",):
                        q.add_midpoints_faces()
                    if base.cell_type == "hexahedron":
                        q.add_midpoints_faces().add_midpoints_volumes()
                        base.convert(2, calc_midfaces=True, calc_midvolumes=True)
                    if base.cell_type == "triangle":
                        base.add_midpoints_faces()
                    if base.cell_type == "tetra":
                        base.add_midpoints_volumes()
                        q.add_midpoints_faces()
                # the remaining source types, flags and the ``cell_type`` argument (results without a VTK name carry None)
                rt, ct4 = r.triangulate(), c.triangulate()
                r.add_midpoints_faces()                                     # quad + its centre: no name
                r.add_midpoints_faces(cell_type="quad")                     # documented usage: keeps the old label
                c.add_midpoints_faces()
                c.add_midpoints_edges().add_midpoints_volumes()             # hexahedron20 + centre: no name
                ct4.add_midpoints_edges().add_midpoints_volumes()           # tetra10 + centre
                ct4.add_midpoints_edges().add_midpoints_faces().add_midpoints_volumes()   # tetra14 -> tetra15
                rt.add_midpoints_edges().add_midpoints_faces()              # triangle6 -> triangle7
                c.add_midpoints_volumes(cell_type="hexahedron9")            # documented usage: a label of the caller's choice
                r.add_midpoints_edges(cell_type="quad8")
                for base in (c, ct4):
                    base.convert(order=2, calc_midfaces=False, calc_midvolumes=True)
                    base.convert(2, False, True, False)                     # order, calc_points, calc_midfaces, calc_midvolumes by position
                for base in (rt, ct4):
                    base.convert(order=2, calc_midfaces=True, calc_midvolumes=base.dim == 3)
                for base in (r, c, rt, ct4):
                    base.convert(order=0, calc_points=True)
                    base.convert(order=0)
                    base.convert()
                    # the mid-points by themselves (the mechanism behind the three tools)
                    base.collect_edges()
                    q = base.add_midpoints_edges()
                    if base.cell_type != "tetra":
                        base.collect_faces()
                    q.collect_faces()
                    if base.dim == 3:
                        base.collect_volumes()
                        q.collect_volumes()
                        q.add_midpoints_faces().collect_volumes()
                    # vertex cells of disconnected higher-order meshes
                    q.disconnect(points_per_cell=q.cells.shape[1] - (q.cells.shape[1] - OC.NV[q.cell_type]))
                    base.disconnect(points_per_cell=OC.NV[base.cell_type])
                # the same on bodies whose numbering carries no structure (the tools work on index tables)
                from .. import gen
                for base in (r, c, rt, ct4):
                    g = gen.renumber(base, every=1)
                    g.add_midpoints_edges()
                    g.convert(order=2, calc_midfaces=True, calc_midvolumes=g.dim == 3)
                    run.units["conversions:renumbered"] += 1
            elif name == "triangulate":
                # extruded, in-plane distorted quads: planar faces but no parallelepipeds - a tetrahedral split that does not
                # tile the cell changes the per-cell volume here (on parallelepipeds every tet is 1/6 of the cell)
                from .. import gen
                for k in range(3):
                    q, _ = gen.build_mesh("quad", "distorted", rng, amp=0.2)
                    h = q.expand(n=int(rng.integers(2, 4)), z=float(rng.uniform(0.5, 1.5)))
                    for mode in (0, 3):
                        h.triangulate(mode=mode)
                    q.triangulate()
                ci = fem.Circle(radius=1.3, n=3).expand(n=3, z=0.7)
                for mode in (0, 3):
                    ci.triangulate(mode=mode)
            elif name == "revolve":
                for axis in (0, 1):
                    for phi, n in ((90, 7), (180, 11), (360, 13), (45.0, 3)):
                        r.revolve(n=n, phi=phi, axis=axis)
                fem.mesh.Line(a=1, b=3, n=4).revolve(n=6, phi=120, axis=2)
                r.revolve(n=7, phi=-180, axis=1)  # documented usage for the second axis
                r.revolve(phi=-np.array([0.0, 20.0, 75.0, 130.0]), axis=1)
                # angle arrays that do not start at zero: a closed ring (last = first + 360), an open sweep ending exactly at 360
                rq = fem.Rectangle(a=(0.5, 1.0), b=(2.0, 2.0), n=(4, 3))
                s0 = float(rng.uniform(10, 80))
                rq.revolve(phi=s0 + np.array([0.0, 70.0, 150.0, 200.0, 290.0, 360.0]), axis=0)
                rq.revolve(phi=np.array([90.0, 180.0, 270.0, 360.0]), axis=0)
                rq.revolve(phi=np.array([360.0 - s0, 360.0]), axis=0)
                fem.mesh.Line(a=1, b=3, n=4).revolve(phi=np.array([30.0, 120.0, 240.0, 300.0, 390.0]), axis=2)
                fem.mesh.Line(a=1, b=3, n=4).expand(n=3, z=2.0)
                fem.mesh.Point(a=0.5).expand(n=3, z=2.0)
                # bodies whose point list goes on behind the last point any cell uses (a block of a container, a sub-mesh, added points):
                # point numbers of the layers are positions in the stacked point list (round 11: offsets taken from cells.max() + 1)
                for base in (fem.mesh.Line(a=1, b=3, n=4), r):
                    extra = base.points.max(0) + 1.0 + np.arange(2 * base.dim).reshape(2, base.dim)
                    padded = fem.Mesh(np.vstack([base.points, extra]), base.cells, base.cell_type)
                    padded.expand(n=3, z=2.0)
                    sub = fem.Mesh(base.points, base.cells[: max(1, len(base.cells) // 2)], base.cell_type)
                    sub.expand(n=int(rng.integers(2, 4)), z=float(rng.uniform(0.5, 1.5)))
                    run.units["expand:trailing-points-without-cells"] += 1
                # angles as tuple / list / integer array
                r.revolve(phi=(0.0, 40.0, 75.0), axis=0)
                r.revolve(phi=[0, 120, 240, 360], axis=0)
                r.revolve(phi=np.array([0, 90, 180, 270, 360]), axis=0)
                # a body that already lives in the space it is revolved in (``expand_dim=False``)
                fem.mesh.Line(a=1, b=3, n=4).expand(n=1).revolve(n=6, phi=120, axis=2, expand_dim=False)
                r.expand(n=1).revolve(n=5, phi=90, axis=0, expand_dim=False)
                r.expand(n=1).revolve(n=7, phi=360, axis=0, expand_dim=False)
                # points become (closed) polylines
                fem.mesh.Point(a=1.5).revolve(n=7, phi=160)
                fem.mesh.Point(a=2.0).revolve(n=9, phi=360)
                fem.mesh.Point(a=float(rng.uniform(0.5, 2))).revolve(phi=np.array([10.0, 40.0, 100.0, 250.0]))
                fem.mesh.Point(a=1.0).revolve()
            elif name == "functions":
                # the module-level spelling ``felupe.mesh.<tool>(...)`` (most documented examples) with a mesh and with the four documented
                # ways to hand over ``points, cells, cell_type`` as arrays; every tool in every style, judged by the tool's post-condition
                rt, ct4, q8 = r.triangulate(), c.triangulate(), r.add_midpoints_edges()
                dbl = fem.mesh.concatenate([r, r.translate(1.5, 0)])
                mask = [True, False, True, False, False, True]
                calls = [("expand", r, (), dict(n=3, z=0.7)), ("expand", fem.mesh.Line(a=1, b=3, n=4), (), dict(z=[0.0, 0.4, 1.0])),
                         ("rotate", r, (), dict(angle_deg=30, axis=2, center=[1, 1])), ("rotate", c, (-75.0, 1), {}),
                         ("rotate", r, (40.0, 2), dict(mask=np.arange(r.npoints) % 3 == 0)),
                         ("revolve", r, (), dict(n=5, phi=90)), ("revolve", r, (), dict(phi=[0, 30, 80])), ("revolve", fem.mesh.Point(a=1.5), (7, 200.0), {}),
                         ("mirror", c, (), {}), ("expand", r, (), {}), ("revolve", r, (), {}), ("mirror", r, (), dict(axis=0)), ("mirror", c, (), dict(normal=[1, 0.3, -0.2], centerpoint=[0.1, 0.2, 0.3])), ("mirror", rt, ([0, 1, 0],), {}),
                         ("flip", r, (), dict(mask=mask)), ("flip", ct4, (), {}),
                         ("translate", r, (0.5,), dict(axis=1)), ("translate", c, (-0.3, 2), {}),
                         ("triangulate", c, (), dict(mode=0)), ("triangulate", c, (3,), {}), ("triangulate", r, (), {}),
                         ("convert", c, (), dict(order=2, calc_midfaces=True, calc_midvolumes=True)), ("convert", rt, (2,), {}), ("convert", ct4, (), dict(order=0, calc_points=True)),
                         ("add_midpoints_edges", r, (), {}), ("add_midpoints_edges", ct4, (), dict(cell_type_new="tetra10")),
                         ("add_midpoints_faces", q8, (), {}), ("add_midpoints_faces", r, (), dict(cell_type_new="quad")),
                         ("add_midpoints_volumes", c, (), {}), ("add_midpoints_volumes", c.add_midpoints_edges().add_midpoints_faces(), (), {}),
                         ("collect_edges", c, (), {}), ("collect_faces", q8, (), {}), ("collect_volumes", ct4, (), {}),
                         ("merge_duplicate_points", dbl, (), dict(decimals=6)), ("merge_duplicate_points", dbl, (), {}),
                         ("merge_duplicate_cells", fem.mesh.concatenate([r, r]).merge_duplicate_points(), (), {}),
                         # fourth audit: the tools' own arguments by position, in the documented order (the hook names them by its own table,
                         # vmon.monitors.mesh.DOC_ORDER, not by the parameter list under test); neighbours differ so that a mix-up shows
                         ("mirror", c, ([1, 0.3, -0.2], [0.1, 0.2, 0.3]), {}), ("mirror", r, ([1, 0, 0], [0.7, 0.4, 0], 1), {}),
                         ("convert", c, (2, False, True, False), {}), ("convert", ct4, (2, False, False, True), {}),
                         ("expand", r, (4, 2), {}), ("expand", r.expand(n=1), (3, 0.5, 2, False), {}),
                         ("revolve", r, (5, 90.0, 0), {}), ("revolve", r.expand(n=1), (5, 90, 0, False), {}),
                         ("rotate", r, (40.0, 2, [1.0, 1.0]), {}), ("rotate", c, (-30.0, 0, [0.5, 0.2, 0.1], np.arange(c.npoints) % 2 == 0), {}),
                         ("flip", r, (mask,), {}), ("merge_duplicate_points", dbl, (6,), {}), ("add_midpoints_edges", r, ("quad8",), {})]
                npos = sum(1 for _, _, args, _ in calls if len(args) > 1)
                for k, (tool, m, args, kw) in enumerate(calls):
                    for j, style in enumerate(MM.STYLES):
                        if run.tier == "thorough" or j in (0, 1 + k % 4, 1 + (k + 1) % 4):
                            MM.call_function(run, tool, m, style, *args, **kw)
                run.units["function:positional-arguments"] += npos
            elif name == "positional":
                # fourth audit: every tool with more than one argument of its own, called as a method with the values by position in the
                # documented order (judged by the hooks, which name positional values by vmon.monitors.mesh.DOC_ORDER); neighbouring
                # values differ in kind or size so that two exchanged parameters give another mesh (or a refusal)
                r3, ct4 = r.expand(n=1), c.triangulate()
                calls = [(r, "mirror", ([0, 1, 0], [0.0, 0.3, 0.0])), (c, "mirror", ([1, 0.3, -0.2], [0.1, 0.2, 0.3])), (r, "mirror", ([1, 0, 0], [0.7, 0.4, 0], 1)),
                         (c, "mirror", ([0, 0, 1], [0.2, 0.1, 0.6], 0)),
                         (c, "convert", (2, False, True, False)), (c, "convert", (2, False, False, True)), (ct4, "convert", (2, False, True, False)),
                         (r, "convert", (0, True)), (r, "expand", (4, 2)), (fem.mesh.Line(a=0.3, b=1.7, n=4), "expand", (3, 0.5)), (r3, "expand", (3, 0.5, 2, False)),
                         (r, "expand", (2, [0.0, 0.4, 1.0], 2, True)), (r, "revolve", (5, 90.0, 0)), (r, "revolve", (3, [0.0, 30.0, 80.0, 140.0], 0, True)),
                         (r3, "revolve", (5, 90, 0, False)), (fem.mesh.Line(a=1, b=3, n=4), "revolve", (6, 120, 2)),
                         (r, "rotate", (40.0, 2, [1.0, 1.0])), (c, "rotate", (-30.0, 0, [0.5, 0.2, 0.1])), (c, "rotate", (25.0, 1, [0.5, 0.2, 0.1], np.arange(c.npoints) % 2 == 0)),
                         (r, "translate", (0.5, 1)), (c, "translate", (-0.3, 2)), (c, "disconnect", (8, True)), (r, "disconnect", (None, True)),
                         (r, "add_runouts", ([0.2], [1.25, 1.5, 0], 0, 1, slice(None), True)), (c, "add_runouts", ([0.1, 0.3], [1.0, 0.5, 0.0], 2, 1, slice(None), False))]
                for m, tool, args in calls:
                    getattr(m, tool)(*args)
                    run.units["method:positional-arguments"] += 1
                fem.mesh.fill_between(fem.mesh.Line(a=0, b=1, n=4).expand(n=1), fem.mesh.Line(a=0, b=1, n=4).expand(n=1).translate(1.0, 1), 4)
                # the generators with their arguments by position: stated on this side (the hooks get the names of a generator's
                # values from the constructor's own parameter list) - bounding box, number of points and of cells, covered measure
                u = float(rng.uniform(0.5, 2))
                gens = [("Line", fem.mesh.Line(-1.0 * u, 2.0 * u, 4), [-u], [2 * u], 4, 3, 3 * u),
                        ("Rectangle", fem.Rectangle((0.3 * u, -0.2), (1.1 * u, 0.9), (3, 4)), [0.3 * u, -0.2], [1.1 * u, 0.9], 12, 6, 0.8 * u * 1.1),
                        ("Cube", fem.Cube((0.3, -0.2 * u, 1.0), (1.1, 0.9 * u, 1.7), (3, 2, 4)), [0.3, -0.2 * u, 1.0], [1.1, 0.9 * u, 1.7], 24, 6, 0.8 * 1.1 * u * 0.7),
                        # (a half disc of two quarter sections: 33 points, 24 cells, 8 equal chords on the arc)
                        ("Circle", fem.Circle(1.5 * u, [1.0, -1.0], 3, [0, 90], 0.2, 3, 10), [1.0 - 1.5 * u, -1.0], [1.0 + 1.5 * u, -1.0 + 1.5 * u], 33, 24,
                         8 * 0.5 * (1.5 * u) ** 2 * np.sin(np.pi / 8)),
                        ("Triangle", fem.mesh.Triangle((0, 0), (3 * u, 0), (1, 2), 3, 10), [0.0, 0.0], [3 * u, 2.0], 19, 12, 3.0 * u),
                        ("RectangleArbitraryOrderQuad", fem.mesh.RectangleArbitraryOrderQuad((-1, 0), (1, 2 * u), 3), [-1.0, 0.0], [1.0, 2 * u], 16, 1, None),
                        ("CubeArbitraryOrderHexahedron", fem.mesh.CubeArbitraryOrderHexahedron((-1, 0, 1), (1, 2 * u, 2), 2), [-1.0, 0.0, 1.0], [1.0, 2 * u, 2.0], 27, 1, None)]
                for gname, g, lo, hi, npts, ncells, measure in gens:
                    err = max(float(np.abs(g.points.min(0) - lo).max()), float(np.abs(g.points.max(0) - hi).max())) / float(np.ptp(g.points, axis=0).max())
                    if measure is not None:
                        v = OC.signed_volumes(g.points, g.cells, g.cell_type)
                        err = max(err, abs(float(v.sum()) - measure) / measure) + float(not np.all(v > 0))
                    run.compare("mesh.gen." + gname, "generator=%s clause=positional-arguments" % gname, err + float((g.npoints, g.ncells) != (npts, ncells)),
                                # (Circle and Triangle round their points to the ten digits handed over: 100 * 10^-decimals as in the hook)
                                1e-8 if gname in ("Circle", "Triangle") else 1e-9,
                                "%s(<values by position in the documented order>): bounding box, measure, orientation or the numbers of points / cells are not "
                                "those of the documented parameter order" % gname, unit="generator:positional-arguments", config=("generator-positional", gname))
            elif name == "expand":
                # every documented argument of expand: any axis, without a new coordinate (bodies that already live in the space they are
                # expanded in), negative thickness / decreasing positions (judged by measure, see the monitor), points, argument types
                from .. import gen
                ln = fem.mesh.Line(a=0.3, b=1.7, n=4)
                lx = ln.expand(n=1)                                                   # the line in the plane (y = 0), still a line
                lx.expand(n=3, z=0.8, axis=1, expand_dim=False)
                lx.expand(n=3, z=0.8, axis=-1, expand_dim=False)
                ly = fem.Mesh(lx.points[:, ::-1] + np.array([0.4, 0.0]), lx.cells, "line")    # a line along y, expanded along x
                ly.expand(n=4, z=0.5, axis=0, expand_dim=False)
                xs = np.cumsum(rng.uniform(0.2, 0.6, 5))
                poly = fem.Mesh(np.c_[xs, 0.3 * rng.uniform(-1, 1, 5)], ln.__class__(n=5).cells, "line")    # a polyline, monotone in x
                poly.expand(z=[0.1, 0.5, 0.6], axis=1, expand_dim=False)
                gen.renumber(poly, every=1).expand(n=3, z=float(rng.uniform(0.3, 1)), axis=1, expand_dim=False)
                rq3 = r.expand(n=1)                                                   # the quads in space (z = 0), still quads
                rq3.expand(n=3, z=0.5, axis=2, expand_dim=False)
                rq3.expand(z=(0.0, 0.25, 0.75), axis=-1, expand_dim=False)
                xz = fem.Mesh(np.c_[r.points[:, 0], np.zeros(r.npoints), r.points[:, 1]], r.cells, "quad")   # quads in the x-z plane, along y
                xz.expand(n=3, z=0.5, axis=1, expand_dim=False)
                tilt = fem.Mesh(np.c_[r.points, 0.2 * r.points[:, 0] + 0.1 * r.points[:, 1] ** 2], r.cells, "quad")   # a curved surface
                for ax in (0, 1, 2):
                    tilt.expand(n=int(rng.integers(2, 5)), z=float(rng.uniform(0.3, 1)), axis=ax, expand_dim=False)
                # the new axis by its number; layers in the negative sense (measure and layer positions are judged, not the sense)
                for m in (ln, r, gen.renumber(r, every=1)):
                    m.expand(n=3, z=1.0, axis=m.dim)
                    m.expand(n=3, z=-1.0)
                    m.expand(z=np.array([0.5, 0.2, -0.4]))
                    m.expand(z=[-0.3, 0.1, 0.9])
                r.expand()                                                            # documented defaults: eleven layers up to z = 1
                ln.expand()
                fem.mesh.Point(a=0.5).expand(n=4, z=2.0)
                fem.mesh.Point(a=-1.0).expand(z=[0.0, 0.5, 2.0])
                fem.mesh.Point(a=0.5).expand(n=3, z=-1.0)
            elif name == "runouts":
                # rubber run-outs: the documented examples and bodies away from the origin (centre point at mid-height / at one end)
                fem.Rectangle(a=(-3, -1), b=(3, 1), n=(9, 5)).add_runouts(axis=1, values=[0.2], normalize=True)
                fem.Cube(a=(-3, -2, -1), b=(3, 2, 1), n=(5, 4, 3)).add_runouts(axis=2, values=[0.1, 0.3], normalize=True)
                for m in (r, c, r.triangulate(), c.triangulate()):
                    lo, hi = m.points.min(0), m.points.max(0)
                    for k in range(3):
                        axis = int(rng.integers(0, m.dim))
                        centre = 0.5 * (lo + hi) + 0.2 * (hi - lo) * rng.uniform(-1, 1, m.dim)
                        centre[axis] = [0.5 * (lo + hi)[axis], lo[axis], hi[axis]][k]
                        m.add_runouts(values=list(rng.uniform(0.05, 0.4, m.dim - 1)), centerpoint=list(centre), axis=axis,
                                      exponent=int(rng.integers(1, 6)), normalize=bool(rng.integers(0, 2)))
                    m.add_runouts(values=[-0.2, -0.1][: m.dim - 1], centerpoint=list(0.5 * (lo + hi)), axis=0)
                fem.Cube(a=(-1, -1, -1), b=(1, 1, 1), n=3).add_runouts()              # documented defaults
            elif name == "mirror":
                for m in (r, c, r.triangulate(), c.triangulate(), fem.mesh.Line(n=3)):
                    for ax in range(m.dim):
                        m.mirror(axis=ax, centerpoint=[0.5, 0.5, 0.5])
                    m.mirror(normal=[1, 0.3, -0.2], centerpoint=[0.1, 0.2, 0.3])
                    m.mirror()                                   # documented defaults: the plane x = 0
                    m.mirror(centerpoint=[0.7, 0, 0])
                    if m.dim > 1:
                        m.mirror([0, 1, 0], [0.0, 0.3, 0.0])     # normal and centre point by position
            elif name == "merge":
                for m in (r, c, r.triangulate()):
                    ext = m.points[:, 0].max() - m.points[:, 0].min()
                    cc = fem.mesh.concatenate([m, m.translate(ext, 0), m.translate(2 * ext, 0)])
                    for dec in (None, 10, 6, 3):
                        s = cc.merge_duplicate_points(decimals=dec)
                        if dec is None or dec >= 6:
                            exp = len(np.unique(np.round(cc.points, 9), axis=0))
                            if len(s.points) == exp:
                                run.ok("mesh.merge_duplicate_points", unit="merge:count")
                            else:
                                run.fail("mesh.merge_duplicate_points", "tool=merge_duplicate_points clause=count",
                                         "merge: %d points remain, expected %d" % (len(s.points), exp))
                    jit = cc.copy(points=cc.points + 1e-7 * rng.uniform(-1, 1, cc.points.shape))
                    jit.merge_duplicate_points(decimals=4)
                    # the documented alias, on a moved copy: it merges the mesh it is called on
                    moved = cc.copy(points=cc.points + 3.0)
                    sw = moved.sweep(decimals=6)
                    exp = len(np.unique(np.round(cc.points, 9), axis=0))
                    run.compare("mesh.merge_duplicate_points", "tool=merge_duplicate_points clause=alias-sweep-on-a-copy",
                                float(len(sw.points) != exp) + float(np.abs(sw.points.min(0) - moved.points.min(0)).max()), 1e-6,
                                "mesh.copy(points).sweep() does not return the merged copy", unit="merge:alias")
                # duplicates that sit astride a rounding boundary (x = 0.125 +- 1e-16 with decimals=2): judged here with its own key
                qa = fem.Rectangle(a=(0, 0), b=(0.125, 1), n=(2, 3))
                qb = fem.Rectangle(a=(0.125, 0), b=(0.3, 1), n=(2, 3))
                qa = qa.copy(points=qa.points - np.array([2e-16, 0.0]) * (qa.points[:, :1] > 0.1))
                qb = qb.copy(points=qb.points + np.array([2e-16, 0.0]) * (qb.points[:, :1] < 0.126))
                cc2 = fem.mesh.concatenate([qa, qb])
                mm = fem.mesh.merge_duplicate_points(cc2, decimals=2)  # module-level function: not judged by the method hook
                from scipy.spatial import cKDTree
                dmin = float(cKDTree(mm.points).query(mm.points, k=2)[0][:, 1].min())
                run.compare("mesh.merge_duplicate_points", "tool=merge_duplicate_points clause=separation input=duplicates-astride-a-rounding-boundary",
                            0.0 if dmin >= 0.01 * (1 - 1e-9) else 1.0, 0.5,
                            "merge(decimals=2): two points %.1e apart (on either side of x = 0.125) are left unmerged" % dmin, unit="merge:rounding-boundary")
                # joining higher-order blocks: shared mid-edge / mid-face nodes must merge as well
                for ho in (fem.Rectangle(n=3).add_midpoints_edges(), fem.Rectangle(n=3).add_midpoints_edges().add_midpoints_faces(),
                           fem.Cube(n=3).add_midpoints_edges(), fem.Cube(n=3).add_midpoints_edges().add_midpoints_faces().add_midpoints_volumes(),
                           fem.Rectangle(n=3).triangulate().add_midpoints_edges(), fem.Cube(n=2).triangulate().add_midpoints_edges()):
                    cc = fem.mesh.concatenate([ho, ho.translate(1.0, 0)])
                    cc = cc.copy(points=cc.points + 1e-9 * rng.uniform(-1, 1, cc.points.shape))
                    sm = cc.merge_duplicate_points(decimals=6)
                    exp = len(np.unique(np.round(np.vstack([ho.points, ho.translate(1.0, 0).points]), 6), axis=0))
                    if len(sm.points) == exp:
                        run.ok("mesh.merge_duplicate_points", unit="merge:count:higher-order", config=("merge-ho", ho.cell_type))
                    else:
                        run.fail("mesh.merge_duplicate_points", "tool=merge_duplicate_points celltype=%s clause=count" % ho.cell_type,
                                 "merge of two %s blocks: %d points remain, expected %d" % (ho.cell_type, len(sm.points), exp))
                # coarse tolerances (decimals 0, 1 and -1): grids on multiples of the tolerance with round-off sized noise
                for dec, h in ((0, 1.0), (1, 0.1), (-1, 10.0), (0, 2.0)):
                    for g in (fem.Rectangle(b=(3 * h, 2 * h), n=(4, 3)), fem.Cube(b=(2 * h, h, h), n=(3, 2, 2))):
                        parts = [g, g.translate(g.points[:, 0].max(), 0)]
                        cc = fem.mesh.concatenate(parts)
                        cc = cc.copy(points=cc.points + 1e-9 * h * rng.uniform(-1, 1, cc.points.shape))
                        s = cc.merge_duplicate_points(decimals=dec)
                        exp = len(np.unique(np.round(cc.points / h), axis=0))
                        if len(s.points) == exp:
                            run.ok("mesh.merge_duplicate_points", unit="merge:count:coarse", config=("merge-coarse", dec, g.cell_type))
                        else:
                            run.fail("mesh.merge_duplicate_points", "tool=merge_duplicate_points decimals=%s clause=count" % dec,
                                     "merge: %d points remain, expected %d" % (len(s.points), exp))
                        fem.MeshContainer([cc.copy(), cc.translate(5 * h, 1)], merge=True, decimals=dec)
                # containers: stacking all / a selection of the meshes, after appending (every cell type; the selection need not
                # start with the first mesh)
                for m in (r, c, r.triangulate(), c.triangulate()):
                    ext = m.points[:, 0].max() - m.points[:, 0].min()
                    other = (r.triangulate() if m.cell_type == "quad" else r) if m.dim == 2 else (c.triangulate() if m.cell_type == "hexahedron" else c)
                    cont = fem.MeshContainer([m, m.translate(ext, 0), other.translate(-3 * ext, 0)], merge=True)
                    cont += m.translate(2 * ext, 0)
                    v0 = OC.signed_volumes(m.points, m.cells, m.cell_type)
                    for idx, k in ((None if False else [0, 1], 2), ([0, 1, 3], 3), ([1, 3], 2), ([3], 1)):
                        st = cont.stack(idx)
                        v = OC.signed_volumes(st.points, st.cells, st.cell_type)
                        run.compare("mesh.container", "tool=MeshContainer clause=stack-volume", abs(v.sum() - k * v0.sum()) / v0.sum(),
                                    1e-11, "MeshContainer(merge=True).stack(%s): volume differs from the sum of the selected parts" % idx,
                                    unit="container:volume", config=("container", m.cell_type, tuple(idx)))
                        if np.all(v > 0) and st.cell_type == m.cell_type:
                            run.ok("mesh.container", unit="container:orientation")
                        else:
                            run.fail("mesh.container", "tool=MeshContainer clause=orientation", "stacked container has non-positive cells or another cell type")
                    # the meshes a container holds are meshes like any other: their own bookkeeping follows the shared points array,
                    # and they can be concatenated with each other and with fresh meshes (the concatenate hook judges corners, volume
                    # and orientation; here the covered volume and the absence of foreign points are stated explicitly)
                    far = m.translate(7 * ext, 0)
                    for parts, k in (([cont[0], far], 2), ([cont[0], cont[3]], 2), ([far, cont[1], cont[3]], 3)):
                        for q in parts:
                            if q.npoints != len(q.points) or len(q.points_without_cells) != q.npoints - len(np.unique(q.cells)):
                                run.fail("mesh.container", "tool=MeshContainer clause=held-mesh-attributes", "a mesh held by a container reports npoints = %d and "
                                         "%d points without cells for %d points of which %d are used" % (q.npoints, len(q.points_without_cells), len(q.points), len(np.unique(q.cells))))
                                break
                        else:
                            run.ok("mesh.container", unit="container:held-mesh-attributes")
                        cj = fem.mesh.concatenate(parts)
                        vj = OC.signed_volumes(cj.points, cj.cells, cj.cell_type)
                        run.compare("mesh.container", "tool=concatenate clause=volume-of-container-meshes", abs(vj.sum() - k * v0.sum()) / v0.sum(), 1e-11,
                                    "concatenate of meshes taken out of a MeshContainer: covered volume differs from the sum of the parts",
                                    unit="container:concatenate-held-meshes", config=("container-concatenate", m.cell_type, k))
                    # the rest of the container's interface: stacking everything (default), after removing a mesh, after an explicit
                    # merge with a rounding tolerance, and on a copy that is extended (the original keeps its meshes)
                    parts = [m, m.translate(ext, 0), m.translate(2 * ext, 0)]
                    same = fem.MeshContainer(parts)
                    for label, st, k in (("default", same.stack(), 3), ("slice", fem.mesh.stack(same[1:]), 2)):
                        v = OC.signed_volumes(st.points, st.cells, st.cell_type)
                        run.compare("mesh.container", "tool=MeshContainer clause=stack-volume", abs(v.sum() - k * v0.sum()) / v0.sum(), 1e-11,
                                    "MeshContainer.stack() (%s): volume differs from the sum of the parts" % label, unit="container:stack-default",
                                    config=("container", m.cell_type, label))
                    same.merge_duplicate_points(decimals=6)
                    exp = len(np.unique(np.round(np.vstack([q.points for q in parts]), 6), axis=0))
                    st = same.stack()
                    v = OC.signed_volumes(st.points, st.cells, st.cell_type)
                    run.compare("mesh.container", "tool=MeshContainer clause=merge-then-stack", float(len(same.points) != exp or len(st.points) != exp) + abs(v.sum() - 3 * v0.sum()) / v0.sum()
                                + float(not np.all(v > 0)), 1e-11, "MeshContainer.merge_duplicate_points(decimals=6) and stack(): point count, orientation or volume of the "
                                "stacked mesh are not those of the merged parts", unit="container:merge-method", config=("container-merge", m.cell_type))
                    twin = same.copy()
                    twin += m.translate(3 * ext, 0)
                    popped = twin.pop(0)
                    st2 = twin.stack()
                    v2 = OC.signed_volumes(st2.points, st2.cells, st2.cell_type)
                    run.compare("mesh.container", "tool=MeshContainer clause=copy-append-pop", float(len(same.meshes) != 3 or len(twin.meshes) != 3 or popped.ncells != m.ncells)
                                + abs(v2.sum() - 3 * v0.sum()) / v0.sum() + float(not np.all(v2 > 0)), 1e-11,
                                "MeshContainer.copy() / += / pop(): the copy's stack after appending one and removing another mesh does not cover the three meshes it holds "
                                "(or the original changed)", unit="container:copy-append-pop", config=("container-copy", m.cell_type))
                # duplicate cells: a mesh joined with itself, points merged, has every cell twice - ``merge_duplicate_cells`` restores the mesh
                for m in (r, c, r.triangulate(), c.triangulate(), fem.mesh.Line(a=0.5, b=2, n=4)):
                    dbl = fem.mesh.concatenate([m, m, m.translate(float(np.ptp(m.points[:, 0])), 0)]).merge_duplicate_points(decimals=8)
                    once = dbl.merge_duplicate_cells()
                    v0 = OC.signed_volumes(m.points, m.cells, m.cell_type)
                    v = OC.signed_volumes(once.points, once.cells, once.cell_type)
                    run.compare("mesh.merge_duplicate_cells", "tool=merge_duplicate_cells clause=volume-of-the-distinct-cells", abs(v.sum() - 2 * v0.sum()) / v0.sum()
                                + float(once.ncells != 2 * m.ncells), 1e-11, "merge_duplicate_cells: the mesh joined with itself and a neighbour does not come back as the two bodies",
                                unit="merge_duplicate_cells:volume", config=("merge-cells", m.cell_type))
            elif name == "fill_between":
                # quads between two lines in the plane with the layers at given relative positions (array ``n``); hexahedra between two
                # quad surfaces in space (the documented example: two coaxial partial cylinder surfaces; two perturbed plates) - judged by
                # the hook against layers and columns built from the two inputs
                for k in range(3):
                    n = int(rng.integers(3, 7))
                    x = np.linspace(0, rng.uniform(1, 2), n)
                    bottom = fem.mesh.Line(n=n).copy(points=np.vstack([x, 0.2 * rng.uniform(-1, 1, n)]).T)
                    top = fem.mesh.Line(n=n).copy(points=np.vstack([x + 0.1 * rng.uniform(-1, 1, n), 1 + 0.2 * rng.uniform(-1, 1, n)]).T)
                    t = np.concatenate([[-1.0], np.sort(rng.uniform(-0.9, 0.9, int(rng.integers(1, 4)))), [1.0]])
                    t = t[np.concatenate([[True], np.diff(t) > 0.05])]
                    f = bottom.fill_between(top, n=[t, t.tolist(), t[1:]][k])
                    poly = np.vstack([bottom.points, top.points[::-1]])
                    area = 0.5 * float(np.sum(poly[:, 0] * np.roll(poly[:, 1], -1) - np.roll(poly[:, 0], -1) * poly[:, 1]))
                    if k < 2:
                        v = OC.signed_volumes(f.points, f.cells, f.cell_type)
                        run.compare("mesh.fill_between", "tool=fill_between clause=volume", abs(v.sum() - area) / area, 1e-11,
                                    "fill_between(n=<positions from -1 to 1>): area differs from the area between the two lines", unit="fill_between:volume-array-n",
                                    config=("fill_between", "array-n", k))
                bottom.fill_between(top)                           # documented default: eleven layers
                inner = fem.mesh.revolve(fem.Point(1)).expand(z=0.4).translate(0.2, axis=2)
                outer = fem.mesh.revolve(fem.Point(2), phi=160).rotate(axis=2, angle_deg=20).expand(z=1.2)
                # (as documented the inner surface is the first one: its columns point inwards ... the oracle decides which order is the positive one)
                for first, second in ((inner, outer), (outer, inner)):
                    fem.mesh.fill_between(first, second, n=6)
                    first.fill_between(second, n=[-1, -0.5, 0.3, 1])
                for k in range(2):
                    q = fem.Rectangle(a=(0.2, 0.1), b=(1.7, 1.3), n=(int(rng.integers(3, 5)), int(rng.integers(2, 5))))
                    xy = q.points
                    lo = fem.Mesh(np.c_[xy, 0.1 * np.sin(2 * xy[:, 0]) * np.cos(xy[:, 1])], q.cells, "quad")
                    hi = fem.Mesh(np.c_[xy + 0.05 * rng.uniform(-1, 1, xy.shape), 1.0 + 0.1 * rng.uniform(-1, 1, len(xy))], q.cells, "quad")
                    h = lo.fill_between(hi, n=int(rng.integers(2, 5)))
                    lo.fill_between(hi, n=np.array([-1.0, -0.2, 0.5, 1.0]))
                    # closed form for this pair: the volume between two surfaces over the same (x, y) grid would need the in-plane shift;
                    # stated instead for the unshifted pair: integral of the height difference, bilinear per cell
                    hi0 = fem.Mesh(np.c_[xy, hi.points[:, 2]], q.cells, "quad")
                    h0 = lo.fill_between(hi0, n=3)
                    dz = (hi0.points[:, 2] - lo.points[:, 2])[q.cells]
                    a0 = OC.signed_volumes(q.points, q.cells, "quad")
                    vol = float((a0 * dz.mean(1)).sum())  # rectangular cells: the mean of the four corner heights times the cell area
                    v = OC.signed_volumes(h0.points, h0.cells, h0.cell_type)
                    run.compare("mesh.fill_between", "tool=fill_between celltype=quad clause=volume-between-surfaces", abs(v.sum() - vol) / vol, 1e-11,
                                "fill_between of two quad surfaces over the same grid: volume differs from the integral of the height difference",
                                unit="fill_between:volume-3d", config=("fill_between", "3d", k))
                for k in range(4):
                    n = int(rng.integers(3, 7))
                    x = np.linspace(0, rng.uniform(1, 2), n)
                    bottom = fem.mesh.Line(n=n).copy(points=np.vstack([x, 0.2 * rng.uniform(-1, 1, n)]).T)
                    top = fem.mesh.Line(n=n).copy(points=np.vstack([x + 0.1 * rng.uniform(-1, 1, n), 1 + 0.2 * rng.uniform(-1, 1, n)]).T)
                    f = bottom.fill_between(top, n=int(rng.integers(2, 6)))
                    poly = np.vstack([bottom.points, top.points[::-1]])
                    area = 0.5 * float(np.sum(poly[:, 0] * np.roll(poly[:, 1], -1) - np.roll(poly[:, 0], -1) * poly[:, 1]))
                    v = OC.signed_volumes(f.points, f.cells, f.cell_type)
                    run.compare("mesh.fill_between", "tool=fill_between clause=volume", abs(v.sum() - area) / area, 1e-11,
                                "fill_between: area differs from the area between the two lines", unit="fill_between:volume",
                                config=("fill_between", k))
                    if np.all(v > 0):
                        run.ok("mesh.fill_between", unit="fill_between:orientation")
                    else:
                        run.fail("mesh.fill_between", "tool=fill_between clause=orientation", "fill_between: non-positive cells")
        finally:
            attach.detach_all()
    return fn


def cases(tier, seed):
    out = []
    for rep in range(2 if tier == "quick" else 10):
        out.append(("generators:%d" % rep, case_generators(rep)))
    for name in ("conversions", "triangulate", "revolve", "mirror", "merge", "fill_between", "functions", "expand", "runouts", "positional"):
        out.append(("special:" + name, case_special(name)))
    for rep in range(42 if tier == "quick" else 1500):
        out.append(("program:%d" % rep, case_program(rep)))
    return out


def _required():
    req = ["program-length>=3"]
    for g in ("Line", "Rectangle", "Cube", "Grid", "Circle", "Triangle"):
        req += ["gen.%s:orientation" % g, "gen.%s:volume" % g, "gen.%s:unused-points" % g, "gen.%s:duplicate-points" % g]
    req += ["gen.RectangleArbitraryOrderQuad:layout", "gen.CubeArbitraryOrderHexahedron:layout", "gen.Circle:boundary",
            "gen.RectangleArbitraryOrderQuad:volume", "gen.CubeArbitraryOrderHexahedron:volume", "gen.Grid:coordinates",
            "gen.Line:bounds", "gen.Rectangle:bounds", "gen.Cube:bounds", "gen.Triangle:bounds", "input-untouched",
            "rotate:positions", "translate:positions", "flip:selection", "expand:layers", "revolve:segments"]
    for t in ("rotate", "translate", "mirror", "triangulate", "expand", "revolve", "concatenate", "disconnect"):
        req += [t + ":volume", t + ":orientation"]
    req += ["flip:double", "mirror:reflection", "rotate:isometry", "add_midpoints_edges:centroid", "add_midpoints_faces:centroid",
            "add_midpoints_volumes:centroid", "add_midpoints_edges:layout", "add_midpoints_faces:layout",
            "add_midpoints_volumes:layout", "convert:layout", "merge:corners", "merge:separation", "merge:count", "merge:count:coarse", "merge:count:higher-order",
            "container:volume", "container:held-mesh-attributes", "container:concatenate-held-meshes", "fill_between:volume"]
    # third audit: point counts of the generators, length units, result types, undriven arguments / call styles / tools
    for g in ("Line", "Rectangle", "Cube"):
        req += ["gen.%s:grid-points" % g, "gen.%s:cell-count" % g]
    req += ["gen.Grid:cell-count", "gen.Circle:counts", "gen.Triangle:counts", "generator:lagrange-order:1", "generator:lagrange-order:6", "generator:lagrange-order:7"]
    req += ["generator-unit:%g" % u for u in UNITS[1:]] + ["program-unit:%g" % u for u in UNITS]
    req += ["variant:renumbered", "variant:fortran-int32", "conversions:renumbered", "generator:documented-defaults", "triangulate:cell-count", "add_runouts:axis",
            "add_runouts:ends", "add_runouts:orientation", "add_runouts:result-type"]
    for t in ("rotate", "translate", "mirror", "flip", "triangulate", "expand", "revolve", "add_midpoints_edges", "add_midpoints_faces", "add_midpoints_volumes",
              "convert", "disconnect", "merge_duplicate_points", "merge_duplicate_cells", "concatenate", "stack", "fill_between"):
        req += [t + ":result-type"]
    for t in ("add_midpoints_edges", "add_midpoints_faces", "add_midpoints_volumes", "convert", "collect_edges", "collect_faces", "collect_volumes"):
        req += [t + ":centroid-set", t + ":shared-points"]
    req += ["rotate:masked-positions", "expand:general-positions", "expand:general-volumes", "expand:uniform-orientation", "expand:vertex", "revolve:vertex",
            "revolve:point-count", "convert:order0", "merge_duplicate_cells:distinct-cells", "merge_duplicate_cells:volume", "fill_between:layers",
            "fill_between:cells", "fill_between:hook-orientation", "fill_between:volume-3d", "fill_between:volume-array-n", "container:stack-default",
            "container:merge-method", "container:copy-append-pop", "concatenate:input-untouched", "stack:input-untouched", "function:input-untouched"]
    req += ["call-style:" + st for st in MM.STYLES]
    req += ["function:" + t for t in ("expand", "rotate", "revolve", "mirror", "flip", "translate", "triangulate", "convert", "add_midpoints_edges",
                                      "add_midpoints_faces", "add_midpoints_volumes", "collect_edges", "collect_faces", "collect_volumes",
                                      "merge_duplicate_points", "merge_duplicate_cells")]
    # fourth audit: values by position (named by the documented order), full circles against the closed form of their polygon
    req += ["method:positional-arguments", "function:positional-arguments", "expand:trailing-points-without-cells", "generator:positional-arguments", "gen.Circle:regular-polygon"]
    return req


SPEC = {
    "required_units": _required(),
    "rule": ("generators with seeded arguments (bounds, point counts, section angles, triangle corners, Lagrange orders 2..5) and "
             "random programs of 3..6 transformations applicable to the current cell type (rotate, translate, mirror, double "
             "flip, triangulate modes 0/3, expand, revolve incl. closing 360 deg, order conversion, concatenate, merge with "
             "decimals None/8/5, disconnect); every call is judged by its post-hook against oracle-side signed cell volumes, "
             "intended measures, centroid and element-layout formulas; a configuration is distinct by program (sequence of "
             "tool names) or (tool, cell type, clause). Bodies and tool arguments in four length units (1, 1e-3, 1e3, 1e-6), "
             "handed over as generated / renumbered / Fortran-ordered with 32-bit cells, tools called as methods and as "
             "module-level functions in the five documented call styles (by step index); point and cell counts of the "
             "generators, (cell type, points per cell, dimension) of every result, all documented arguments of expand / "
             "revolve / rotate / convert / disconnect / fill_between, collect_*, merge_duplicate_cells, the container interface; "
             "every tool and generator with more than one argument also with its values by position (names from the documented order)"),
    "assumptions": ["oracle volumes use the vertex sub-cell of higher-order cells (their extra nodes are checked separately)",
                    "cell type names follow the VTK / meshio rule 'vertex cell name + points per cell' for the ten named higher-order types; any other result carries None",
                    "an argument the caller did not pass has the documented default (tables in vmon/monitors/mesh.py: tools and generators), not the value in the signature under test",
                    "a value passed by position carries the name the documentation gives to that position (DOC_ORDER); argument values are copied before the call",
                    "a documented positional call that the library refuses ends the case with an error (inconclusive), it is not counted as a violation",
                    "expand with negative / decreasing layer positions or along another axis: measures, layer positions and uniformity of the orientation are judged, not its sense",
                    "revolve: volume of the polygonal sweep = sum sin(dphi) * integral of r dA (derived in vmon/monitors/mesh.py)"],
    "jobs": {"quick": 6, "thorough": 16},
}
