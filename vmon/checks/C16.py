"""C16 - mesh generators and transformations preserve geometry and orientation.

Post-hooks (vmon.monitors.mesh) on every generator class and every
transformation tool judge each call against oracle-side cell geometry.  The
workload are the generators with seeded arguments and random *programs*
(sequences of transformations applicable to the current cell type).
"""
import numpy as np

from .. import attach
from ..monitors import mesh as MM
from ..oracles import cells as OC
from ..util import rng_for


def gen_mesh(rng, kind):
    import felupe as fem
    if kind == "line":
        a = float(rng.uniform(-1, 1))
        return fem.mesh.Line(a=a, b=a + float(rng.uniform(0.5, 2)), n=int(rng.integers(2, 6)))
    if kind == "rectangle":
        a = rng.uniform(0.1, 1, 2)
        return fem.Rectangle(a=tuple(a), b=tuple(a + rng.uniform(0.5, 2, 2)), n=tuple(int(x) for x in rng.integers(2, 5, 2)))
    if kind == "cube":
        a = rng.uniform(0.1, 1, 3)
        return fem.Cube(a=tuple(a), b=tuple(a + rng.uniform(0.5, 2, 3)), n=tuple(int(x) for x in rng.integers(2, 4, 3)))
    if kind == "grid2":
        xs = [np.cumsum(rng.uniform(0.2, 1, int(rng.integers(2, 5)))) for _ in range(2)]
        return fem.Grid(*xs)
    if kind == "grid3":
        xs = [np.cumsum(rng.uniform(0.2, 1, int(rng.integers(2, 4)))) for _ in range(3)]
        return fem.Grid(*xs)
    if kind == "circle":
        return fem.Circle(radius=float(rng.uniform(0.5, 3)), centerpoint=list(rng.uniform(3, 4, 2)), n=int(rng.integers(2, 6)))
    if kind == "triangle":
        pa = rng.uniform(0.5, 1, 2)
        pb = pa + np.array([rng.uniform(1, 2), rng.uniform(-0.3, 0.3)])
        pc = pa + np.array([rng.uniform(-0.3, 0.8), rng.uniform(1, 2)])
        return fem.mesh.Triangle(a=tuple(pa), b=tuple(pb), c=tuple(pc), n=int(rng.integers(2, 6)))
    raise KeyError(kind)


def case_generators(rep):
    def fn(run):
        import felupe as fem
        rng = rng_for(run.seed, "C16", "generators", rep)
        MM.attach_hooks(run)
        try:
            for kind in ("line", "rectangle", "cube", "grid2", "grid3", "circle", "triangle"):
                gen_mesh(rng, kind)
            # every argument of the grid generator: both meshgrid indexings, one to three axes
            for nax in (1, 2, 3):
                xs = [np.cumsum(rng.uniform(0.2, 1, int(rng.integers(3, 5)) + k)) for k in range(nax)]
                for indexing in ("ij", "xy"):
                    fem.Grid(*xs, indexing=indexing)
                    run.units["generator:Grid:%s:%d" % (indexing, nax)] += 1
            fem.Circle(radius=1.0, n=3, sections=[0, 90])
            fem.Circle(radius=2.0, n=4, sections=[0, 90, 180, 270], value=0.2, exponent=3)
            # general section angles (one to four non-overlapping quarter sections, anywhere on the circle)
            for sec in ([30, 120], [45], [0, 90, 180], [10, 100, 190, 280], [float(rng.uniform(0, 360))]):
                fem.Circle(radius=float(rng.uniform(0.5, 3)), centerpoint=list(rng.uniform(-1, 1, 2)), n=int(rng.integers(2, 6)), sections=sec)
            # scalar point counts
            fem.Rectangle(a=(0.3, -0.2), b=(1.1, 0.9), n=int(rng.integers(2, 5)))
            fem.Cube(a=(0.3, -0.2, 1.0), b=(1.1, 0.9, 1.7), n=int(rng.integers(2, 4)))
            for order in (2, 3, 4, 5):
                a = rng.uniform(-1, 0, 2)
                fem.mesh.RectangleArbitraryOrderQuad(a=tuple(a), b=tuple(a + rng.uniform(1, 2, 2)), order=order)
                if order < 5 or run.tier == "thorough":
                    a = rng.uniform(-1, 0, 3)
                    fem.mesh.CubeArbitraryOrderHexahedron(a=tuple(a), b=tuple(a + rng.uniform(1, 2, 3)), order=order)
        finally:
            attach.detach_all()
    return fn


# --------------------------------------------------------------------------- programs
def applicable(m):
    ct, dim = m.cell_type, m.points.shape[1]
    ops = []
    if ct in ("line", "triangle", "quad", "tetra", "hexahedron") and OC.DIM.get(ct) == dim:
        ops += ["rotate", "translate", "mirror", "flipflip", "concat", "merge", "disconnect"]
        if dim == 1:
            ops.remove("rotate")
    if ct in ("quad", "hexahedron"):
        ops += ["triangulate"]
    if ct in ("line", "quad") and OC.DIM.get(ct) == dim:
        ops += ["expand", "revolve"]
    if ct in ("triangle", "quad", "tetra", "hexahedron"):
        ops += ["edges", "convert"]
    if ct in ("triangle6", "tetra10", "quad8", "hexahedron20") or ct in ("triangle",):
        ops += ["faces"]
    if ct in ("tetra", "hexahedron") or m.cells.shape[1] in (26,):
        ops += ["volumes"]
    if ct in ("triangle6", "tetra10", "quad8", "quad9", "hexahedron20", "hexahedron27"):
        ops += ["rotate", "translate", "disconnect"]
    return ops


def apply_op(rng, m, op):
    import felupe as fem
    dim = m.points.shape[1]
    if op == "rotate":
        return m.rotate(float(rng.uniform(-180, 180)), axis=int(rng.integers(0, 3)) if dim == 3 else 2,
                        center=list(rng.uniform(-1, 1, dim)))
    if op == "translate":
        return m.translate(float(rng.uniform(-2, 2)), axis=int(rng.integers(0, dim)))
    if op == "mirror":
        if rng.integers(0, 2):
            return m.mirror(axis=int(rng.integers(0, dim)), centerpoint=list(rng.uniform(-1, 1, 3)))
        return m.mirror(normal=list(rng.standard_normal(3)), centerpoint=list(rng.uniform(-1, 1, 3)))
    if op == "flipflip":
        mask = rng.uniform(size=m.ncells) < 0.5
        f = m.flip(mask)
        return f.flip(mask)
    if op == "triangulate":
        return m.triangulate(mode=int(rng.choice([0, 3]))) if m.cell_type == "hexahedron" else m.triangulate()
    if op == "expand":
        if rng.integers(0, 2):
            return m.expand(n=int(rng.integers(2, 5)), z=float(rng.uniform(0.3, 2)))
        return m.expand(z=np.cumsum(rng.uniform(0.2, 1, int(rng.integers(2, 5)))))
    if op == "revolve":
        # the body must lie on the positive side of the rotation axis
        axis = int(rng.integers(0, 2)) if m.cell_type == "quad" else 2
        r_index = 1 - axis if m.cell_type == "quad" else 0
        shift = max(0.0, 0.2 - m.points[:, r_index].min())
        mm = m.translate(shift, axis=r_index) if shift > 0 else m
        closing = rng.integers(0, 3) == 0
        phi = 360 if closing else float(rng.uniform(20, 300))
        nseg = int(rng.integers(4, 9)) if not closing else int(rng.integers(5, 10))
        if rng.integers(0, 3) == 0:
            # explicit (non-uniform) angles, open or ending exactly at 360 degrees
            # the number of angles is independent of the keyword n (fewer or more than its default 11, or a
            # conflicting n handed over as well: the array decides)
            many = rng.integers(0, 2) == 1
            inner = np.sort(rng.uniform(10, (350 if closing else phi - 5), (int(rng.integers(12, 20)) if many else nseg - 1)))
            inner = inner[np.concatenate([[True], np.diff(inner) > (3 if many else 8)])]
            angles = np.concatenate([[0.0], inner, [360.0 if closing else phi]])
            start = int(rng.integers(0, 4))
            if start == 1:
                # the first layer need not sit at zero: a closed ring is one whose last angle is the first one plus 360
                angles = angles + float(rng.uniform(5, 90))
            elif start == 2 and not closing:
                # an open sweep that starts later and ends exactly at 360 degrees
                angles = angles[angles > 1e-9]
                angles = angles + (360.0 - angles[-1])
            if rng.integers(0, 3) == 0 and len(angles) > 2:
                return mm.revolve(n=int(rng.integers(2, len(angles))), phi=angles, axis=axis)
            return mm.revolve(phi=angles, axis=axis)
        return mm.revolve(n=nseg + 1, phi=phi, axis=axis)
    if op == "edges":
        return m.add_midpoints_edges()
    if op == "faces":
        return m.add_midpoints_faces()
    if op == "volumes":
        return m.add_midpoints_volumes()
    if op == "convert":
        full = bool(rng.integers(0, 2))
        return m.convert(order=2, calc_midfaces=full, calc_midvolumes=full and dim == 3)
    if op == "concat":
        ext = m.points[:, 0].max() - m.points[:, 0].min()
        m2 = m.translate(ext, axis=0)  # shares a face with m when m is an axis-aligned box, disjoint otherwise
        if rng.integers(0, 2):
            # parts with different numbers of points and cells (a part of the mesh: the cells of the first half, with the
            # points they use), in both orders and as a third member
            half = m.cells[: max(1, m.ncells // 2)]
            keep = np.unique(half)
            remap = -np.ones(m.npoints, int)
            remap[keep] = np.arange(len(keep))
            part = fem.Mesh(m.points[keep] + np.eye(dim)[0] * 2.5 * ext, remap[half], m.cell_type)
            order = [[m, part, m2], [part, m, m2], [m, m2, part]][int(rng.integers(0, 3))]
            return fem.mesh.concatenate(order)
        return fem.mesh.concatenate([m, m2])
    if op == "merge":
        dec = [None, 8, 5][int(rng.integers(0, 3))]
        return m.merge_duplicate_points(decimals=dec)
    if op == "disconnect":
        return m.disconnect()
    raise KeyError(op)


def case_program(rep):
    def fn(run):
        import felupe as fem
        rng = rng_for(run.seed, "C16", "program", rep)
        MM.attach_hooks(run)
        try:
            kind = ["line", "rectangle", "cube", "grid2", "circle", "triangle", "grid3"][rep % 7]
            m = gen_mesh(rng, kind)
            length = int(rng.integers(3, 7))
            prog = [kind]
            for step in range(length):
                ops = applicable(m)
                if not ops:
                    break
                op = str(rng.choice(ops))
                try:
                    m2 = apply_op(rng, m, op)
                except (KeyError, NotImplementedError, TypeError) as exc:
                    # a tool that refuses a cell type raises loudly: outside the property
                    run.note("tool %s refused %s: %s" % (op, m.cell_type, type(exc).__name__))
                    continue
                prog.append(op)
                if m2.cell_type is None:
                    break
                m = m2
            run.units["program-length>=3"] += 1 if len(prog) >= 4 else 0
            run.configs.add("program:" + ">".join(prog))
            if len(run.samples) < 4:
                run.samples.append({"program": prog, "final_cell_type": m.cell_type, "final_cells": int(m.ncells)})
        finally:
            attach.detach_all()
    return fn


def case_special(name):
    def fn(run):
        import felupe as fem
        rng = rng_for(run.seed, "C16", "special", name)
        MM.attach_hooks(run)
        try:
            r = fem.Rectangle(a=(0.5, 1.0), b=(2.0, 2.0), n=(4, 3))
            c = fem.Cube(a=(0, 0, 0), b=(2, 1, 1), n=(3, 3, 2))
            if name == "conversions":
                for base in (r, c, r.triangulate(), c.triangulate(), c.triangulate(mode=0)):
                    q = base.add_midpoints_edges()
                    if base.cell_type in ("quad",):
                        q.add_midpoints_faces()
                    if base.cell_type == "hexahedron":
                        q.add_midpoints_faces().add_midpoints_volumes()
                        base.convert(2, calc_midfaces=True, calc_midvolumes=True)
                    if base.cell_type == "triangle":
                        base.add_midpoints_faces()
                    if base.cell_type == "tetra":
                        base.add_midpoints_volumes()
                        q.add_midpoints_faces()
            elif name == "triangulate":
                # extruded, in-plane distorted quads: planar faces but no parallelepipeds - a tetrahedral split that does not
                # tile the cell changes the per-cell volume here (on parallelepipeds every tet is 1/6 of the cell)
                from .. import gen
                for k in range(3):
                    q, _ = gen.build_mesh("quad", "distorted", rng, amp=0.2)
                    h = q.expand(n=int(rng.integers(2, 4)), z=float(rng.uniform(0.5, 1.5)))
                    for mode in (0, 3):
                        h.triangulate(mode=mode)
                    q.triangulate()
                ci = fem.Circle(radius=1.3, n=3).expand(n=3, z=0.7)
                for mode in (0, 3):
                    ci.triangulate(mode=mode)
            elif name == "revolve":
                for axis in (0, 1):
                    for phi, n in ((90, 7), (180, 11), (360, 13), (45.0, 3)):
                        r.revolve(n=n, phi=phi, axis=axis)
                fem.mesh.Line(a=1, b=3, n=4).revolve(n=6, phi=120, axis=2)
                r.revolve(n=7, phi=-180, axis=1)  # documented usage for the second axis
                r.revolve(phi=-np.array([0.0, 20.0, 75.0, 130.0]), axis=1)
                # angle arrays that do not start at zero: a closed ring (last = first + 360), an open sweep ending exactly at 360
                rq = fem.Rectangle(a=(0.5, 1.0), b=(2.0, 2.0), n=(4, 3))
                s0 = float(rng.uniform(10, 80))
                rq.revolve(phi=s0 + np.array([0.0, 70.0, 150.0, 200.0, 290.0, 360.0]), axis=0)
                rq.revolve(phi=np.array([90.0, 180.0, 270.0, 360.0]), axis=0)
                rq.revolve(phi=np.array([360.0 - s0, 360.0]), axis=0)
                fem.mesh.Line(a=1, b=3, n=4).revolve(phi=np.array([30.0, 120.0, 240.0, 300.0, 390.0]), axis=2)
                fem.mesh.Line(a=1, b=3, n=4).expand(n=3, z=2.0)
                fem.mesh.Point(a=0.5).expand(n=3, z=2.0)
            elif name == "mirror":
                for m in (r, c, r.triangulate(), c.triangulate(), fem.mesh.Line(n=3)):
                    for ax in range(m.dim):
                        m.mirror(axis=ax, centerpoint=[0.5, 0.5, 0.5])
                    m.mirror(normal=[1, 0.3, -0.2], centerpoint=[0.1, 0.2, 0.3])
            elif name == "merge":
                for m in (r, c, r.triangulate()):
                    ext = m.points[:, 0].max() - m.points[:, 0].min()
                    cc = fem.mesh.concatenate([m, m.translate(ext, 0), m.translate(2 * ext, 0)])
                    for dec in (None, 10, 6, 3):
                        s = cc.merge_duplicate_points(decimals=dec)
                        if dec is None or dec >= 6:
                            exp = len(np.unique(np.round(cc.points, 9), axis=0))
                            if len(s.points) == exp:
                                run.ok("mesh.merge_duplicate_points", unit="merge:count")
                            else:
                                run.fail("mesh.merge_duplicate_points", "tool=merge_duplicate_points clause=count",
                                         "merge: %d points remain, expected %d" % (len(s.points), exp))
                    jit = cc.copy(points=cc.points + 1e-7 * rng.uniform(-1, 1, cc.points.shape))
                    jit.merge_duplicate_points(decimals=4)
                    # the documented alias, on a moved copy: it merges the mesh it is called on
                    moved = cc.copy(points=cc.points + 3.0)
                    sw = moved.sweep(decimals=6)
                    exp = len(np.unique(np.round(cc.points, 9), axis=0))
                    run.compare("mesh.merge_duplicate_points", "tool=merge_duplicate_points clause=alias-sweep-on-a-copy",
                                float(len(sw.points) != exp) + float(np.abs(sw.points.min(0) - moved.points.min(0)).max()), 1e-6,
                                "mesh.copy(points).sweep() does not return the merged copy", unit="merge:alias")
                # duplicates that sit astride a rounding boundary (x = 0.125 +- 1e-16 with decimals=2): judged here with its own key
                qa = fem.Rectangle(a=(0, 0), b=(0.125, 1), n=(2, 3))
                qb = fem.Rectangle(a=(0.125, 0), b=(0.3, 1), n=(2, 3))
                qa = qa.copy(points=qa.points - np.array([2e-16, 0.0]) * (qa.points[:, :1] > 0.1))
                qb = qb.copy(points=qb.points + np.array([2e-16, 0.0]) * (qb.points[:, :1] < 0.126))
                cc2 = fem.mesh.concatenate([qa, qb])
                mm = fem.mesh.merge_duplicate_points(cc2, decimals=2)  # module-level function: not judged by the method hook
                from scipy.spatial import cKDTree
                dmin = float(cKDTree(mm.points).query(mm.points, k=2)[0][:, 1].min())
                run.compare("mesh.merge_duplicate_points", "tool=merge_duplicate_points clause=separation input=duplicates-astride-a-rounding-boundary",
                            0.0 if dmin >= 0.01 * (1 - 1e-9) else 1.0, 0.5,
                            "merge(decimals=2): two points %.1e apart (on either side of x = 0.125) are left unmerged" % dmin, unit="merge:rounding-boundary")
                # joining higher-order blocks: shared mid-edge / mid-face nodes must merge as well
                for ho in (fem.Rectangle(n=3).add_midpoints_edges(), fem.Rectangle(n=3).add_midpoints_edges().add_midpoints_faces(),
                           fem.Cube(n=3).add_midpoints_edges(), fem.Cube(n=3).add_midpoints_edges().add_midpoints_faces().add_midpoints_volumes(),
                           fem.Rectangle(n=3).triangulate().add_midpoints_edges(), fem.Cube(n=2).triangulate().add_midpoints_edges()):
                    cc = fem.mesh.concatenate([ho, ho.translate(1.0, 0)])
                    cc = cc.copy(points=cc.points + 1e-9 * rng.uniform(-1, 1, cc.points.shape))
                    sm = cc.merge_duplicate_points(decimals=6)
                    exp = len(np.unique(np.round(np.vstack([ho.points, ho.translate(1.0, 0).points]), 6), axis=0))
                    if len(sm.points) == exp:
                        run.ok("mesh.merge_duplicate_points", unit="merge:count:higher-order", config=("merge-ho", ho.cell_type))
                    else:
                        run.fail("mesh.merge_duplicate_points", "tool=merge_duplicate_points celltype=%s clause=count" % ho.cell_type,
                                 "merge of two %s blocks: %d points remain, expected %d" % (ho.cell_type, len(sm.points), exp))
                # coarse tolerances (decimals 0, 1 and -1): grids on multiples of the tolerance with round-off sized noise
                for dec, h in ((0, 1.0), (1, 0.1), (-1, 10.0), (0, 2.0)):
                    for g in (fem.Rectangle(b=(3 * h, 2 * h), n=(4, 3)), fem.Cube(b=(2 * h, h, h), n=(3, 2, 2))):
                        parts = [g, g.translate(g.points[:, 0].max(), 0)]
                        cc = fem.mesh.concatenate(parts)
                        cc = cc.copy(points=cc.points + 1e-9 * h * rng.uniform(-1, 1, cc.points.shape))
                        s = cc.merge_duplicate_points(decimals=dec)
                        exp = len(np.unique(np.round(cc.points / h), axis=0))
                        if len(s.points) == exp:
                            run.ok("mesh.merge_duplicate_points", unit="merge:count:coarse", config=("merge-coarse", dec, g.cell_type))
                        else:
                            run.fail("mesh.merge_duplicate_points", "tool=merge_duplicate_points decimals=%s clause=count" % dec,
                                     "merge: %d points remain, expected %d" % (len(s.points), exp))
                        fem.MeshContainer([cc.copy(), cc.translate(5 * h, 1)], merge=True, decimals=dec)
                # containers: stacking all / a selection of the meshes, after appending (every cell type; the selection need not
                # start with the first mesh)
                for m in (r, c, r.triangulate(), c.triangulate()):
                    ext = m.points[:, 0].max() - m.points[:, 0].min()
                    other = (r.triangulate() if m.cell_type == "quad" else r) if m.dim == 2 else (c.triangulate() if m.cell_type == "hexahedron" else c)
                    cont = fem.MeshContainer([m, m.translate(ext, 0), other.translate(-3 * ext, 0)], merge=True)
                    cont += m.translate(2 * ext, 0)
                    v0 = OC.signed_volumes(m.points, m.cells, m.cell_type)
                    for idx, k in ((None if False else [0, 1], 2), ([0, 1, 3], 3), ([1, 3], 2), ([3], 1)):
                        st = cont.stack(idx)
                        v = OC.signed_volumes(st.points, st.cells, st.cell_type)
                        run.compare("mesh.container", "tool=MeshContainer clause=stack-volume", abs(v.sum() - k * v0.sum()) / v0.sum(),
                                    1e-11, "MeshContainer(merge=True).stack(%s): volume differs from the sum of the selected parts" % idx,
                                    unit="container:volume", config=("container", m.cell_type, tuple(idx)))
                        if np.all(v > 0) and st.cell_type == m.cell_type:
                            run.ok("mesh.container", unit="container:orientation")
                        else:
                            run.fail("mesh.container", "tool=MeshContainer clause=orientation", "stacked container has non-positive cells or another cell type")
                    # the meshes a container holds are meshes like any other: their own bookkeeping follows the shared points array,
                    # and they can be concatenated with each other and with fresh meshes (the concatenate hook judges corners, volume
                    # and orientation; here the covered volume and the absence of foreign points are stated explicitly)
                    far = m.translate(7 * ext, 0)
                    for parts, k in (([cont[0], far], 2), ([cont[0], cont[3]], 2), ([far, cont[1], cont[3]], 3)):
                        for q in parts:
                            if q.npoints != len(q.points) or len(q.points_without_cells) != q.npoints - len(np.unique(q.cells)):
                                run.fail("mesh.container", "tool=MeshContainer clause=held-mesh-attributes", "a mesh held by a container reports npoints = %d and "
                                         "%d points without cells for %d points of which %d are used" % (q.npoints, len(q.points_without_cells), len(q.points), len(np.unique(q.cells))))
                                break
                        else:
                            run.ok("mesh.container", unit="container:held-mesh-attributes")
                        cj = fem.mesh.concatenate(parts)
                        vj = OC.signed_volumes(cj.points, cj.cells, cj.cell_type)
                        run.compare("mesh.container", "tool=concatenate clause=volume-of-container-meshes", abs(vj.sum() - k * v0.sum()) / v0.sum(), 1e-11,
                                    "concatenate of meshes taken out of a MeshContainer: covered volume differs from the sum of the parts",
                                    unit="container:concatenate-held-meshes", config=("container-concatenate", m.cell_type, k))
            elif name == "fill_between":
                for k in range(4):
                    n = int(rng.integers(3, 7))
                    x = np.linspace(0, rng.uniform(1, 2), n)
                    bottom = fem.mesh.Line(n=n).copy(points=np.vstack([x, 0.2 * rng.uniform(-1, 1, n)]).T)
                    top = fem.mesh.Line(n=n).copy(points=np.vstack([x + 0.1 * rng.uniform(-1, 1, n), 1 + 0.2 * rng.uniform(-1, 1, n)]).T)
                    f = bottom.fill_between(top, n=int(rng.integers(2, 6)))
                    poly = np.vstack([bottom.points, top.points[::-1]])
                    area = 0.5 * float(np.sum(poly[:, 0] * np.roll(poly[:, 1], -1) - np.roll(poly[:, 0], -1) * poly[:, 1]))
                    v = OC.signed_volumes(f.points, f.cells, f.cell_type)
                    run.compare("mesh.fill_between", "tool=fill_between clause=volume", abs(v.sum() - area) / area, 1e-11,
                                "fill_between: area differs from the area between the two lines", unit="fill_between:volume",
                                config=("fill_between", k))
                    if np.all(v > 0):
                        run.ok("mesh.fill_between", unit="fill_between:orientation")
                    else:
                        run.fail("mesh.fill_between", "tool=fill_between clause=orientation", "fill_between: non-positive cells")
        finally:
            attach.detach_all()
    return fn


def cases(tier, seed):
    out = []
    for rep in range(2 if tier == "quick" else 10):
        out.append(("generators:%d" % rep, case_generators(rep)))
    for name in ("conversions", "triangulate", "revolve", "mirror", "merge", "fill_between"):
        out.append(("special:" + name, case_special(name)))
    for rep in range(42 if tier == "quick" else 1500):
        out.append(("program:%d" % rep, case_program(rep)))
    return out


def _required():
    req = ["program-length>=3"]
    for g in ("Line", "Rectangle", "Cube", "Grid", "Circle", "Triangle"):
        req += ["gen.%s:orientation" % g, "gen.%s:volume" % g, "gen.%s:unused-points" % g, "gen.%s:duplicate-points" % g]
    req += ["gen.RectangleArbitraryOrderQuad:layout", "gen.CubeArbitraryOrderHexahedron:layout", "gen.Circle:boundary",
            "gen.RectangleArbitraryOrderQuad:volume", "gen.CubeArbitraryOrderHexahedron:volume", "gen.Grid:coordinates",
            "gen.Line:bounds", "gen.Rectangle:bounds", "gen.Cube:bounds", "gen.Triangle:bounds", "input-untouched",
            "rotate:positions", "translate:positions", "flip:selection", "expand:layers", "revolve:segments"]
    for t in ("rotate", "translate", "mirror", "triangulate", "expand", "revolve", "concatenate", "disconnect"):
        req += [t + ":volume", t + ":orientation"]
    req += ["flip:double", "mirror:reflection", "rotate:isometry", "add_midpoints_edges:centroid", "add_midpoints_faces:centroid",
            "add_midpoints_volumes:centroid", "add_midpoints_edges:layout", "add_midpoints_faces:layout",
            "add_midpoints_volumes:layout", "convert:layout", "merge:corners", "merge:separation", "merge:count", "merge:count:coarse", "merge:count:higher-order",
            "container:volume", "container:held-mesh-attributes", "container:concatenate-held-meshes", "fill_between:volume"]
    return req


SPEC = {
    "required_units": _required(),
    "rule": ("generators with seeded arguments (bounds, point counts, section angles, triangle corners, Lagrange orders 2..5) and "
             "random programs of 3..6 transformations applicable to the current cell type (rotate, translate, mirror, double "
             "flip, triangulate modes 0/3, expand, revolve incl. closing 360 deg, order conversion, concatenate, merge with "
             "decimals None/8/5, disconnect); every call is judged by its post-hook against oracle-side signed cell volumes, "
             "intended measures, centroid and element-layout formulas; a configuration is distinct by program (sequence of "
             "tool names) or (tool, cell type, clause)"),
    "assumptions": ["oracle volumes use the vertex sub-cell of higher-order cells (their extra nodes are checked separately)",
                    "revolve: volume of the polygonal sweep = sum sin(dphi) * integral of r dA (derived in vmon/monitors/mesh.py)"],
    "jobs": {"quick": 6, "thorough": 16},
}
