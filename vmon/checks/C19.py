"""C19 - projection and post-processing return the quantities they name.

Reference monitor on tools.project / extrapolate / topoints, the stress evaluators of the solid bodies, the cell data the
views hand to pyvista, the job's export functions and tools.force / moment: every result is compared with its definition
written out with numpy (per-cell quadrature means, P F^T, sums over boundary points, ...).
"""
import copy
import warnings
import zlib

import numpy as np

from .. import gen
from ..util import Poly, maxabs, monomials_tensor, monomials_total, rng_for

VOIGT = [(0, 0), (1, 1), (2, 2), (0, 1), (1, 2), (0, 2)]
VOIGT2 = [(0, 0), (1, 1), (0, 1)]
EPS = float(np.finfo(float).eps)
# values of tensor order 3 and 4 (e.g. a projected elasticity tensor): "reverse the first two axes" and "reverse all tensor axes",
# "(size, q, c)" and "(*shape, q, c)" only differ from order 3 on; all axis lengths pairwise different where possible
HIGH = ((2, 3, 4), (2, 3, 2, 3))
MATS = ["NeoHooke", "NeoHookeCompressible", "Yeoh(tensortrax)", "MooneyRivlin(jax)", "OgdenRoxburgh", "LinearElasticLargeStrain"]
# length units (a body of metres, micrometres, hundreds of metres) and moduli (MPa-like, Pa, a very soft gel in MPa) of the stress cases
LENGTHS = (1.0, 3e-6, 250.0)
MODULI = (1.0, 2e9, 3e-7)


def own_F(cont, kind):
    """Deformation gradient of the displacement field of a container at the quadrature points, written out from the nodal values the case
    stored, the connectivity and the region's shape-function gradients (judged by C04): H_ij = sum_a u_ai dh_a/dX_j, F = 1 + H; a plane-
    strain field is padded with F_33 = 1, an axisymmetric one (values (u_z, u_r), points (z, r)) with F_33 = 1 + u_r / r, both interpolated
    with the shape functions. The references of the stress / view / export clauses take their kinematics from here, not from
    FieldContainer.extract() (the routine behind the reported quantities)."""
    fld = cont[0]
    reg = fld.region
    cells = reg.mesh.cells
    u = np.asarray(fld.values, dtype=float)
    dhdX = np.asarray(reg.dhdX)  # (a, j, q, c)
    nq, nc = dhdX.shape[2], cells.shape[0]
    d = u.shape[1]
    H = np.zeros((d, d, nq, nc))
    for a in range(cells.shape[1]):
        ua = u[cells[:, a]]  # (c, i)
        for i in range(d):
            for j in range(d):
                H[i, j] += ua[:, i] * dhdX[a, j]
    if kind in ("planestrain", "axisymmetric"):
        H = np.pad(H, ((0, 1), (0, 1), (0, 0), (0, 0)))
        d = 3
    if kind == "axisymmetric":
        h = np.asarray(reg.h)
        h = h[..., 0] if h.ndim == 3 else h  # (a, q)
        ur = np.einsum("aq,ca->qc", h, u[:, 1][cells])
        r = np.einsum("aq,ca->qc", h, np.asarray(reg.mesh.points)[:, 1][cells])
        H[2, 2] = ur / r
    return H + np.eye(d).reshape(d, d, 1, 1)


def own_weights(reg):
    """The weights of the region's rule at the rule's points. For a Gauss-Legendre rule (every point a tuple of the one-dimensional Gauss
    points) they are products of numpy's one-dimensional weights, matched to the points (w_q = prod_i w1[x1 == xi_qi]): the order of the
    weights must be the order of the points the data are given at. Other rules (simplex regions): the rule's own weights."""
    pts = np.asarray(reg.quadrature.points, dtype=float)
    nq, dim = pts.shape
    n1 = int(round(nq ** (1.0 / dim)))
    if n1 ** dim == nq:
        x1, w1 = np.polynomial.legendre.leggauss(n1)
        idx = np.abs(pts[:, :, None] - x1).argmin(-1)
        if maxabs(pts - x1[idx]) < 1e-12:
            return w1[idx].prod(1)
    return np.asarray(reg.quadrature.weights)


def own_dV(reg):
    """The differential volumes w_q det(dX/dr) of every cell at the rule's points (q, c), from the point coordinates, the connectivity,
    the element's shape-function gradients at the rule's points and the weights of own_weights()."""
    if "MINI" in type(reg.element).__name__:
        # (the geometry of a MINI cell is the one of its corner points, the bubble point carries no position: the region's own dV)
        return np.broadcast_to(reg.dV, (reg.quadrature.npoints, reg.mesh.ncells))
    pts = np.asarray(reg.quadrature.points, dtype=float)
    X = np.asarray(reg.mesh.points)[reg.mesh.cells]  # (c, a, i)
    w = own_weights(reg)
    dV = np.zeros((len(pts), X.shape[0]))
    for q, xi in enumerate(pts):
        dhdr = np.asarray(reg.element.gradient(xi))  # (a, j)
        dV[q] = w[q] * np.linalg.det(np.einsum("cai,aj->cij", X, dhdr))
    return dV


def fe_function(rng, reg, mesh, fam, shape):
    """Nodal values of a random FE function of the region's own space (any nodal values are one) and its quadrature values."""
    import felupe as fem
    size = int(np.prod(shape)) if shape else 1
    vals = rng.standard_normal((mesh.npoints, size))
    if gen.FAMILIES.get(fam, {}).get("mini"):
        vals[mesh.cells[:, -1]] *= 0.1
    fld = fem.Field(reg, dim=size, values=vals)
    vq = fld.interpolate()  # (size, q, c)
    return vals.reshape(mesh.npoints, *shape), vq.reshape(*shape, *vq.shape[1:])


def attached_cells(mesh):
    """Number of cells attached to every point, counted with a loop over the connectivity."""
    cnt = np.zeros(mesh.npoints)
    for cell in mesh.cells:
        for pnt in cell:
            cnt[pnt] += 1
    return cnt


def naive_points(tool, vq, reg):
    """What project / extrapolate / topoints are documented to return for quadrature data (*shape, q, c), written out with loops over
    the cells and dense algebra: the L2 projection on the region's space (mass matrix and right-hand side summed point by point,
    dense solve), the collocation solve per cell (the multilinear field of a Gauss-Legendre cell that takes the given values at the
    quadrature points) averaged over the attached cells, the q-th value moved to the q-th point of the cell and averaged. Only the
    region's shape-function values at its quadrature points (judged by C04) are taken from the library (the measure: own_dV). Rows of points
    without cells are zero."""
    mesh = reg.mesh
    shape = vq.shape[:-2]
    nq, nc = vq.shape[-2:]
    npc = mesh.cells.shape[1]
    h = np.asarray(reg.h)
    h = h[..., 0] if h.ndim == 3 else h  # (a, q)
    cnt = attached_cells(mesh)
    has = cnt > 0
    ex = (slice(None), *([None] * len(shape)))
    out = np.zeros((mesh.npoints, *shape))
    if tool == "project":
        dV = own_dV(reg)
        M = np.zeros((mesh.npoints, mesh.npoints))
        b = np.zeros((mesh.npoints, *shape))
        for c, cell in enumerate(mesh.cells):
            for q in range(nq):
                M[np.ix_(cell, cell)] += np.outer(h[:, q], h[:, q]) * dV[q, c]
                b[cell] += h[:, q][ex] * vq[..., q, c][None] * dV[q, c]
        ix = np.flatnonzero(has)
        out[ix] = np.linalg.solve(M[np.ix_(ix, ix)], b[ix].reshape(len(ix), -1)).reshape(len(ix), *shape)
        return out
    if tool == "extrapolate":
        Hinv = np.linalg.inv(h.T)  # value at quadrature point q = sum_a h[a, q] v_a
        percell = [np.tensordot(Hinv, np.moveaxis(vq[..., c], -1, 0), 1) for c in range(nc)]
    else:
        percell = [np.moveaxis(vq[..., :npc, c], -1, 0) for c in range(nc)]
    for c, cell in enumerate(mesh.cells):
        for a, pnt in enumerate(cell):
            out[pnt] += percell[c][a]
    out[has] /= cnt[has][ex]
    return out


def linear_tensor_clauses(run, rng, reg, mesh, label, shapes, unit, cfg):
    """extrapolate() on Gauss-Legendre cells with three points per axis (bi/tri-quadratic templates, RegionLagrange(2)) and on any
    other one with an exact collocation: a tensor-valued field that is linear in the coordinates (a member of every isoparametric
    space, multilinear on any cell shape) is recovered at the points, averaged or per cell on the disconnected mesh."""
    import felupe as fem
    X = mesh.points
    Xn = (X - X.mean(0)) / float(np.ptp(X, axis=0).max())  # in units of the body
    nc, npc = mesh.cells.shape
    for shape in shapes:
        size = int(np.prod(shape))
        nodal = 1.0 + np.tensordot(Xn, rng.standard_normal((X.shape[1], *shape)), 1)
        vq = fem.Field(reg, dim=size, values=nodal.reshape(-1, size)).interpolate()
        vq = vq.reshape(*shape, *vq.shape[1:])
        got = fem.tools.extrapolate(vq, reg)
        run.compare("post.extrapolate", "template=%s clause=reproduces-linear-tensor-field" % label, maxabs(got.reshape(nodal.shape) - nodal) / maxabs(nodal), 1e-11,
                    "extrapolate() does not reproduce a tensor-valued field that is linear in the coordinates (%s)" % label, unit=unit,
                    config=(*cfg, "linear-tensor", shape))
        got = fem.tools.extrapolate(vq, reg, average=False).reshape(nc, npc, *shape)
        run.compare("post.extrapolate", "template=%s clause=linear-tensor-field,average=False" % label, maxabs(got - nodal[mesh.cells]) / maxabs(nodal), 1e-11,
                    "extrapolate(average=False) does not return the values of a linear tensor field at the points of every cell (%s)" % label,
                    unit=unit + ":average=False", config=(*cfg, "linear-tensor", "average=False", shape))
        if len(shape) > 2:
            run.units["extrapolate:tensor-order:%d" % len(shape)] += 1


def case_project(fam, rep):
    def fn(run):
        import felupe as fem
        rng = rng_for(run.seed, "C19", "project", fam, rep)
        mesh, _ = gen.build_mesh(fam, ["distorted", "curved", "affine"][rep % 3] if not fam.startswith(("tri", "tet")) else "affine", rng)
        # a part of a few millimetres modelled in metres (and a large one): the projection must not depend on the length unit
        scale = [1.0, 4e-3, 250.0][(rep + len(fam)) % 3]
        mesh = mesh.copy(points=mesh.points * scale)
        run.units["project:length-scale:%g" % scale] += 1
        if fam in ("triangle6", "triangleMINI"):
            reg = gen.make_region(fam, mesh, quadrature=fem.TriangleQuadrature(order=5))  # project() refuses lower rules loudly
        elif fam in ("tetra10", "tetraMINI"):
            reg = gen.make_region(fam, mesh, quadrature=fem.TetrahedronQuadrature(order=5))
        else:
            reg = gen.make_region(fam, mesh)
        for shape in ((), (3,), (2, 3), HIGH[(rep + len(fam)) % 2]):
            nodal, vq = fe_function(rng, reg, mesh, fam, shape)
            got = fem.project(vq, reg)
            run.compare("post.project", "template=%s clause=reproduces-fe-function" % fam, maxabs(got.reshape(nodal.shape) - nodal) / maxabs(nodal), 1e-10,
                        "project() of the quadrature values of an FE function does not return its nodal values (%s)" % fam,
                        unit="project:reproduction:" + fam, config=(fam, "project", shape),
                        sample={"template": fam, "tensor_shape": list(shape), "points": int(mesh.npoints)})
            # arbitrary quadrature data: the volume integral is preserved
            data = rng.standard_normal(vq.shape)
            pr = fem.project(data, reg)
            size = int(np.prod(shape)) if shape else 1
            back = fem.Field(reg, dim=size, values=pr.reshape(mesh.npoints, size)).interpolate().reshape(data.shape)
            dV = own_dV(reg)  # (the measure of the integral is the reference's own: weights matched to the rule's points, det dX/dr)
            i0 = (data * dV).sum((-2, -1))
            i1 = (back * dV).sum((-2, -1))
            run.compare("post.project", "template=%s clause=integral-preserving" % fam, maxabs(i1 - i0) / max(maxabs(np.abs(data) * dV).sum() if False else float((np.abs(data) * dV).sum()), 1e-300),
                        1e-11, "project() does not preserve the volume integral (%s)" % fam, unit="project:integral:" + fam, config=(fam, "integral", shape))
            if len(shape) > 2:
                run.units["project:tensor-order:%d" % len(shape)] += 1
    return fn


def case_flags(fam, rep):
    """The average / mean / dV flags of project, extrapolate and topoints, with tensor shapes that are not square."""
    def fn(run):
        import felupe as fem
        rng = rng_for(run.seed, "C19", "flags", fam, rep)
        geo = "affine" if fam.startswith(("tri", "tet")) else ["distorted", "affine"][rep % 2]
        mesh, _ = gen.build_mesh(fam, geo, rng)
        reg = gen.make_region(fam, mesh)
        nq, nc, npc = reg.quadrature.npoints, mesh.ncells, mesh.cells.shape[1]
        w = own_weights(reg)  # (numpy's Gauss-Legendre weights matched to the rule's points; simplex rules: the rule's own)
        mon = "post.flags"
        for shape in ((), (2, 3), (3,), HIGH[(rep + len(fam)) % 2]):
            nodal, vq = fe_function(rng, reg, mesh, fam, shape)
            percell = nodal[mesh.cells]  # (c, a, *shape)
            linear = fam in ("quad", "hexahedron")
            mini = fam.endswith("MINI")  # (their default rules are too low for project() without mean=True: documented, loud)
            # --- average=False: values per cell corner on the disconnected mesh (no averaging across cells)
            if linear:
                got = fem.tools.extrapolate(vq, reg, average=False).reshape(nc, npc, *shape)
                run.compare(mon, "tool=extrapolate template=%s clause=average=False" % fam, maxabs(got - percell) / maxabs(nodal), 1e-11,
                            "extrapolate(average=False) does not return the field's values at the corners of every cell", unit="flags:extrapolate:average=False",
                            config=(fam, "extrapolate", "average=False", shape))
            if fam not in ("triangle", "tetra") and not mini:
                got = fem.project(vq, reg, average=False).reshape(nc, npc, *shape)
                run.compare(mon, "tool=project template=%s clause=average=False" % fam, maxabs(got - percell) / maxabs(nodal), 1e-10,
                            "project(average=False) does not return the field's values at the points of every cell", unit="flags:project:average=False",
                            config=(fam, "project", "average=False", shape))
            data = rng.standard_normal((*shape, nq, nc))
            if nq >= npc:
                got = fem.topoints(data, reg, average=False).reshape(nc, npc, *shape)
                ref = np.moveaxis(np.moveaxis(data[..., :npc, :], -1, 0), -1, 1)
                run.compare(mon, "tool=topoints template=%s clause=average=False" % fam, maxabs(got - ref), 1e-14,
                            "topoints(average=False) does not move the quadrature-point values to the cell's points", unit="flags:topoints:average=False",
                            config=(fam, "topoints", "average=False", shape))
            # --- mean=True: quadrature-weighted cell means, averaged over the attached cells
            cm = np.moveaxis((data * w.reshape(-1, 1)).sum(-2) / w.sum(), -1, 0)  # (c, *shape)
            ref = np.zeros((mesh.npoints, *shape))
            cnt = np.zeros(mesh.npoints)
            for c in range(nc):
                for pnt in mesh.cells[c]:
                    ref[pnt] += cm[c]
                    cnt[pnt] += 1
            ref /= cnt.reshape(-1, *([1] * len(shape)))
            for name, fnc in (("extrapolate", fem.tools.extrapolate), ("project", fem.project), ("topoints", fem.topoints)):
                got = fnc(data, reg, mean=True)
                run.compare(mon, "tool=%s template=%s clause=mean=True" % (name, fam), maxabs(got.reshape(ref.shape) - ref), 1e-13,
                            "%s(mean=True) is not the mean over the attached cells of the weighted cell means" % name, unit="flags:%s:mean=True" % name,
                            config=(fam, name, "mean=True", shape))
                got = fnc(data, reg, mean=True, average=False).reshape(nc, npc, *shape)
                run.compare(mon, "tool=%s template=%s clause=mean=True,average=False" % (name, fam), maxabs(got - cm[:, None]), 1e-13,
                            "%s(mean=True, average=False) is not the weighted cell mean at every point of the cell" % name,
                            unit="flags:%s:mean=True,average=False" % name, config=(fam, name, "mean+noaverage", shape))
            # --- an explicit dV: the projection that preserves the integral with that measure
            if fam not in ("triangle", "tetra") and not mini:
                dVw = reg.dV * rng.uniform(0.5, 2, reg.dV.shape)
                pr = fem.project(data, reg, dV=dVw)
                size = int(np.prod(shape)) if shape else 1
                back = fem.Field(reg, dim=size, values=pr.reshape(mesh.npoints, size)).interpolate().reshape(data.shape)
                i0, i1 = (data * dVw).sum((-2, -1)), (back * dVw).sum((-2, -1))
                run.compare(mon, "tool=project template=%s clause=dV-argument" % fam, maxabs(i1 - i0) / float((np.abs(data) * dVw).sum()), 1e-11,
                            "project(dV=w) does not preserve the integral with respect to the given measure", unit="flags:project:dV", config=(fam, "project", "dV", shape))
            if len(shape) > 2:
                run.units["flags:tensor-order:%d" % len(shape)] += 1
        # --- three Gauss points per axis: extrapolation (averaged and per cell) of linear tensor fields on any cell shape
        if fam in ("quad9", "hexahedron27"):
            linear_tensor_clauses(run, rng, reg, mesh, fam, ((2, 3), HIGH[rep % 2]), "flags:extrapolate:quadratic", (fam, "flags", geo))
        # --- linear simplex regions: the one-point default rule is upgraded (documented), a second-order rule is used as is
        if fam in ("triangle", "tetra"):
            Q2 = (fem.TriangleQuadrature if fam == "triangle" else fem.TetrahedronQuadrature)(order=2)
            r2 = gen.make_region(fam, mesh, quadrature=Q2)
            for shape in ((), (2, 3)):
                nodal, vq2 = fe_function(rng, r2, mesh, fam, shape)
                got = fem.project(vq2, r2)
                run.compare(mon, "tool=project template=%s clause=second-order-rule" % fam, maxabs(got.reshape(nodal.shape) - nodal) / maxabs(nodal), 1e-10,
                            "project() on a linear simplex region with a second-order rule does not reproduce the FE function", unit="flags:project:simplex",
                            config=(fam, "project", "order2", shape))
                # cell-constant data on the default one-point rule: projected field has the same integral
                data1 = rng.standard_normal((*shape, 1, nc))
                pr = fem.project(data1, reg)
                size = int(np.prod(shape)) if shape else 1
                back = fem.Field(r2, dim=size, values=pr.reshape(mesh.npoints, size)).interpolate().reshape(*shape, Q2.npoints, nc)
                i0 = (data1 * own_dV(reg)).sum((-2, -1))
                i1 = (back * own_dV(r2)).sum((-2, -1))
                run.compare(mon, "tool=project template=%s clause=one-point-rule-upgrade" % fam, maxabs(i1 - i0) / float((np.abs(data1) * reg.dV).sum()), 1e-11,
                            "project() of cell-constant data on the default one-point rule does not preserve the integral", unit="flags:project:simplex",
                            config=(fam, "project", "one-point", shape))
                tp = fem.topoints(data1, reg)
                cm1 = np.moveaxis(data1[..., 0, :], -1, 0)
                ref = np.zeros((mesh.npoints, *shape))
                cnt = np.zeros(mesh.npoints)
                for c in range(nc):
                    for pnt in mesh.cells[c]:
                        ref[pnt] += cm1[c]
                        cnt[pnt] += 1
                ref /= cnt.reshape(-1, *([1] * len(shape)))
                run.compare(mon, "tool=topoints template=%s clause=single-quadrature-point" % fam, maxabs(tp.reshape(ref.shape) - ref), 1e-13,
                            "topoints() of one value per cell is not the mean over the attached cells", unit="flags:topoints:single-point", config=(fam, "topoints", "single", shape))
                # the flags together with the upgraded rule: no averaging across cells (the projection of a cell constant on the cell's
                # own space is that constant at its points), the second-order region per cell, and a measure given per cell
                got = fem.project(data1, reg, average=False).reshape(nc, npc, *shape)
                run.compare(mon, "tool=project template=%s clause=one-point-rule-upgrade,average=False" % fam, maxabs(got - cm1[:, None]) / maxabs(cm1), 1e-10,
                            "project(average=False) of cell-constant data on the default one-point rule is not the cell's constant at each of its points",
                            unit="flags:project:simplex:average=False", config=(fam, "project", "one-point", "average=False", shape))
                got = fem.project(vq2, r2, average=False).reshape(nc, npc, *shape)
                run.compare(mon, "tool=project template=%s clause=second-order-rule,average=False" % fam, maxabs(got - nodal[mesh.cells]) / maxabs(nodal), 1e-10,
                            "project(average=False) on a linear simplex region with a second-order rule does not return the field's values at the points of every cell",
                            unit="flags:project:simplex:average=False", config=(fam, "project", "order2", "average=False", shape))
                wc = reg.dV * rng.uniform(0.5, 2, reg.dV.shape)  # (1, c): one weight per cell, as the region's own dV
                pr = fem.project(data1, reg, dV=wc)
                back = fem.Field(r2, dim=size, values=pr.reshape(mesh.npoints, size)).interpolate().reshape(*shape, Q2.npoints, nc)
                i0 = (data1 * wc).sum((-2, -1))
                i1 = (back.mean(-2) * wc[0]).sum(-1)  # (the points of the second-order rules carry equal weights)
                run.compare(mon, "tool=project template=%s clause=one-point-rule-upgrade,dV-argument" % fam, maxabs(i1 - i0) / float((np.abs(data1) * wc).sum()), 1e-11,
                            "project(dV=w) of cell-constant data on the default one-point rule does not preserve the sum of cell weight times cell mean",
                            unit="flags:project:simplex:dV", config=(fam, "project", "one-point", "dV", shape))
    return fn


def case_simplex_upgrade(fam, rep):
    """All six entries of project()'s table of upgraded rules: a region of every simplex element with a one-point rule (cell-constant
    data): the projected field has the integral of the data, without averaging it is the cell's constant at the points of each cell."""
    def fn(run):
        import felupe as fem
        rng = rng_for(run.seed, "C19", "simplex-upgrade", fam, rep)
        mesh, _ = gen.build_mesh(fam, "affine", rng)
        tri = mesh.dim == 2
        Q = fem.TriangleQuadrature if tri else fem.TetrahedronQuadrature
        r1 = gen.make_region(fam, mesh, quadrature=Q(order=1))
        # the space judged with a rule that integrates it (second order for the linear elements, fifth order else: as documented)
        rj = gen.make_region(fam, mesh, quadrature=Q(order=2 if fam in ("triangle", "tetra") else 5))
        nc, npc = mesh.cells.shape
        nb = 1 if gen.FAMILIES[fam].get("mini") else 0
        for shape in ((), (2, 3)):
            size = int(np.prod(shape)) if shape else 1
            data1 = rng.standard_normal((*shape, 1, nc))
            pr = fem.project(data1, r1)
            back = fem.Field(rj, dim=size, values=pr.reshape(mesh.npoints, size)).interpolate().reshape(*shape, rj.quadrature.npoints, nc)
            i0 = (data1 * own_dV(r1)).sum((-2, -1))
            i1 = (back * own_dV(rj)).sum((-2, -1))
            run.compare("post.flags", "tool=project template=%s[one-point rule] clause=rule-upgrade-integral" % fam, maxabs(i1 - i0) / float((np.abs(data1) * r1.dV).sum()), 1e-11,
                        "project() of cell-constant data on a %s region with a one-point rule does not preserve the integral" % fam,
                        unit="flags:project:upgrade:" + fam, config=(fam, "upgrade", "integral", shape))
            cm1 = np.moveaxis(data1[..., 0, :], -1, 0)
            ref = np.repeat(cm1[:, None], npc, axis=1)
            if nb:
                ref[:, -nb:] = 0.0  # a bubble is a hierarchical unknown: zero for a constant
            got = fem.project(data1, r1, average=False).reshape(nc, npc, *shape)
            # (the small bubble function makes the MINI spaces ill-conditioned: 1.5e-11 observed on tetraMINI, 3e-13 on the others)
            run.compare("post.flags", "tool=project template=%s[one-point rule] clause=rule-upgrade,average=False" % fam, maxabs(got - ref) / maxabs(cm1), 1e-8 if nb else 1e-10,
                        "project(average=False) of cell-constant data on a %s region with a one-point rule is not the cell's constant at its points" % fam,
                        unit="flags:project:upgrade:average=False", config=(fam, "upgrade", "average=False", shape))
    return fn


def case_extrapolate_lagrange(rep):
    """Gauss-Legendre quad / hexahedron regions of higher order (arbitrary-order Lagrange): a multilinear field sampled at the
    points is recovered from its quadrature-point values."""
    def fn(run):
        import felupe as fem
        rng = rng_for(run.seed, "C19", "extrapolate-lagrange", rep)
        for dim in (2, 3):
            for order in (1, 2, 3, 4)[: (4 if dim == 2 else 3)]:
                mesh = gen.lagrange_mesh(order, dim)
                reg = fem.RegionLagrange(mesh, order=order, dim=dim)
                p = Poly(rng, dim, monomials_tensor(dim, 1))
                nodal = p(mesh.points)
                vq = fem.Field(reg, dim=1, values=nodal.reshape(-1, 1)).interpolate()
                got = fem.tools.extrapolate(vq, reg).ravel()
                if order == 1:
                    # the same region with the rule in tensor-product order (documented permute=False): the quadrature points are
                    # not listed in the order of the cell's nodes
                    Rp = {2: fem.RegionQuad, 3: fem.RegionHexahedron}[dim]
                    mp = gen.build_mesh("quad" if dim == 2 else "hexahedron", "distorted", rng)[0]
                    rp = Rp(mp, quadrature=fem.GaussLegendre(order=1, dim=dim, permute=False))
                    nodal_p = p(mp.points)
                    got_p = fem.tools.extrapolate(fem.Field(rp, dim=1, values=nodal_p.reshape(-1, 1)).interpolate(), rp).ravel()
                    run.compare("post.extrapolate", "template=GaussLegendre(permute=False) clause=reproduces-multilinear", maxabs(got_p - nodal_p) / max(maxabs(nodal_p), 1e-300),
                                1e-10, "extrapolate() on a region whose rule is in tensor-product order (permute=False) does not reproduce a multilinear field",
                                unit="extrapolate:permute=False", config=("extrapolate-permute-false", dim))
                    # the operations that do not pair points with nodes are exact on that region (and tell a new error on this
                    # template from the recorded one): the projection of an FE function and the means of the mean=True flag
                    nodal_t, vq_t = fe_function(rng, rp, mp, None, (2, 3))
                    run.compare("post.project", "template=GaussLegendre(permute=False) tool=project clause=reproduces-fe-function",
                                maxabs(fem.project(vq_t, rp) - nodal_t) / maxabs(nodal_t), 1e-10,
                                "project() on a region whose rule is in tensor-product order (permute=False) does not return the nodal values of an FE function",
                                unit="project:permute=False", config=("project-permute-false", dim))
                    data_t = rng.standard_normal(vq_t.shape)
                    wq = own_weights(rp)
                    ref_t = naive_points("topoints", np.repeat(((data_t * wq.reshape(-1, 1)).sum(-2) / wq.sum())[..., None, :], mp.cells.shape[1], axis=-2), rp)
                    for name, fnc in (("extrapolate", fem.tools.extrapolate), ("project", fem.project), ("topoints", fem.topoints)):
                        run.compare("post.flags", "tool=%s template=GaussLegendre(permute=False) clause=mean=True" % name, maxabs(fnc(data_t, rp, mean=True) - ref_t), 1e-13,
                                    "%s(mean=True) on a region with a permute=False rule is not the mean over the attached cells of the weighted cell means" % name,
                                    unit="flags:permute=False:mean=True", config=("mean-permute-false", name, dim))
                grp = "order<=2" if order <= 2 else "order>=3"
                run.compare("post.extrapolate", "template=RegionLagrange(%s) clause=reproduces-multilinear" % grp, maxabs(got - nodal) / max(maxabs(nodal), 1e-300), 1e-10,
                            "extrapolate() on a RegionLagrange of order %d (dim %d) does not reproduce a multilinear field at the points" % (order, dim),
                            unit="extrapolate:lagrange:" + grp, config=("extrapolate-lagrange", order, dim))
                # ---- the arbitrary-order template in the other tools (all orders; these are exact, so that an error on an order >= 3
                # region that is not the recorded one of extrapolate() gets its own key): on the box and on an affine image of it
                lab = "RegionLagrange(order=%d,dim=%d)" % (order, dim)
                if (rep + order) % 2:
                    A, t = gen.random_affine(rng, dim)
                    mesh = mesh.copy(points=mesh.points @ A.T + t)
                    reg = fem.RegionLagrange(mesh, order=order, dim=dim)
                nq, nc, npc = reg.quadrature.npoints, mesh.ncells, mesh.cells.shape[1]
                for shape in ((2, 3),) if order > 1 else ((2, 3), HIGH[rep % 2]):
                    size = int(np.prod(shape))
                    nodal_t, vq_t = fe_function(rng, reg, mesh, None, shape)
                    run.compare("post.project", "template=%s tool=project clause=reproduces-fe-function" % lab, maxabs(fem.project(vq_t, reg) - nodal_t) / maxabs(nodal_t), 1e-10,
                                "project() of the quadrature values of an FE function does not return its nodal values (%s)" % lab,
                                unit="project:reproduction:lagrange:" + grp, config=(lab, "project", shape))
                    got_t = fem.project(vq_t, reg, average=False).reshape(nc, npc, *shape)
                    run.compare("post.flags", "tool=project template=%s clause=average=False" % lab, maxabs(got_t - nodal_t[mesh.cells]) / maxabs(nodal_t), 1e-10,
                                "project(average=False) does not return the field's values at the points of every cell (%s)" % lab,
                                unit="flags:project:average=False:lagrange", config=(lab, "project", "average=False", shape))
                    data = rng.standard_normal(vq_t.shape)
                    pr = fem.project(data, reg)
                    back = fem.Field(reg, dim=size, values=pr.reshape(mesh.npoints, size)).interpolate().reshape(data.shape)
                    dVo = own_dV(reg)
                    i0, i1 = (data * dVo).sum((-2, -1)), (back * dVo).sum((-2, -1))
                    run.compare("post.project", "template=%s tool=project clause=integral-preserving" % lab, maxabs(i1 - i0) / float((np.abs(data) * dVo).sum()), 1e-11,
                                "project() does not preserve the volume integral (%s)" % lab, unit="project:integral:lagrange:" + grp, config=(lab, "integral", shape))
                    got_t = fem.topoints(data, reg, average=False).reshape(nc, npc, *shape)
                    run.compare("post.flags", "tool=topoints template=%s clause=average=False" % lab, maxabs(got_t - np.moveaxis(np.moveaxis(data, -1, 0), -1, 1)), 1e-14,
                                "topoints(average=False) does not move the quadrature-point values to the cell's points (%s)" % lab,
                                unit="flags:topoints:average=False:lagrange", config=(lab, "topoints", "average=False", shape))
                    run.compare("post.topoints", "template=%s clause=average" % lab, maxabs(fem.topoints(data, reg) - naive_points("topoints", data, reg)), 1e-13,
                                "topoints(average) is not the mean over the attached cells (%s)" % lab, unit="topoints:average:lagrange", config=(lab, "topoints", shape))
                if order <= 2:
                    linear_tensor_clauses(run, rng, reg, mesh, lab, ((2, 3), HIGH[(rep + order) % 2]), "extrapolate:lagrange:tensor", (lab, "extrapolate"))
    return fn


def case_extrapolate(fam, rep):
    def fn(run):
        import felupe as fem
        rng = rng_for(run.seed, "C19", "extrapolate", fam, rep)
        quadratic = fam in ("quad9", "hexahedron27")
        mesh, _ = gen.build_mesh(fam, ["undistorted", "distorted", "affine"][rep % 3] if not quadratic else ["undistorted", "affine"][rep % 2], rng)
        reg = gen.make_region(fam, mesh)
        d = mesh.dim
        p = [Poly(rng, d, monomials_tensor(d, 1)) for _ in range(3)]  # multilinear
        if quadratic:
            # bi/tri-quadratic templates (three points per axis, VTK node order): a multilinear polynomial on a parallelepiped grid
            for k in range(3):
                f = p[k]
                fld = fem.Field(reg, dim=1, values=f(mesh.points).reshape(-1, 1))
                got = fem.tools.extrapolate(fld.interpolate(), reg).ravel()
                run.compare("post.extrapolate", "template=%s clause=reproduces-multilinear-polynomial" % fam, maxabs(got - f(mesh.points)) / max(maxabs(f(mesh.points)), 1e-300), 1e-11,
                            "extrapolate() does not reproduce a multilinear polynomial on a %s region" % fam, unit="extrapolate:" + fam, config=(fam, "extrapolate", k))
            # tensor-valued linear fields, averaged and per cell (tensor orders 2 and 3 / 4)
            linear_tensor_clauses(run, rng, reg, mesh, fam, ((2, 3), HIGH[rep % 2]), "extrapolate:" + fam + ":tensor", (fam, "extrapolate"))
            return
        # multilinear in the reference coordinates = any FE function of the (bi/tri)linear element; sample one given on the points
        for shape in ((), (3,), (3, 3), *HIGH):
            nodal, vq = fe_function(rng, reg, mesh, fam, shape)
            got = fem.tools.extrapolate(vq, reg)
            run.compare("post.extrapolate", "template=%s clause=reproduces-multilinear" % fam, maxabs(got.reshape(nodal.shape) - nodal) / maxabs(nodal), 1e-11,
                        "extrapolate() does not reproduce a multilinear field at the points (%s)" % fam, unit="extrapolate:" + fam,
                        config=(fam, "extrapolate", shape))
            if len(shape) > 2:
                run.units["extrapolate:tensor-order:%d" % len(shape)] += 1
        if rep % 3 == 0:
            f = p[0]
            fld = fem.Field(reg, dim=1, values=f(mesh.points).reshape(-1, 1))
            got = fem.tools.extrapolate(fld.interpolate(), reg).ravel()
            run.compare("post.extrapolate", "template=%s clause=reproduces-multilinear-polynomial" % fam, maxabs(got - f(mesh.points)) / max(maxabs(f(mesh.points)), 1e-300), 1e-11,
                        "extrapolate() does not reproduce a multilinear polynomial on an undistorted grid", unit="extrapolate:" + fam)
    return fn


def case_topoints(fam, rep):
    def fn(run):
        import felupe as fem
        rng = rng_for(run.seed, "C19", "topoints", fam, rep)
        mesh, _ = gen.build_mesh(fam, "distorted", rng)
        reg = gen.make_region(fam, mesh)
        nq, nc = reg.quadrature.npoints, mesh.ncells
        npc = mesh.cells.shape[1]
        for shape in ((), (3,), (3, 3), *HIGH):
            vals = rng.standard_normal((*shape, nq, nc))
            cnt = np.zeros(mesh.npoints)
            ref = np.zeros((mesh.npoints, *shape))
            w = own_weights(reg)
            cm = (vals * w.reshape(-1, 1)).sum(-2) / w.sum()
            ref2 = np.zeros((mesh.npoints, *shape))
            for c in range(nc):
                for a, pnt in enumerate(mesh.cells[c]):
                    if a < nq:
                        ref[pnt] += vals[..., a, c]
                    ref2[pnt] += cm[..., c]
                    cnt[pnt] += 1
            ref /= cnt.reshape(-1, *([1] * len(shape)))
            ref2 /= cnt.reshape(-1, *([1] * len(shape)))
            if nq >= npc:
                got = fem.topoints(vals, reg)
                run.compare("post.topoints", "template=%s clause=average" % fam, maxabs(got - ref), 1e-13,
                            "topoints(average) is not the mean over the attached cells", unit="topoints:average", config=(fam, "average", shape))
                if len(shape) > 2:
                    run.units["topoints:tensor-order:%d" % len(shape)] += 1
            got2 = fem.topoints(vals, reg, mean=True)
            run.compare("post.topoints", "template=%s clause=mean" % fam, maxabs(got2 - ref2), 1e-13,
                        "topoints(mean=True) is not the mean over the attached cells of the cell means", unit="topoints:mean", config=(fam, "mean", shape))
    return fn


def case_cellless(which, fam, rep):
    """Points without cells (the centre point of a multi-point constraint appended to the mesh, the mid-side points of a quadratic
    mesh under a linear template): the tools return the named quantity at the points that have cells and numbers at the others."""
    def fn(run):
        import felupe as fem
        rng = rng_for(run.seed, "C19", "cellless", which, fam, rep)
        if which == "appended-point":
            mesh, _ = gen.build_mesh(fam, "distorted", rng)
            X = mesh.points
            mesh = mesh.copy()
            mesh.update(points=np.vstack([X, X.max(0) + 0.5 * np.ptp(X, axis=0)]))  # the documented way to add a centre point
            reg = gen.make_region(fam, mesh)
        else:
            mesh, _ = gen.build_mesh({"quad": "quad8", "hexahedron": "hexahedron20"}[fam], "distorted", rng)
            reg = gen.make_region(fam, mesh)  # the linear template takes the corner points of the quadratic cells
        m = reg.mesh
        cnt = attached_cells(m)
        has = cnt > 0
        if has.all():
            raise RuntimeError("workload: the mesh has no point without cells")
        nq, nc, npc = reg.quadrature.npoints, m.ncells, m.cells.shape[1]
        lab = "%s[%s]" % (fam, which)
        for shape in ((), (2, 3)):
            size = int(np.prod(shape)) if shape else 1
            vals = rng.standard_normal((m.npoints, size))
            vq = fem.Field(reg, dim=size, values=vals).interpolate()
            vq = vq.reshape(*shape, *vq.shape[1:])
            nodal = vals.reshape(m.npoints, *shape)
            data = rng.standard_normal(vq.shape)
            wq = own_weights(reg)
            cmq = np.repeat(((data * wq.reshape(-1, 1)).sum(-2) / wq.sum())[..., None, :], npc, axis=-2)
            results = []
            for name, fnc in (("project", fem.project), ("extrapolate", fem.tools.extrapolate)):
                got = fnc(vq, reg).reshape(nodal.shape)
                results.append(got)
                run.compare("post.cellless", "tool=%s template=%s clause=reproduces-fe-function" % (name, lab), maxabs(got[has] - nodal[has]) / maxabs(nodal[has]), 1e-10,
                            "%s() on a mesh with points without cells does not return the nodal values of an FE function at the points that have cells" % name,
                            unit="cellless:%s:%s" % (which, name), config=(lab, name, shape))
            got = fem.topoints(data, reg).reshape(nodal.shape)
            results.append(got)
            run.compare("post.cellless", "tool=topoints template=%s clause=average" % lab, maxabs(got[has] - naive_points("topoints", data, reg)[has]), 1e-13,
                        "topoints(average) on a mesh with points without cells is not the mean over the attached cells", unit="cellless:%s:topoints" % which,
                        config=(lab, "topoints", shape))
            ref = naive_points("topoints", cmq, reg)
            for name, fnc in (("extrapolate", fem.tools.extrapolate), ("project", fem.project), ("topoints", fem.topoints)):
                got = fnc(data, reg, mean=True).reshape(nodal.shape)
                results.append(got)
                run.compare("post.cellless", "tool=%s template=%s clause=mean=True" % (name, lab), maxabs(got[has] - ref[has]), 1e-13,
                            "%s(mean=True) on a mesh with points without cells is not the mean over the attached cells of the weighted cell means" % name,
                            unit="cellless:%s:mean=True" % which, config=(lab, name, "mean", shape))
            # the integral of arbitrary data is preserved (the fix-up of the matrix for the cell-less points must not touch the others)
            pr = fem.project(data, reg)
            results.append(pr)
            back = fem.Field(reg, dim=size, values=pr.reshape(m.npoints, size)).interpolate().reshape(data.shape)
            dVo = own_dV(reg)
            i0, i1 = (data * dVo).sum((-2, -1)), (back * dVo).sum((-2, -1))
            run.compare("post.cellless", "tool=project template=%s clause=integral-preserving" % lab, maxabs(i1 - i0) / float((np.abs(data) * dVo).sum()), 1e-11,
                        "project() on a mesh with points without cells does not preserve the volume integral", unit="cellless:%s:project" % which,
                        config=(lab, "integral", shape))
            # what is handed on (to a plot, a file) must be numbers at every point
            bad = sum(int((~np.isfinite(r)).sum()) for r in results)
            run.compare("post.cellless", "template=%s clause=finite-at-points-without-cells" % lab, float(bad), 0.0,
                        "project / extrapolate / topoints return NaN or inf at points without cells", unit="cellless:finite", config=(lab, "finite", shape))
    return fn


def case_uniform(fam, rep):
    """Regions built with uniform=True (a grid of identical cells: the geometry arrays are stored for one cell only)."""
    def fn(run):
        import felupe as fem
        rng = rng_for(run.seed, "C19", "uniform", fam, rep)
        geo = ["undistorted", "affine"][(rep + len(fam)) % 2]
        mesh, _ = gen.build_mesh(fam, geo, rng)
        ru = gen.make_region(fam, mesh, uniform=True)
        r0 = gen.make_region(fam, mesh)  # the same region with all arrays per cell (for the integrals and gradients of the references)
        if ru.dV.shape[-1] != 1:
            raise RuntimeError("workload: the region is not stored as a uniform one")
        nq, nc, npc = ru.quadrature.npoints, mesh.ncells, mesh.cells.shape[1]
        d = mesh.dim
        linear = fam in ("quad", "hexahedron")
        mon = "post.uniform"
        for shape in ((), (2, 3)):
            size = int(np.prod(shape)) if shape else 1
            nodal, vq = fe_function(rng, ru, mesh, fam, shape)
            for name, fnc in (("project", fem.project), ("extrapolate", fem.tools.extrapolate)) if linear else (("project", fem.project),):
                got = fnc(vq, ru).reshape(nodal.shape)
                run.compare(mon, "tool=%s template=%s[uniform] clause=reproduces-fe-function" % (name, fam), maxabs(got - nodal) / maxabs(nodal), 1e-10,
                            "%s() on a uniform=True region does not return the nodal values of an FE function" % name, unit="uniform:" + name, config=(fam, geo, name, shape))
                got = fnc(vq, ru, average=False).reshape(nc, npc, *shape)
                run.compare(mon, "tool=%s template=%s[uniform] clause=average=False" % (name, fam), maxabs(got - nodal[mesh.cells]) / maxabs(nodal), 1e-10,
                            "%s(average=False) on a uniform=True region does not return the field's values at the points of every cell" % name,
                            unit="uniform:%s:average=False" % name, config=(fam, geo, name, "average=False", shape))
            data = rng.standard_normal(vq.shape)
            pr = fem.project(data, ru)
            back = fem.Field(r0, dim=size, values=pr.reshape(mesh.npoints, size)).interpolate().reshape(data.shape)
            dVo = own_dV(r0)
            i0, i1 = (data * dVo).sum((-2, -1)), (back * dVo).sum((-2, -1))
            run.compare(mon, "tool=project template=%s[uniform] clause=integral-preserving" % fam, maxabs(i1 - i0) / float((np.abs(data) * dVo).sum()), 1e-11,
                        "project() on a uniform=True region does not preserve the volume integral", unit="uniform:project:integral", config=(fam, geo, "integral", shape))
            run.compare(mon, "tool=project template=%s[uniform] clause=l2-projection" % fam, maxabs(pr - naive_points("project", data, r0)) / maxabs(data), 1e-10,
                        "project() of arbitrary data on a uniform=True region is not the L2 projection on the region's space", unit="uniform:project:l2",
                        config=(fam, geo, "l2", shape))
            run.compare(mon, "tool=topoints template=%s[uniform] clause=average" % fam, maxabs(fem.topoints(data, ru) - naive_points("topoints", data, r0)), 1e-13,
                        "topoints(average) on a uniform=True region is not the mean over the attached cells", unit="uniform:topoints", config=(fam, geo, "topoints", shape))
            wq = own_weights(r0)
            cmq = np.repeat(((data * wq.reshape(-1, 1)).sum(-2) / wq.sum())[..., None, :], npc, axis=-2)
            ref = naive_points("topoints", cmq, r0)
            for name, fnc in (("extrapolate", fem.tools.extrapolate), ("project", fem.project), ("topoints", fem.topoints)):
                run.compare(mon, "tool=%s template=%s[uniform] clause=mean=True" % (name, fam), maxabs(fnc(data, ru, mean=True).reshape(ref.shape) - ref), 1e-13,
                            "%s(mean=True) on a uniform=True region is not the mean over the attached cells of the weighted cell means" % name,
                            unit="uniform:mean=True", config=(fam, geo, name, "mean", shape))
        # ---- a body on the uniform region: F from the gradients of the per-cell region, P from the material law itself
        mu = float(rng.uniform(0.5, 2))
        lm = float(rng.uniform(1, 4))
        fu = fem.FieldContainer([(fem.Field if d == 3 else fem.FieldPlaneStrain)(ru, dim=d)])
        fu[0].values[:] = gen.random_displacement(rng, mesh, grad=0.25)
        F = np.einsum("aic,ajqc->ijqc", fu[0].values[mesh.cells].transpose(1, 2, 0), r0.dhdX)
        F3 = np.zeros((3, 3, nq, nc))
        F3[:d, :d] = F
        F3 += np.eye(3).reshape(3, 3, 1, 1)
        run.compare(mon, "view=field[uniform] key=Deformation Gradient clause=cell-mean",
                    maxabs(np.asarray(fu.view().mesh.cell_data["Deformation Gradient"]).reshape(nc, 3, 3) - np.moveaxis(F3.mean(-2), -1, 0)) / maxabs(F3), 1e-13,
                    "view cell data 'Deformation Gradient' of a field on a uniform=True region is not the quadrature mean of F_ij", unit="uniform:view:Deformation Gradient",
                    config=(fam, geo, "view-F"))
        solid = fem.SolidBody(fem.NeoHookeCompressible(mu=mu, lmbda=lm), fu)
        P = fem.NeoHookeCompressible(mu=mu, lmbda=lm).gradient([F3, None])[0]
        J = np.linalg.det(np.moveaxis(F3, (0, 1), (-2, -1)))
        sig = np.einsum("ik...,jk...->ij...", P, F3) / J
        run.compare(mon, "item=SolidBody[uniform] clause=cauchy", maxabs(solid.evaluate.cauchy_stress(fu) - sig) / maxabs(sig), 1e-12,
                    "cauchy_stress of a body on a uniform=True region != P F^T / det F", unit="uniform:stress:cauchy", config=(fam, geo, "cauchy"))
        voigt = np.array([sig.mean(-2)[i, j] for i, j in VOIGT]).T
        run.compare(mon, "view=solid[uniform] key=Cauchy Stress clause=cell-mean", maxabs(np.asarray(solid.view().mesh.cell_data["Cauchy Stress"]) - voigt) / maxabs(voigt), 1e-12,
                    "view cell data 'Cauchy Stress' of a body on a uniform=True region is not the mean stress in Voigt storage", unit="uniform:view:Cauchy Stress",
                    config=(fam, geo, "view-cauchy"))
    return fn


def material(rng, which, mu0):
    """A factory of one of the laws of C01's list with moduli in units of mu0 (every call builds a new object with the same parameters: the
    references evaluate their own copy of the law, never the one inside the body under test)."""
    import felupe as fem
    a, b = float(rng.uniform(0.5, 2)), float(rng.uniform(1, 5))
    if which == "NeoHooke":
        return lambda: fem.NeoHooke(mu=a * mu0, bulk=b * mu0)
    if which == "NeoHookeCompressible":
        return lambda: fem.NeoHookeCompressible(mu=a * mu0, lmbda=b * mu0)
    if which == "Yeoh(tensortrax)":
        return lambda: fem.Hyperelastic(fem.yeoh, C10=0.5 * mu0, C20=-0.05 * mu0, C30=0.02 * mu0) & fem.Volumetric(bulk=(1 + b) * mu0)
    if which == "MooneyRivlin(jax)":
        def mk():
            import felupe.constitution.jax as fj
            return fj.Hyperelastic(fj.models.hyperelastic.mooney_rivlin, C10=0.4 * mu0, C01=0.2 * mu0) & fem.Volumetric(bulk=3.0 * mu0)
        return mk
    if which == "SaintVenantKirchhoff(tensortrax)":
        return lambda: fem.Hyperelastic(fem.saint_venant_kirchhoff, mu=a * mu0, lmbda=b * mu0)
    if which == "OgdenRoxburgh":
        return lambda: fem.OgdenRoxburgh(fem.NeoHooke(mu=a * mu0, bulk=3.0 * mu0), r=3.0, m=1.0 * mu0, beta=0.1)
    if which == "LinearElasticLargeStrain":
        return lambda: fem.LinearElasticLargeStrain(E=2.0 * mu0, nu=0.3)
    if which == "Yeoh(isochoric)":
        return lambda: fem.Hyperelastic(fem.yeoh, C10=0.5 * mu0, C20=-0.05 * mu0, C30=0.02 * mu0)
    raise KeyError(which)


def make_field(kind, fam, rng, scale=1.0):
    """A field container of the given kind on a distorted mesh of the family, the body scaled to the length unit."""
    import felupe as fem
    mesh, _ = gen.build_mesh(fam, "distorted", rng)
    mesh = mesh.copy(points=mesh.points * scale)
    if kind == "axisymmetric":
        # keep the body away from the axis, in units of its own size
        size = float(np.ptp(mesh.points[:, 1]))
        mesh = mesh.copy(points=mesh.points + np.array([0.0, 1.5 * size - mesh.points[:, 1].min()]))
    reg = gen.make_region(fam, mesh)
    if kind == "3d":
        return fem.FieldContainer([fem.Field(reg, dim=3)]), mesh, reg
    if kind == "2d":
        return fem.FieldContainer([fem.Field(reg, dim=2)]), mesh, reg  # a plain two-dimensional field: 2x2 tensors
    if kind == "planestrain":
        return fem.FieldContainer([fem.FieldPlaneStrain(reg, dim=2)]), mesh, reg
    if kind == "axisymmetric":
        return fem.FieldContainer([fem.FieldAxisymmetric(reg, dim=2)]), mesh, reg
    if kind == "mixed":
        return fem.FieldsMixed(reg, n=3), mesh, reg
    raise KeyError(kind)


def set_state(rng, field, amp=0.25, mu0=1.0):
    """A smooth displacement state with |grad u| <= ~amp (plus nodal noise in proportion), in units of the body; the pressure and
    volume-ratio unknowns of mixed containers in units of the modulus and in proportion to the amplitude (0.3 and 0.1 at 0.25: a small state
    is small in all its fields, else the deviatoric results are differences of large numbers)."""
    mesh = field.region.mesh
    field[0].values[:] = gen.random_displacement(rng, mesh, grad=amp, noise=0.04 * amp)
    if zlib.crc32(np.ascontiguousarray(field[0].values).tobytes()) % 4 == 0:
        # the same values stored column-wise: the memory layout of a value array carries no meaning (decided by the values)
        field[0].values = np.asfortranarray(field[0].values)
    if len(field.fields) > 1:
        field[1].values[:] = 1.2 * amp * mu0 * rng.standard_normal(field[1].values.shape)
    if len(field.fields) > 2:
        field[2].values[:] = 1 + 0.4 * amp * rng.standard_normal(field[2].values.shape)


def draw_state(rng, field, lo, hi, kind, tries=20):
    """Another displacement state with det F >= 0.2 everywhere (redrawn, never dropped); returns F (own_F) and det F."""
    mesh = field.region.mesh
    for _ in range(tries):
        field[0].values[:] = gen.random_displacement(rng, mesh, grad=float(rng.uniform(lo, hi)))
        F = own_F(field, kind)
        J = np.linalg.det(np.moveaxis(F, (0, 1), (-2, -1)))
        if J.min() >= 0.2:
            return F, J
    return None, None


def case_stress_and_views(kind, fam, rep, ki=0, tier="quick"):
    def fn(run):
        import felupe as fem
        rng = rng_for(run.seed, "C19", "views", kind, fam, rep)
        # length unit, modulus and displacement amplitude by the indices of the case: every clause is judged relative to its own
        # reference, so an absolute threshold anywhere between the field and the reported number shows in one of the units
        L = LENGTHS[(ki + rep) % 3]
        mu0 = MODULI[(ki + 2 * rep) % 3]
        small = (2 * ki + rep) % 5 == 2
        amp = 1e-6 if small else 0.25
        field, mesh, reg = make_field(kind, fam, rng, L)
        set_state(rng, field, amp, mu0)
        ni = rep % 2 == 1 and kind != "mixed"
        if ni:
            bulk = float(rng.uniform(5, 50)) * mu0
            if (rep // 2) % 2:
                mk, mname = material(rng, "Yeoh(isochoric)", mu0), "NI(Yeoh)"
            else:
                mk, mname = (lambda: fem.NeoHooke(mu=1.0 * mu0)), "NI(NeoHooke)"
            solid = fem.SolidBodyNearlyIncompressible(mk(), field, bulk=bulk)
        elif kind == "mixed":
            mname = ("NeoHooke", "NeoHookeCompressible", "Yeoh(tensortrax)")[rep % 3]
            inner = material(rng, mname, mu0)
            mk = lambda: fem.ThreeFieldVariation(inner())
            solid = fem.SolidBody(mk(), field)
        else:
            mname = MATS[(ki + rep // 2) % len(MATS)]
            if tier == "quick" and "jax" in mname:
                mname = "SaintVenantKirchhoff(tensortrax)"  # (the compile time of the jax law is spent in the thorough tier only)
            mk = material(rng, mname, mu0)
            solid = fem.SolidBody(mk(), field)
        run.units["stress:length-unit:%g" % L] += 1
        run.units["stress:modulus:%g" % mu0] += 1
        run.units["stress:material:" + mname] += 1
        run.units["stress:field:" + kind] += 1

        def first_pk(cont):
            """P of a container's state from a law object of the reference's own: a fresh body for the plain one; for the condensed body
            the closed form P = P_iso(F) + p J F^-T with the body's pressure state of that very call (p, J are state variables)."""
            Fc = own_F(cont, kind)
            if ni:
                Jc = np.linalg.det(np.moveaxis(Fc, (0, 1), (-2, -1)))
                cof = Jc * np.moveaxis(np.linalg.inv(np.moveaxis(Fc, (0, 1), (-2, -1))), (-2, -1), (1, 0))
                return mk().gradient([Fc, None])[0] + np.asarray(solid.results.state.p) * cof
            other = copy.deepcopy(cont)
            return fem.SolidBody(mk(), other).evaluate.gradient(other)[0]

        def law_pk(cont, Fc):
            """P of a container's state from the law object itself, called by the reference at the reference's own F (no second body in
            between: an error every SolidBody makes on the way from the field to the law shows); the pressure and volume-ratio fields of
            a mixed container interpolated by their fields, the state variables of a new body (zeros)."""
            law = mk()
            sv = np.zeros((*law.x[-1].shape, *Fc.shape[-2:]))
            return law.gradient([Fc, *[np.asarray(f.interpolate()) for f in cont.fields[1:]], sv])[0]

        # (fourth audit) the kinematics of every reference below are the reference's own: F = 1 + sum_a u_a (x) dh_a/dX (+ u_r / r)
        F = own_F(field, kind)
        P = solid.evaluate.gradient(field)[0]
        d = 2 if kind == "2d" else 3  # (the tensor size of the field kind the case built, not the one of the array the body returned)
        J = np.linalg.det(np.moveaxis(F, (0, 1), (-2, -1)))
        tau_ref = np.einsum("ik...,jk...->ij...", P, F)
        lab = type(solid).__name__
        run.compare("post.stress", "item=%s clause=kirchhoff" % lab, maxabs(solid.evaluate.kirchhoff_stress(field) - tau_ref) / maxabs(tau_ref), 1e-13,
                    "kirchhoff_stress != P F^T", unit="stress:kirchhoff", config=(lab, kind, "kirchhoff"))
        if d == 3:
            run.compare("post.stress", "item=%s clause=cauchy" % lab, maxabs(solid.evaluate.cauchy_stress(field) - tau_ref / J) / maxabs(tau_ref / J), 1e-13,
                        "cauchy_stress != P F^T / det F", unit="stress:cauchy", config=(lab, kind, "cauchy"))
        else:
            # a plain two-dimensional field has no thickness stretch: the evaluator says so (a warning) and reports P F^T
            with warnings.catch_warnings(record=True) as caught:
                warnings.simplefilter("always")
                got = solid.evaluate.cauchy_stress(field)
            told = any("Kirchhoff" in str(wn.message) for wn in caught)
            run.compare("post.stress", "item=%s clause=cauchy-of-a-2d-field" % lab, maxabs(got - tau_ref) / maxabs(tau_ref) if told else np.inf, 1e-13,
                        "cauchy_stress of a plain 2d field is not the announced fall-back P F^T (or the fall-back is not announced)", unit="stress:cauchy:2d",
                        config=(lab, kind, "cauchy-2d"))
        # the stress of the state is the one of the law itself (an own copy of the law; the condensed body with its pressure state)
        Pi = first_pk(field)
        run.compare("post.stress", "item=%s clause=stress-of-the-law" % lab, maxabs(P - Pi) / maxabs(Pi), 1e-12,
                    "the first Piola-Kirchhoff stress behind the reported stresses is not the one of the material law at this state",
                    unit="stress:law", config=(lab, kind, mname, "law"))
        # (a difference of F in its last bits is one of eps / amplitude in the stress of a small state)
        tol_law = max(1e-12, 1e2 * EPS / amp)
        if not ni:
            Pl = law_pk(field, F)
            run.compare("post.stress", "item=%s clause=stress-of-the-law[called at own F]" % lab, maxabs(P - Pl) / maxabs(Pl), tol_law,
                        "the first Piola-Kirchhoff stress behind the reported stresses is not the one the law object returns for F = 1 + grad u of this field",
                        unit="stress:law:own-F", config=(lab, kind, mname, "law-own-F"))
        # ---- the reported stress belongs to the field handed in, whatever the body evaluated before (stale cached kinematics)
        vals0 = field[0].values.copy()
        for it in range(3):
            field[0].values[:] = gen.random_displacement(rng, mesh, grad=float(rng.uniform(0.1, 0.35)))
            F2 = own_F(field, kind)
            J2 = np.linalg.det(np.moveaxis(F2, (0, 1), (-2, -1)))
            if J2.min() < 0.2:
                run.skip("post.stress", "det F < 0.2")
                continue
            first = ("cauchy", "kirchhoff")[(it + rep) % 2] if d == 3 else "kirchhoff"
            got = (solid.evaluate.cauchy_stress if first == "cauchy" else solid.evaluate.kirchhoff_stress)(field)
            # the stress the body evaluated for this call; the condensed body's p, J are updated by every evaluation (by
            # design), so only a plain SolidBody can be re-evaluated for an independent P
            P2 = np.array(solid.results.stress[0], copy=True)
            if not ni:
                Pf = solid.evaluate.gradient(field)[0]
                run.compare("post.stress", "item=%s clause=stress-state-is-of-this-field" % lab, maxabs(P2 - Pf) / maxabs(Pf), 1e-13,
                            "the stress stored by %s_stress(field) is not the stress of that field" % first,
                            unit="stress:stored-P", config=(lab, kind, first, "stored-P"))
            ref2 = np.einsum("ik...,jk...->ij...", P2, F2) / (J2 if first == "cauchy" else 1.0)
            run.compare("post.stress", "item=%s clause=%s-after-state-change" % (lab, first), maxabs(got - ref2) / maxabs(ref2), 1e-13,
                        "%s_stress(field) evaluated first after the field changed is not P F^T%s of that field" % (first, " / det F" if first == "cauchy" else ""),
                        unit="stress:%s:after-state-change" % first, config=(lab, kind, first, "after-state-change"))
            # ... and with a P that is not read back from the body: the law evaluated by the reference at F of this field (for the
            # condensed body together with the pressure of this call): a stale or incomplete P in the body shows here
            Pi2 = first_pk(field) if ni else fem.SolidBody(mk(), field).evaluate.gradient(field)[0]
            refi = np.einsum("ik...,jk...->ij...", Pi2, F2) / (J2 if first == "cauchy" else 1.0)
            run.compare("post.stress", "item=%s clause=%s-after-state-change[law]" % (lab, first), maxabs(got - refi) / maxabs(refi), 1e-12,
                        "%s_stress(field) evaluated first after the field changed is not built from the stress of the law at that field" % first,
                        unit="stress:after-state-change:law" + (":ni" if ni else ""), config=(lab, kind, first, "after-state-change-law"))
            if not ni:
                refl = np.einsum("ik...,jk...->ij...", law_pk(field, F2), F2) / (J2 if first == "cauchy" else 1.0)
                run.compare("post.stress", "item=%s clause=%s-after-state-change[law called at own F]" % (lab, first), maxabs(got - refl) / maxabs(refl), 1e-12,
                            "%s_stress(field) evaluated first after the field changed is not built from the stress the law object returns for F of that field" % first,
                            unit="stress:after-state-change:law:own-F", config=(lab, kind, first, "after-state-change-law-own-F"))
        # ---- the evaluators without a field argument report the state of the last assembly (as after a Newton step)
        F3, J3 = draw_state(rng, field, 0.1, 0.3, kind)
        if F3 is None:
            run.skip("post.stress", "no state with det F >= 0.2 in 20 draws")
        else:
            solid.assemble.vector(field)
            if ni:
                solid.assemble.vector(field)
            P3 = np.array(solid.results.stress[0], copy=True)
            tau3 = np.einsum("ik...,jk...->ij...", P3, F3)
            run.compare("post.stress", "item=%s clause=kirchhoff-without-field" % lab, maxabs(solid.evaluate.kirchhoff_stress() - tau3) / maxabs(tau3), 1e-13,
                        "kirchhoff_stress() after an assembly is not P F^T of the assembled state", unit="stress:no-field-argument", config=(lab, kind, "no-field"))
            if d == 3:
                run.compare("post.stress", "item=%s clause=cauchy-without-field" % lab, maxabs(solid.evaluate.cauchy_stress() - tau3 / J3) / maxabs(tau3 / J3), 1e-13,
                            "cauchy_stress() after an assembly is not P F^T / det F of the assembled state", unit="stress:no-field-argument")
            if not ni:
                # view of the first Piola-Kirchhoff stress (stress_type=None): cell means of P itself
                try:
                    cdP = np.asarray(solid.view(stress_type=None).mesh.cell_data["Stress"])
                except KeyError as exc:  # (a refusal of the stress type; anything else is an error of the case)
                    run.skip("post.view", "ViewSolid(stress_type=None) not available: " + type(exc).__name__)
                else:
                    Pm = P3.mean(-2)
                    if cdP.shape[1] == d * d:
                        refP = np.moveaxis(Pm, -1, 0).reshape(mesh.ncells, d * d)
                    else:
                        refP = np.array([Pm[i, j] for i, j in (VOIGT if d == 3 else VOIGT2)]).T
                    run.compare("post.view", "view=solid key=Stress clause=cell-mean", maxabs(cdP - refP) / maxabs(refP), 1e-12,
                                "view cell data 'Stress' (stress_type=None) is not the quadrature mean of the first Piola-Kirchhoff stress",
                                unit="view:Stress[first Piola-Kirchhoff]", config=(lab, kind, "view-P"))
        field[0].values[:] = vals0
        solid.evaluate.gradient(field)
        # ---- view data (what is handed to pyvista)
        voigt_ij = VOIGT if d == 3 else VOIGT2
        Fm = F.mean(-2)  # i j c
        C = np.einsum("ki...,kj...->ij...", F, F)
        w, N = np.linalg.eigh(np.moveaxis(C, (0, 1), (-2, -1)))
        E = np.einsum("...a,...ia,...ja->...ij", np.log(w) / 2, N, N)  # q c i j
        Em = E.mean(0)
        strain_voigt = np.array([Em[:, i, j] * (1 if i == j else 2) for i, j in voigt_ij]).T
        princ = (np.log(w) / 2).mean(0)  # c, ascending
        # strains of 1e-6 are differences of numbers of order one: their round-off is eps / strain (the large states keep their bound)
        tol_e = max(1e-11, 1e3 * EPS / max(maxabs(strain_voigt), 1e-300))
        if small:
            run.units["stress:small-amplitude"] += 1
        # point data of the same named quantity (project=...): component [p, i, j] of the projected tensor
        if kind == "3d" and not ni and field.region.quadrature.npoints >= mesh.cells.shape[1]:
            vp = field.view(project=fem.topoints)
            gotp = np.asarray(vp.mesh.point_data["Deformation Gradient"]).reshape(mesh.npoints, 3, 3)
            refp = fem.topoints(F, field.region).reshape(mesh.npoints, 3, 3)
            run.compare("post.view", "view=field[project] key=Deformation Gradient clause=point-values", maxabs(gotp - refp) / maxabs(refp), 1e-13,
                        "view point data 'Deformation Gradient'[p, i, j] (project=topoints) is not the projected F_ij", unit="view:Deformation Gradient:points",
                        config=("view-project", kind))
            # a single cell (the layout handed to the plotting backend must not depend on the number of cells)
            m1 = fem.Mesh(mesh.points[mesh.cells[0]], np.arange(mesh.cells.shape[1]).reshape(1, -1), mesh.cell_type)
            f1 = fem.FieldContainer([fem.Field(gen.make_region(fam, m1), dim=3, values=field[0].values[mesh.cells[0]])])
            F1 = np.moveaxis(own_F(f1, "3d").mean(-2), -1, 0)
            got1 = np.asarray(f1.view().mesh.cell_data["Deformation Gradient"]).reshape(1, 3, 3)
            run.compare("post.view", "view=field[single cell] key=Deformation Gradient clause=cell-mean", maxabs(got1 - F1) / maxabs(F1), 1e-13,
                        "view cell data 'Deformation Gradient' of a one-cell mesh is not the quadrature mean of F_ij", unit="view:Deformation Gradient:single-cell",
                        config=("view-single-cell", kind))
        vf = field.view()
        cd = vf.mesh.cell_data
        got = np.asarray(cd["Deformation Gradient"]).reshape(mesh.ncells, d, d)
        ref = np.moveaxis(Fm, -1, 0)  # c i j
        run.compare("post.view", "view=field key=Deformation Gradient clause=cell-mean", maxabs(got - ref) / maxabs(ref), 1e-13,
                    "view cell data 'Deformation Gradient'[c, i, j] is not the quadrature mean of F_ij", unit="view:Deformation Gradient",
                    config=("view", kind, "F"), sample={"key": "Deformation Gradient", "cell0": got[0].tolist(), "mean F cell0": ref[0].tolist()})
        run.compare("post.view", "view=field key=Logarithmic Strain clause=cell-mean", maxabs(np.asarray(cd["Logarithmic Strain"]) - strain_voigt) / max(maxabs(strain_voigt), 1e-300),
                    tol_e, "view cell data 'Logarithmic Strain' is not the mean logarithmic strain in Voigt storage (engineering shear)",
                    unit="view:Logarithmic Strain", config=("view", kind, "log-strain"))
        run.compare("post.view", "view=field key=Principal Values of Logarithmic Strain clause=cell-mean",
                    maxabs(np.sort(np.asarray(cd["Principal Values of Logarithmic Strain"]), axis=1) - np.sort(princ, axis=1)) / max(maxabs(princ), 1e-300), tol_e,
                    "view cell data 'Principal Values of Logarithmic Strain' are not the mean principal logarithmic strains",
                    unit="view:Principal Values of Logarithmic Strain", config=("view", kind, "princ"))
        pdisp = np.asarray(vf.mesh.point_data["Displacement"])
        u3 = np.pad(field[0].values, ((0, 0), (0, 3 - field[0].values.shape[1])))
        run.compare("post.view", "view=field key=Displacement clause=point-data", maxabs(pdisp - u3), 0.0, "view point data 'Displacement' differs from the field values",
                    unit="view:Displacement")
        eye = np.eye(d).reshape(d, d, 1, 1)

        def stress_items(sref):
            """(Voigt components, principal values ascending, von Mises equivalent) at the quadrature points, by their definitions (a
            2x2 tensor is a 3x3 one with a zero third row and column for the equivalent stress)."""
            sv = np.array([sref[i, j] for i, j in voigt_ij])
            pv = np.moveaxis(np.linalg.eigvalsh(np.moveaxis((sref + np.swapaxes(sref, 0, 1)) / 2, (0, 1), (-2, -1))), -1, 0)
            dev = sref - np.trace(sref) / 3 * eye
            vm = np.sqrt(1.5 * ((dev ** 2).sum((0, 1)) + (0 if d == 3 else (np.trace(sref) / 3) ** 2)))
            return sv, pv, vm

        stypes = (("Cauchy", tau_ref / J), ("Kirchhoff", tau_ref)) if d == 3 else (("Kirchhoff", tau_ref),)
        for st, sref in stypes:
            vs = solid.view(stress_type=st)
            cds = vs.mesh.cell_data
            sv, pvq, vmq = stress_items(sref)
            voigt = sv.mean(-2).T
            run.compare("post.view", "view=solid key=%s Stress clause=cell-mean" % st, maxabs(np.asarray(cds["%s Stress" % st]) - voigt) / maxabs(voigt), 1e-12,
                        "view cell data '%s Stress' is not the mean stress in Voigt storage" % st, unit="view:%s Stress" % st, config=("view", kind, st))
            pv = pvq.mean(-2).T
            run.compare("post.view", "view=solid key=Principal Values of %s Stress clause=cell-mean" % st,
                        maxabs(np.sort(np.asarray(cds["Principal Values of %s Stress" % st]), axis=1) - np.sort(pv, axis=1)) / maxabs(pv), 1e-10,
                        "view cell data 'Principal Values of %s Stress' are not the mean principal stresses" % st, unit="view:Principal Values of %s Stress" % st)
            vm = vmq.mean(0)
            run.compare("post.view", "view=solid key=Equivalent of %s Stress clause=cell-mean" % st,
                        maxabs(np.asarray(cds["Equivalent of %s Stress" % st]).ravel() - vm) / maxabs(vm), 1e-12,
                        "view cell data 'Equivalent of %s Stress' is not the mean von Mises stress" % st, unit="view:Equivalent of %s Stress" % st)
            if d == 2:
                run.units["view:2d-tensors"] += 1
        # point data of the named stress / strain (project=...): the projected Voigt components
        if kind == "3d" and d == 3 and not ni and field.region.quadrature.npoints >= mesh.cells.shape[1]:
            sig = tau_ref / J
            vsp = solid.view(project=fem.topoints)
            refv = fem.topoints(np.array([sig[i, j] for i, j in VOIGT]), field.region)
            run.compare("post.view", "view=solid[project] key=Cauchy Stress clause=point-values", maxabs(np.asarray(vsp.mesh.point_data["Cauchy Stress"]) - refv) / maxabs(refv), 1e-12,
                        "view point data 'Cauchy Stress' (project=topoints) are not the projected Voigt components of the Cauchy stress", unit="view:Cauchy Stress:points",
                        config=("view-project-stress", kind))
            vfp = field.view(project=fem.topoints)
            Evq = np.array([np.moveaxis(E, (0, 1), (-2, -1))[i, j] * (1 if i == j else 2) for i, j in VOIGT])  # (6, q, c)
            refe = fem.topoints(Evq, field.region)
            run.compare("post.view", "view=field[project] key=Logarithmic Strain clause=point-values", maxabs(np.asarray(vfp.mesh.point_data["Logarithmic Strain"]) - refe) / max(maxabs(refe), 1e-300), max(1e-10, tol_e),
                        "view point data 'Logarithmic Strain' (project=topoints) are not the projected Voigt components (engineering shear)", unit="view:Logarithmic Strain:points")
        # ---- all six keys of the projected point data, for the three callables the docstrings name, both stress types, every field
        # kind and body: the references move the quantities to the points with loops / dense algebra of their own (naive_points)
        nqf, npc = field.region.quadrature.npoints, mesh.cells.shape[1]
        tools = []
        if fam in ("quad", "hexahedron"):
            tools = [("project", fem.project), ("extrapolate", fem.tools.extrapolate), ("topoints", fem.topoints)]
        elif fam in ("quad8", "hexahedron20"):
            tools = [("project", fem.project), ("topoints", fem.topoints)]  # (extrapolate refuses them loudly; topoints trims as documented)
        Eq = np.moveaxis(E, (0, 1), (-2, -1))  # i j q c
        Evq = np.array([Eq[i, j] * (1 if i == j else 2) for i, j in voigt_ij])
        Epq = np.moveaxis(np.log(w) / 2, -1, 0)  # (d, q, c) ascending
        for ti, (tname, tfn) in enumerate(tools):
            st, sref = stypes[(ti + rep) % len(stypes)]
            pdv = solid.view(project=tfn, stress_type=st).mesh.point_data
            sv, pvq, vmq = stress_items(sref)
            refs = {"%s Stress" % st: (naive_points(tname, sv, reg), 1e-10),
                    "Principal Values of %s Stress" % st: (naive_points(tname, pvq, reg), 1e-10),
                    "Equivalent of %s Stress" % st: (naive_points(tname, vmq, reg), 1e-10),
                    "Deformation Gradient": (naive_points(tname, F, reg).reshape(mesh.npoints, d * d), 1e-10),
                    "Logarithmic Strain": (naive_points(tname, Evq, reg), max(1e-10, 10 * tol_e)),
                    "Principal Values of Logarithmic Strain": (naive_points(tname, Epq, reg), max(1e-10, 10 * tol_e))}
            for key, (refk, tolk) in refs.items():
                gotk = np.asarray(pdv[key]).reshape(refk.shape)
                err = maxabs(gotk - refk)
                if key.startswith("Principal"):
                    err = min(err, maxabs(gotk - refk[:, ::-1]))  # (the order of the principal values is not part of the statement)
                run.compare("post.view", "view=solid[project=%s] key=%s clause=point-values" % (tname, key), err / max(maxabs(refk), 1e-300), tolk,
                            "view point data '%s' (project=%s) are not the named quantity moved to the points by that operation" % (key, tname),
                            unit="view:points:%s:%s" % (tname, key.replace(st + " ", "")), config=("view-points", kind, lab, tname, st, key))
        # ---- the job's export functions
        from felupe.mechanics import _job as JB
        run.compare("post.job", "function=deformation_gradient clause=cell-mean", maxabs(JB.deformation_gradient(field)[0] - ref) / maxabs(ref), 1e-13,
                    "job export 'Deformation Gradient' is not the per-cell mean of F", unit="job:Deformation Gradient")
        run.compare("post.job", "function=log_strain clause=cell-mean", maxabs(JB.log_strain(field)[0] - strain_voigt) / max(maxabs(strain_voigt), 1e-300), tol_e,
                    "job export 'Logarithmic Strain' is not the per-cell mean logarithmic strain (Voigt)", unit="job:Logarithmic Strain")
        run.compare("post.job", "function=log_strain_principal clause=cell-mean", maxabs(JB.log_strain_principal(field)[0] - princ[:, ::-1]) / max(maxabs(princ), 1e-300), tol_e,
                    "job export 'Principal Values of Logarithmic Strain' are not the per-cell mean principal strains (descending)",
                    unit="job:Principal Values of Logarithmic Strain")
        run.compare("post.job", "function=displacement clause=point-data", maxabs(JB.displacement(field) - u3), 0.0, "job export 'Displacement' differs", unit="job:Displacement")
        # ---- the two documented arguments of ViewSolid are two objects: a container that is not the body's own one, in another
        # state (last block of the case: the body keeps the container it evaluated last)
        other = copy.deepcopy(field)
        Fo, Jo = draw_state(rng, other, 0.1, 0.3, kind)
        if Fo is None:
            run.skip("post.view", "no state with det F >= 0.2 in 20 draws")
            return
        st = ("Cauchy", "Kirchhoff")[rep % 2] if d == 3 else "Kirchhoff"
        cdo = fem.ViewSolid(other, solid, stress_type=st).mesh.cell_data
        Po = first_pk(other)  # (after the call: the condensed body's pressure state is the one of that call)
        so = np.einsum("ik...,jk...->ij...", Po, Fo) / (Jo if st == "Cauchy" else 1.0)
        sv, pvq, vmq = stress_items(so)
        run.compare("post.view", "view=solid[foreign container] key=%s Stress clause=cell-mean" % st, maxabs(np.asarray(cdo["%s Stress" % st]) - sv.mean(-2).T) / maxabs(sv), 1e-11,
                    "ViewSolid(container, solid): cell data '%s Stress' is not the mean stress of the state of the container handed in" % st,
                    unit="view:foreign-container", config=("view-foreign", kind, lab, st))
        run.compare("post.view", "view=solid[foreign container] key=Equivalent of %s Stress clause=cell-mean" % st,
                    maxabs(np.asarray(cdo["Equivalent of %s Stress" % st]).ravel() - vmq.mean(0)) / maxabs(vmq), 1e-11,
                    "ViewSolid(container, solid): cell data 'Equivalent of %s Stress' is not the mean von Mises stress of the container handed in" % st,
                    unit="view:foreign-container", config=("view-foreign", kind, lab, st, "vm"))
        run.compare("post.view", "view=solid[foreign container] key=Deformation Gradient clause=cell-mean",
                    maxabs(np.asarray(cdo["Deformation Gradient"]).reshape(mesh.ncells, d, d) - np.moveaxis(Fo.mean(-2), -1, 0)) / maxabs(Fo), 1e-13,
                    "ViewSolid(container, solid): cell data 'Deformation Gradient' is not the mean F of the container handed in",
                    unit="view:foreign-container", config=("view-foreign", kind, lab, "F"))
    return fn


def case_force_moment(rep):
    def fn(run):
        import felupe as fem
        import scipy.sparse as sp
        rng = rng_for(run.seed, "C19", "force", rep)
        for ki, (kind, fam) in enumerate((("3d", "hexahedron"), ("planestrain", "quad"), ("mixed", "hexahedron"))):
            # the body in its length unit, the forces in theirs (N on a part of micrometres, MN on one of hundreds of metres)
            L = LENGTHS[(ki + rep) % 3]
            f0 = (1.0, 2e9, 3e-7)[(ki + 2 * rep + 1) % 3]
            run.units["force:length-unit:%g" % L] += 1
            run.units["force:force-unit:%g" % f0] += 1
            field, mesh, reg = make_field(kind, fam, rng, L)
            set_state(rng, field, 0.2)
            d = field[0].dim
            n = int(np.sum(field.fieldsizes))
            forces = f0 * rng.standard_normal(n)
            X = mesh.points
            b = fem.Boundary(field[0], fx=lambda x: x > np.median(X[:, 0]))
            # the boundary's points are the ones the selection of the caller names (written out on the coordinates, not read back from
            # the boundary object)
            sel = np.flatnonzero(X[:, 0] > np.median(X[:, 0]))
            Fr = fem.tools.force(field, forces, b)
            fr = forces[: mesh.npoints * d].reshape(-1, d)[sel]
            run.compare("post.force", "clause=force-sum", maxabs(Fr - fr.sum(0)) / f0, 1e-13, "tools.force is not the sum of nodal forces over the boundary's points",
                        unit="force", config=(kind, "force"))
            Fs = fem.tools.force(field, sp.csr_matrix(forces.reshape(-1, 1)), b)
            run.compare("post.force", "clause=force-sum-sparse", maxabs(np.ravel(Fs) - fr.sum(0)) / f0, 1e-13, "tools.force (sparse input) differs", unit="force")
            if d == 3:
                cp = L * rng.standard_normal(3)
                M = fem.tools.moment(field, forces, b, centerpoint=cp)
                xr = (X + field[0].values)[sel] - cp
                run.compare("post.force", "clause=moment-sum", maxabs(M - np.cross(xr, fr).sum(0)) / max(maxabs(M), 1e-300), 1e-12,
                            "tools.moment is not the sum of position-cross-force over the boundary's points", unit="moment", config=(kind, "moment"))
                # the other documented forms of the arguments: the default centre (the origin), a centre given as a list, the force
                # vector as the sparse or dense column an assembly returns
                x0 = (X + field[0].values)[sel]
                M0 = np.cross(x0, fr).sum(0)
                for form, got in (("default-centre", fem.tools.moment(field, forces, b)),
                                  ("list-centre", fem.tools.moment(field, forces, b, centerpoint=[float(c) for c in cp])),
                                  ("sparse-forces", fem.tools.moment(field, sp.csr_matrix(forces.reshape(-1, 1)), b, centerpoint=cp)),
                                  ("column-forces", fem.tools.moment(field, forces.reshape(-1, 1), b, centerpoint=cp))):
                    refm = M0 if form == "default-centre" else np.cross(xr, fr).sum(0)
                    run.compare("post.force", "clause=moment-sum[%s]" % form, maxabs(np.ravel(got) - refm) / max(maxabs(refm), 1e-300), 1e-12,
                                "tools.moment (%s) is not the sum of position-cross-force over the boundary's points" % form, unit="moment:argument-forms",
                                config=(kind, "moment", form))
    return fn


def case_api_surface(rep):
    """Documented forms of the arguments that no other case passes: value arrays in another memory layout / dtype, the stress type that
    Solid.plot(name) reads from the name of the plotted quantity, the strain evaluators of a container with an own stretch function."""
    def fn(run):
        import felupe as fem
        rng = rng_for(run.seed, "C19", "api", rep)
        fam = ("hexahedron", "quad")[rep % 2]
        mesh, _ = gen.build_mesh(fam, "distorted", rng)
        reg = gen.make_region(fam, mesh)
        nq, nc, npc = reg.quadrature.npoints, mesh.ncells, mesh.cells.shape[1]
        # ---- the same numbers stored column-wise, as a strided view of a larger buffer, as integers and in single precision
        shape = (2, 3)
        base = np.round(4 * rng.standard_normal((*shape, nq, nc)))  # (integers: exact in every dtype)
        big = rng.standard_normal((*shape, 2 * nq, nc + 3))
        big[..., ::2, :nc] = base
        forms = (("fortran-order", np.asfortranarray(base)), ("strided-view", big[..., ::2, :nc]), ("integer", base.astype(np.int64)),
                 ("float32", base.astype(np.float32)))
        for tname, tfn in (("project", fem.project), ("extrapolate", fem.tools.extrapolate), ("topoints", fem.topoints)):
            ref = naive_points(tname, base, reg)
            tol = {"project": 1e-10, "extrapolate": 1e-11, "topoints": 1e-13}[tname]
            for form, arr in forms:
                if tname == "topoints" and form in ("integer", "float32"):
                    continue  # (topoints(average=True) refuses other dtypes than float64 loudly)
                got = tfn(arr, reg)
                run.compare("post.api", "tool=%s values=%s clause=same-result" % (tname, form), maxabs(got - ref) / maxabs(ref), tol,
                            "%s() of the same numbers in another memory layout / dtype (%s) is not the named quantity" % (tname, form),
                            unit="api:values:" + form, config=("api", fam, tname, form))
        # ---- Solid.plot(name): the stress type is the one the name says (the scene is not rendered: the plot method of the view
        # is replaced by a recorder of the view's own cell data)
        field = fem.FieldContainer([(fem.Field if mesh.dim == 3 else fem.FieldPlaneStrain)(reg, dim=mesh.dim)])
        set_state(rng, field, 0.25)
        mk = material(rng, ("NeoHooke", "NeoHookeCompressible")[rep % 2], 1.0)
        solid = fem.SolidBody(mk(), field)
        F = own_F(field, "3d" if mesh.dim == 3 else "planestrain")
        P = mk().gradient([F, None])[0]
        J = np.linalg.det(np.moveaxis(F, (0, 1), (-2, -1)))
        tau = np.einsum("ik...,jk...->ij...", P, F)
        seen = []

        def recorder(self, name=None, *args, **kwargs):
            seen.append((name, np.array(self.mesh.cell_data[name], copy=True)))
            return self

        had = "plot" in vars(fem.ViewSolid)
        old = vars(fem.ViewSolid).get("plot")
        fem.ViewSolid.plot = recorder
        try:
            for st, sref in (("Cauchy", tau / J), ("Kirchhoff", tau), ("", P)):
                label = ("%s Stress" % st).strip()
                sym = (sref + np.swapaxes(sref, 0, 1)) / 2
                dev = sref - np.trace(sref) / 3 * np.eye(3).reshape(3, 3, 1, 1)
                refs = {label: np.array([sref.mean(-2)[i, j] for i, j in VOIGT]).T,
                        "Equivalent of " + label: np.sqrt(1.5 * (dev ** 2).sum((0, 1))).mean(0)}
                if st:
                    refs["Principal Values of " + label] = np.sort(np.linalg.eigvalsh(np.moveaxis(sym, (0, 1), (-2, -1))).mean(0), axis=1)
                for name, refn in refs.items():
                    del seen[:]
                    solid.plot(name)
                    got = seen[0][1].reshape(refn.shape)
                    if name.startswith("Principal"):
                        got = np.sort(got, axis=1)
                    run.compare("post.api", "call=Solid.plot(name) name=%s clause=cell-mean-of-the-named-stress" % name, maxabs(got - refn) / maxabs(refn), 1e-11,
                                "Solid.plot('%s') shows cell data that are not the quadrature means of the stress the name says" % name,
                                unit="api:plot-name", config=("api", fam, "plot", name))
        finally:
            if had:
                fem.ViewSolid.plot = old
            else:
                del fem.ViewSolid.plot
        # ---- the strain evaluators behind the views
        C = np.einsum("ki...,kj...->ij...", F, F)
        w, N = np.linalg.eigh(np.moveaxis(C, (0, 1), (-2, -1)))
        lam = np.sqrt(w)
        run.compare("post.api", "function=right_cauchy_green_deformation clause=F^T F", maxabs(field.evaluate.right_cauchy_green_deformation() - C) / maxabs(C), 1e-13,
                    "field.evaluate.right_cauchy_green_deformation() is not F^T F", unit="api:evaluate", config=("api", fam, "C"))
        a = float(rng.uniform(0.5, 2))
        refE = np.moveaxis(np.einsum("...a,...ia,...ja->...ij", a * (lam - 1 / lam), N, N), (-2, -1), (0, 1))
        gotE = field.evaluate.strain(fun=lambda stretch, a: a * (stretch - 1 / stretch), a=a)
        run.compare("post.api", "function=strain(fun=callable) clause=spectral-sum", maxabs(gotE - refE) / maxabs(refE), 1e-11,
                    "field.evaluate.strain(fun=f, **kwargs) is not sum_a f(lambda_a) N_a x N_a", unit="api:evaluate", config=("api", fam, "strain-fun"))
        gotp = np.sort(np.moveaxis(field.evaluate.log_strain(tensor=False), 0, -1), axis=-1)
        run.compare("post.api", "function=log_strain(tensor=False) clause=principal-values", maxabs(gotp - np.sort(np.log(lam), axis=-1)) / maxabs(np.log(lam)), 1e-11,
                    "field.evaluate.log_strain(tensor=False) are not the logarithms of the principal stretches", unit="api:evaluate", config=("api", fam, "log-principal"))
    return fn


VIEW_KINDS = (("3d", "hexahedron"), ("3d", "tetra10"), ("planestrain", "quad"), ("axisymmetric", "quad8"), ("3d", "hexahedron20"), ("2d", "quad"),
              ("mixed", "hexahedron"))


def cases(tier, seed):
    out = []
    reps = 1 if tier == "quick" else 4
    for fam in ("quad", "quad8", "quad9", "hexahedron", "hexahedron20", "hexahedron27", "triangle6", "tetra10", "triangleMINI", "tetraMINI"):
        for rep in range(reps):
            out.append(("project:%s:%d" % (fam, rep), case_project(fam, rep)))
    for fam in ("quad", "hexahedron", "quad9", "hexahedron27"):
        for rep in range(3 * reps):
            out.append(("extrapolate:%s:%d" % (fam, rep), case_extrapolate(fam, rep)))
    for fam in ("quad", "hexahedron", "hexahedron20", "tetra", "triangle6"):
        for rep in range(reps):
            out.append(("topoints:%s:%d" % (fam, rep), case_topoints(fam, rep)))
    for rep in range(reps):
        out.append(("extrapolate-lagrange:%d" % rep, case_extrapolate_lagrange(rep)))
    for ki, (kind, fam) in enumerate(VIEW_KINDS):
        for rep in range(2 * reps):
            out.append(("views:%s:%s:%d" % (kind, fam, rep), case_stress_and_views(kind, fam, rep, ki, tier)))
    for rep in range(reps):
        out.append(("force:%d" % rep, case_force_moment(rep)))
    for fam in ("quad", "hexahedron", "quad9", "hexahedron20", "triangle", "tetra", "triangleMINI", "tetraMINI", "hexahedron27"):
        for rep in range(reps):
            out.append(("flags:%s:%d" % (fam, rep), case_flags(fam, rep)))
    for fam in ("triangle", "tetra", "triangleMINI", "tetraMINI", "triangle6", "tetra10"):
        for rep in range(reps):
            out.append(("simplex-upgrade:%s:%d" % (fam, rep), case_simplex_upgrade(fam, rep)))
    for which in ("appended-point", "sliced-template"):
        for fam in ("quad", "hexahedron"):
            for rep in range(reps):
                out.append(("cellless:%s:%s:%d" % (which, fam, rep), case_cellless(which, fam, rep)))
    for fam in ("quad", "hexahedron", "quad9", "hexahedron20"):
        for rep in range(reps):
            out.append(("uniform:%s:%d" % (fam, rep), case_uniform(fam, rep)))
    for rep in range(2 * reps):
        out.append(("api:%d" % rep, case_api_surface(rep)))
    return out


SPEC = {
    "required_units": ["project:reproduction:quad", "project:reproduction:hexahedron", "project:reproduction:tetra10", "project:integral:quad9",
                       "project:reproduction:tetraMINI", "extrapolate:quad", "extrapolate:hexahedron", "extrapolate:quad9", "extrapolate:hexahedron27", "extrapolate:lagrange:order<=2", "topoints:average", "topoints:mean",
                       "project:length-scale:0.004", "project:length-scale:250", "flags:extrapolate:average=False", "flags:extrapolate:mean=True", "flags:extrapolate:mean=True,average=False", "flags:project:average=False",
                       "flags:project:dV", "flags:project:mean=True", "flags:project:simplex", "flags:topoints:average=False", "flags:topoints:mean=True",
                       "flags:topoints:single-point", "stress:no-field-argument", "view:Stress[first Piola-Kirchhoff]", "view:Deformation Gradient:points", "view:Deformation Gradient:single-cell", "view:Cauchy Stress:points", "view:Logarithmic Strain:points",
                       "stress:kirchhoff", "stress:cauchy", "stress:cauchy:after-state-change", "stress:kirchhoff:after-state-change", "view:Deformation Gradient", "view:Logarithmic Strain",
                       "view:Principal Values of Logarithmic Strain", "view:Displacement", "view:Cauchy Stress", "view:Kirchhoff Stress",
                       "view:Principal Values of Cauchy Stress", "view:Equivalent of Cauchy Stress", "job:Deformation Gradient",
                       "job:Logarithmic Strain", "job:Principal Values of Logarithmic Strain", "job:Displacement", "force", "moment",
                       # third audit: tensor orders 3 and 4 in every tool
                       "project:tensor-order:3", "project:tensor-order:4", "extrapolate:tensor-order:3", "extrapolate:tensor-order:4", "topoints:tensor-order:3",
                       "topoints:tensor-order:4", "flags:tensor-order:3", "flags:tensor-order:4",
                       # tensor-valued / per-cell extrapolation on three points per axis, the other tools on RegionLagrange and permute=False
                       "extrapolate:quad9:tensor", "extrapolate:hexahedron27:tensor", "extrapolate:hexahedron27:tensor:average=False", "extrapolate:lagrange:tensor",
                       "flags:extrapolate:quadratic", "project:reproduction:lagrange:order<=2", "project:reproduction:lagrange:order>=3", "project:integral:lagrange:order>=3",
                       "flags:project:average=False:lagrange", "flags:topoints:average=False:lagrange", "project:permute=False", "flags:permute=False:mean=True",
                       # simplex regions: flags together with the upgraded rule, all six entries of the table
                       "flags:project:simplex:average=False", "flags:project:simplex:dV", "flags:project:upgrade:average=False", "flags:project:upgrade:triangle",
                       "flags:project:upgrade:tetra", "flags:project:upgrade:triangleMINI", "flags:project:upgrade:tetraMINI", "flags:project:upgrade:triangle6",
                       "flags:project:upgrade:tetra10",
                       # points without cells, uniform regions
                       "cellless:appended-point:project", "cellless:appended-point:extrapolate", "cellless:appended-point:topoints", "cellless:appended-point:mean=True",
                       "cellless:sliced-template:project", "cellless:sliced-template:extrapolate", "cellless:sliced-template:topoints", "cellless:sliced-template:mean=True",
                       "cellless:finite", "uniform:project", "uniform:project:average=False", "uniform:project:integral", "uniform:project:l2", "uniform:extrapolate",
                       "uniform:topoints", "uniform:mean=True", "uniform:stress:cauchy", "uniform:view:Deformation Gradient", "uniform:view:Cauchy Stress",
                       # stress / view cases: field kinds, units, laws, references that are not read back, projected point data, foreign container
                       "stress:field:2d", "stress:field:mixed", "stress:cauchy:2d", "view:2d-tensors", "stress:law", "stress:law:own-F", "stress:after-state-change:law:own-F", "stress:after-state-change:law",
                       "stress:after-state-change:law:ni", "stress:length-unit:3e-06", "stress:length-unit:250", "stress:modulus:2e+09", "stress:modulus:3e-07",
                       "stress:small-amplitude", "stress:material:NeoHooke", "stress:material:NeoHookeCompressible", "stress:material:Yeoh(tensortrax)",
                       "stress:material:OgdenRoxburgh", "stress:material:LinearElasticLargeStrain", "stress:material:NI(NeoHooke)", "view:foreign-container",
                       *["view:points:%s:%s" % (t, k) for t in ("project", "extrapolate", "topoints")
                         for k in ("Stress", "Principal Values of Stress", "Equivalent of Stress", "Deformation Gradient", "Logarithmic Strain", "Principal Values of Logarithmic Strain")],
                       "force:length-unit:3e-06", "force:length-unit:250", "force:force-unit:2e+09", "force:force-unit:3e-07", "moment:argument-forms",
                       "api:values:fortran-order", "api:values:strided-view", "api:values:integer", "api:values:float32", "api:plot-name", "api:evaluate"],
    "rule": ("projection on 10 region templates (distorted / curved / affine meshes), RegionLagrange(1..4) and permute=False regions of random FE functions of "
             "tensor order 0..4 and of arbitrary quadrature data (integral clause); extrapolation on Gauss-Legendre quad/hex regions (tensor-valued, averaged and "
             "per cell); topoints average/mean; the average / mean / dV flags incl. the upgraded simplex rules; meshes with points without cells and uniform=True "
             "regions; stress evaluators and all default view / job cell-data keys, the projected point data of the three documented callables and a foreign "
             "container for SolidBody (six laws), the mixed three-field body and the nearly-incompressible body on 3D, plane-strain, axisymmetric and plain 2D "
             "fields, in three length units, three modulus units and at amplitudes 0.25 and 1e-6; force / moment sums in these units and argument forms; a "
             "configuration is distinct by (operation, template or field kind, tensor shape)"),
    "assumptions": ["rendering is not observed, only the data arrays handed to pyvista", "principal values are compared as sets per cell (the view "
                    "stores them ascending, the job export descending)",
                    "values at points without cells are only required to be finite (the statement speaks of the attached cells)",
                    "the first Piola-Kirchhoff stress of the condensed body is judged by the closed form P_iso(F) + p J F^-T with the pressure state of that call "
                    "(p, J are state variables of the body by design)"],
    "jobs": {"quick": 8, "thorough": 16},
}
