"""C19 - projection and post-processing return the quantities they name.

Reference monitor on tools.project / extrapolate / topoints, the stress evaluators of the solid bodies, the cell data the
views hand to pyvista, the job's export functions and tools.force / moment: every result is compared with its definition
written out with numpy (per-cell quadrature means, P F^T, sums over boundary points, ...).
"""
import numpy as np

from .. import gen
from ..util import Poly, maxabs, monomials_tensor, monomials_total, rng_for
from . import C01

VOIGT = [(0, 0), (1, 1), (2, 2), (0, 1), (1, 2), (0, 2)]


def fe_function(rng, reg, mesh, fam, shape):
    """Nodal values of a random FE function of the region's own space (any nodal values are one) and its quadrature values."""
    import felupe as fem
    size = int(np.prod(shape)) if shape else 1
    vals = rng.standard_normal((mesh.npoints, size))
    if gen.FAMILIES[fam].get("mini"):
        vals[mesh.cells[:, -1]] *= 0.1
    fld = fem.Field(reg, dim=size, values=vals)
    vq = fld.interpolate()  # (size, q, c)
    return vals.reshape(mesh.npoints, *shape), vq.reshape(*shape, *vq.shape[1:])


def case_project(fam, rep):
    def fn(run):
        import felupe as fem
        rng = rng_for(run.seed, "C19", "project", fam, rep)
        mesh, _ = gen.build_mesh(fam, ["distorted", "curved", "affine"][rep % 3] if not fam.startswith(("tri", "tet")) else "affine", rng)
        # a part of a few millimetres modelled in metres (and a large one): the projection must not depend on the length unit
        scale = [1.0, 4e-3, 250.0][(rep + len(fam)) % 3]
        mesh = mesh.copy(points=mesh.points * scale)
        run.units["project:length-scale:%g" % scale] += 1
        if fam in ("triangle6", "triangleMINI"):
            reg = gen.make_region(fam, mesh, quadrature=fem.TriangleQuadrature(order=5))  # project() refuses lower rules loudly
        elif fam in ("tetra10", "tetraMINI"):
            reg = gen.make_region(fam, mesh, quadrature=fem.TetrahedronQuadrature(order=5))
        else:
            reg = gen.make_region(fam, mesh)
        for shape in ((), (3,), (2, 3)):
            nodal, vq = fe_function(rng, reg, mesh, fam, shape)
            got = fem.project(vq, reg)
            run.compare("post.project", "template=%s clause=reproduces-fe-function" % fam, maxabs(got.reshape(nodal.shape) - nodal) / maxabs(nodal), 1e-10,
                        "project() of the quadrature values of an FE function does not return its nodal values (%s)" % fam,
                        unit="project:reproduction:" + fam, config=(fam, "project", shape),
                        sample={"template": fam, "tensor_shape": list(shape), "points": int(mesh.npoints)})
            # arbitrary quadrature data: the volume integral is preserved
            data = rng.standard_normal(vq.shape)
            pr = fem.project(data, reg)
            size = int(np.prod(shape)) if shape else 1
            back = fem.Field(reg, dim=size, values=pr.reshape(mesh.npoints, size)).interpolate().reshape(data.shape)
            dV = reg.dV
            i0 = (data * dV).sum((-2, -1))
            i1 = (back * dV).sum((-2, -1))
            run.compare("post.project", "template=%s clause=integral-preserving" % fam, maxabs(i1 - i0) / max(maxabs(np.abs(data) * dV).sum() if False else float((np.abs(data) * dV).sum()), 1e-300),
                        1e-11, "project() does not preserve the volume integral (%s)" % fam, unit="project:integral:" + fam, config=(fam, "integral", shape))
    return fn


def case_flags(fam, rep):
    """The average / mean / dV flags of project, extrapolate and topoints, with tensor shapes that are not square."""
    def fn(run):
        import felupe as fem
        rng = rng_for(run.seed, "C19", "flags", fam, rep)
        geo = "affine" if fam.startswith(("tri", "tet")) else ["distorted", "affine"][rep % 2]
        mesh, _ = gen.build_mesh(fam, geo, rng)
        reg = gen.make_region(fam, mesh)
        nq, nc, npc = reg.quadrature.npoints, mesh.ncells, mesh.cells.shape[1]
        w = reg.quadrature.weights
        mon = "post.flags"
        for shape in ((), (2, 3), (3,)):
            nodal, vq = fe_function(rng, reg, mesh, fam, shape)
            percell = nodal[mesh.cells]  # (c, a, *shape)
            linear = fam in ("quad", "hexahedron")
            mini = fam.endswith("MINI")  # (their default rules are too low for project() without mean=True: documented, loud)
            # --- average=False: values per cell corner on the disconnected mesh (no averaging across cells)
            if linear:
                got = fem.tools.extrapolate(vq, reg, average=False).reshape(nc, npc, *shape)
                run.compare(mon, "tool=extrapolate template=%s clause=average=False" % fam, maxabs(got - percell) / maxabs(nodal), 1e-11,
                            "extrapolate(average=False) does not return the field's values at the corners of every cell", unit="flags:extrapolate:average=False",
                            config=(fam, "extrapolate", "average=False", shape))
            if fam not in ("triangle", "tetra") and not mini:
                got = fem.project(vq, reg, average=False).reshape(nc, npc, *shape)
                run.compare(mon, "tool=project template=%s clause=average=False" % fam, maxabs(got - percell) / maxabs(nodal), 1e-10,
                            "project(average=False) does not return the field's values at the points of every cell", unit="flags:project:average=False",
                            config=(fam, "project", "average=False", shape))
            data = rng.standard_normal((*shape, nq, nc))
            if nq >= npc:
                got = fem.topoints(data, reg, average=False).reshape(nc, npc, *shape)
                ref = np.moveaxis(np.moveaxis(data[..., :npc, :], -1, 0), -1, 1)
                run.compare(mon, "tool=topoints template=%s clause=average=False" % fam, maxabs(got - ref), 1e-14,
                            "topoints(average=False) does not move the quadrature-point values to the cell's points", unit="flags:topoints:average=False",
                            config=(fam, "topoints", "average=False", shape))
            # --- mean=True: quadrature-weighted cell means, averaged over the attached cells
            cm = np.moveaxis((data * w.reshape(-1, 1)).sum(-2) / w.sum(), -1, 0)  # (c, *shape)
            ref = np.zeros((mesh.npoints, *shape))
            cnt = np.zeros(mesh.npoints)
            for c in range(nc):
                for pnt in mesh.cells[c]:
                    ref[pnt] += cm[c]
                    cnt[pnt] += 1
            ref /= cnt.reshape(-1, *([1] * len(shape)))
            for name, fnc in (("extrapolate", fem.tools.extrapolate), ("project", fem.project), ("topoints", fem.topoints)):
                got = fnc(data, reg, mean=True)
                run.compare(mon, "tool=%s template=%s clause=mean=True" % (name, fam), maxabs(got.reshape(ref.shape) - ref), 1e-13,
                            "%s(mean=True) is not the mean over the attached cells of the weighted cell means" % name, unit="flags:%s:mean=True" % name,
                            config=(fam, name, "mean=True", shape))
                got = fnc(data, reg, mean=True, average=False).reshape(nc, npc, *shape)
                run.compare(mon, "tool=%s template=%s clause=mean=True,average=False" % (name, fam), maxabs(got - cm[:, None]), 1e-13,
                            "%s(mean=True, average=False) is not the weighted cell mean at every point of the cell" % name,
                            unit="flags:%s:mean=True,average=False" % name, config=(fam, name, "mean+noaverage", shape))
            # --- an explicit dV: the projection that preserves the integral with that measure
            if fam not in ("triangle", "tetra") and not mini:
                dVw = reg.dV * rng.uniform(0.5, 2, reg.dV.shape)
                pr = fem.project(data, reg, dV=dVw)
                size = int(np.prod(shape)) if shape else 1
                back = fem.Field(reg, dim=size, values=pr.reshape(mesh.npoints, size)).interpolate().reshape(data.shape)
                i0, i1 = (data * dVw).sum((-2, -1)), (back * dVw).sum((-2, -1))
                run.compare(mon, "tool=project template=%s clause=dV-argument" % fam, maxabs(i1 - i0) / float((np.abs(data) * dVw).sum()), 1e-11,
                            "project(dV=w) does not preserve the integral with respect to the given measure", unit="flags:project:dV", config=(fam, "project", "dV", shape))
        # --- linear simplex regions: the one-point default rule is upgraded (documented), a second-order rule is used as is
        if fam in ("triangle", "tetra"):
            Q2 = (fem.TriangleQuadrature if fam == "triangle" else fem.TetrahedronQuadrature)(order=2)
            r2 = gen.make_region(fam, mesh, quadrature=Q2)
            for shape in ((), (2, 3)):
                nodal, vq2 = fe_function(rng, r2, mesh, fam, shape)
                got = fem.project(vq2, r2)
                run.compare(mon, "tool=project template=%s clause=second-order-rule" % fam, maxabs(got.reshape(nodal.shape) - nodal) / maxabs(nodal), 1e-10,
                            "project() on a linear simplex region with a second-order rule does not reproduce the FE function", unit="flags:project:simplex",
                            config=(fam, "project", "order2", shape))
                # cell-constant data on the default one-point rule: projected field has the same integral
                data1 = rng.standard_normal((*shape, 1, nc))
                pr = fem.project(data1, reg)
                size = int(np.prod(shape)) if shape else 1
                back = fem.Field(r2, dim=size, values=pr.reshape(mesh.npoints, size)).interpolate().reshape(*shape, Q2.npoints, nc)
                i0 = (data1 * reg.dV).sum((-2, -1))
                i1 = (back * r2.dV).sum((-2, -1))
                run.compare(mon, "tool=project template=%s clause=one-point-rule-upgrade" % fam, maxabs(i1 - i0) / float((np.abs(data1) * reg.dV).sum()), 1e-11,
                            "project() of cell-constant data on the default one-point rule does not preserve the integral", unit="flags:project:simplex",
                            config=(fam, "project", "one-point", shape))
                tp = fem.topoints(data1, reg)
                cm1 = np.moveaxis(data1[..., 0, :], -1, 0)
                ref = np.zeros((mesh.npoints, *shape))
                cnt = np.zeros(mesh.npoints)
                for c in range(nc):
                    for pnt in mesh.cells[c]:
                        ref[pnt] += cm1[c]
                        cnt[pnt] += 1
                ref /= cnt.reshape(-1, *([1] * len(shape)))
                run.compare(mon, "tool=topoints template=%s clause=single-quadrature-point" % fam, maxabs(tp.reshape(ref.shape) - ref), 1e-13,
                            "topoints() of one value per cell is not the mean over the attached cells", unit="flags:topoints:single-point", config=(fam, "topoints", "single", shape))
    return fn


def case_extrapolate_lagrange(rep):
    """Gauss-Legendre quad / hexahedron regions of higher order (arbitrary-order Lagrange): a multilinear field sampled at the
    points is recovered from its quadrature-point values."""
    def fn(run):
        import felupe as fem
        rng = rng_for(run.seed, "C19", "extrapolate-lagrange", rep)
        for dim in (2, 3):
            for order in (1, 2, 3, 4)[: (4 if dim == 2 else 3)]:
                mesh = gen.lagrange_mesh(order, dim)
                reg = fem.RegionLagrange(mesh, order=order, dim=dim)
                p = Poly(rng, dim, monomials_tensor(dim, 1))
                nodal = p(mesh.points)
                vq = fem.Field(reg, dim=1, values=nodal.reshape(-1, 1)).interpolate()
                got = fem.tools.extrapolate(vq, reg).ravel()
                if order == 1:
                    # the same region with the rule in tensor-product order (documented permute=False): the quadrature points are
                    # not listed in the order of the cell's nodes
                    Rp = {2: fem.RegionQuad, 3: fem.RegionHexahedron}[dim]
                    mp = gen.build_mesh("quad" if dim == 2 else "hexahedron", "distorted", rng)[0]
                    rp = Rp(mp, quadrature=fem.GaussLegendre(order=1, dim=dim, permute=False))
                    nodal_p = p(mp.points)
                    got_p = fem.tools.extrapolate(fem.Field(rp, dim=1, values=nodal_p.reshape(-1, 1)).interpolate(), rp).ravel()
                    run.compare("post.extrapolate", "template=GaussLegendre(permute=False) clause=reproduces-multilinear", maxabs(got_p - nodal_p) / max(maxabs(nodal_p), 1e-300),
                                1e-10, "extrapolate() on a region whose rule is in tensor-product order (permute=False) does not reproduce a multilinear field",
                                unit="extrapolate:permute=False", config=("extrapolate-permute-false", dim))
                grp = "order<=2" if order <= 2 else "order>=3"
                run.compare("post.extrapolate", "template=RegionLagrange(%s) clause=reproduces-multilinear" % grp, maxabs(got - nodal) / max(maxabs(nodal), 1e-300), 1e-10,
                            "extrapolate() on a RegionLagrange of order %d (dim %d) does not reproduce a multilinear field at the points" % (order, dim),
                            unit="extrapolate:lagrange:" + grp, config=("extrapolate-lagrange", order, dim))
    return fn


def case_extrapolate(fam, rep):
    def fn(run):
        import felupe as fem
        rng = rng_for(run.seed, "C19", "extrapolate", fam, rep)
        quadratic = fam in ("quad9", "hexahedron27")
        mesh, _ = gen.build_mesh(fam, ["undistorted", "distorted", "affine"][rep % 3] if not quadratic else ["undistorted", "affine"][rep % 2], rng)
        reg = gen.make_region(fam, mesh)
        d = mesh.dim
        p = [Poly(rng, d, monomials_tensor(d, 1)) for _ in range(3)]  # multilinear
        if quadratic:
            # bi/tri-quadratic templates (three points per axis, VTK node order): a multilinear polynomial on a parallelepiped grid
            for k in range(3):
                f = p[k]
                fld = fem.Field(reg, dim=1, values=f(mesh.points).reshape(-1, 1))
                got = fem.tools.extrapolate(fld.interpolate(), reg).ravel()
                run.compare("post.extrapolate", "template=%s clause=reproduces-multilinear-polynomial" % fam, maxabs(got - f(mesh.points)) / max(maxabs(f(mesh.points)), 1e-300), 1e-11,
                            "extrapolate() does not reproduce a multilinear polynomial on a %s region" % fam, unit="extrapolate:" + fam, config=(fam, "extrapolate", k))
            return
        # multilinear in the reference coordinates = any FE function of the (bi/tri)linear element; sample one given on the points
        for shape in ((), (3,), (3, 3)):
            nodal, vq = fe_function(rng, reg, mesh, fam, shape)
            got = fem.tools.extrapolate(vq, reg)
            run.compare("post.extrapolate", "template=%s clause=reproduces-multilinear" % fam, maxabs(got.reshape(nodal.shape) - nodal) / maxabs(nodal), 1e-11,
                        "extrapolate() does not reproduce a multilinear field at the points (%s)" % fam, unit="extrapolate:" + fam,
                        config=(fam, "extrapolate", shape))
        if rep % 3 == 0:
            f = p[0]
            fld = fem.Field(reg, dim=1, values=f(mesh.points).reshape(-1, 1))
            got = fem.tools.extrapolate(fld.interpolate(), reg).ravel()
            run.compare("post.extrapolate", "template=%s clause=reproduces-multilinear-polynomial" % fam, maxabs(got - f(mesh.points)) / max(maxabs(f(mesh.points)), 1e-300), 1e-11,
                        "extrapolate() does not reproduce a multilinear polynomial on an undistorted grid", unit="extrapolate:" + fam)
    return fn


def case_topoints(fam, rep):
    def fn(run):
        import felupe as fem
        rng = rng_for(run.seed, "C19", "topoints", fam, rep)
        mesh, _ = gen.build_mesh(fam, "distorted", rng)
        reg = gen.make_region(fam, mesh)
        nq, nc = reg.quadrature.npoints, mesh.ncells
        npc = mesh.cells.shape[1]
        for shape in ((), (3,), (3, 3)):
            vals = rng.standard_normal((*shape, nq, nc))
            cnt = np.zeros(mesh.npoints)
            ref = np.zeros((mesh.npoints, *shape))
            w = reg.quadrature.weights
            cm = (vals * w.reshape(-1, 1)).sum(-2) / w.sum()
            ref2 = np.zeros((mesh.npoints, *shape))
            for c in range(nc):
                for a, pnt in enumerate(mesh.cells[c]):
                    if a < nq:
                        ref[pnt] += vals[..., a, c]
                    ref2[pnt] += cm[..., c]
                    cnt[pnt] += 1
            ref /= cnt.reshape(-1, *([1] * len(shape)))
            ref2 /= cnt.reshape(-1, *([1] * len(shape)))
            if nq >= npc:
                got = fem.topoints(vals, reg)
                run.compare("post.topoints", "template=%s clause=average" % fam, maxabs(got - ref), 1e-13,
                            "topoints(average) is not the mean over the attached cells", unit="topoints:average", config=(fam, "average", shape))
            got2 = fem.topoints(vals, reg, mean=True)
            run.compare("post.topoints", "template=%s clause=mean" % fam, maxabs(got2 - ref2), 1e-13,
                        "topoints(mean=True) is not the mean over the attached cells of the cell means", unit="topoints:mean", config=(fam, "mean", shape))
    return fn


def case_stress_and_views(kind, fam, rep):
    def fn(run):
        import felupe as fem
        rng = rng_for(run.seed, "C19", "views", kind, fam, rep)
        field, mesh, reg = C01.make_field(kind, fam, "distorted", rng)
        C01.random_state(rng, field, grad=0.25)
        ni = rep % 2 == 1
        if ni:
            solid = fem.SolidBodyNearlyIncompressible(fem.NeoHooke(mu=1.0), field, bulk=float(rng.uniform(5, 50)))
        else:
            solid = fem.SolidBody(C01.materials(rng, C01.MATS[rep % 4]), field)
        F = field.extract()[0]
        P = solid.evaluate.gradient(field)[0]
        J = np.linalg.det(np.moveaxis(F, (0, 1), (-2, -1)))
        tau_ref = np.einsum("ik...,jk...->ij...", P, F)
        lab = type(solid).__name__
        run.compare("post.stress", "item=%s clause=kirchhoff" % lab, maxabs(solid.evaluate.kirchhoff_stress(field) - tau_ref) / maxabs(tau_ref), 1e-13,
                    "kirchhoff_stress != P F^T", unit="stress:kirchhoff", config=(lab, kind, "kirchhoff"))
        if P.shape[0] == 3:
            run.compare("post.stress", "item=%s clause=cauchy" % lab, maxabs(solid.evaluate.cauchy_stress(field) - tau_ref / J) / maxabs(tau_ref / J), 1e-13,
                        "cauchy_stress != P F^T / det F", unit="stress:cauchy", config=(lab, kind, "cauchy"))
        # ---- the reported stress belongs to the field handed in, whatever the body evaluated before (stale cached kinematics)
        vals0 = field[0].values.copy()
        for it in range(3):
            field[0].values[:] = gen.random_displacement(rng, mesh, grad=float(rng.uniform(0.1, 0.35)))
            F2 = field.extract()[0]
            J2 = np.linalg.det(np.moveaxis(F2, (0, 1), (-2, -1)))
            if J2.min() < 0.2:
                run.skip("post.stress", "det F < 0.2")
                continue
            first = ("cauchy", "kirchhoff")[(it + rep) % 2] if P.shape[0] == 3 else "kirchhoff"
            got = (solid.evaluate.cauchy_stress if first == "cauchy" else solid.evaluate.kirchhoff_stress)(field)
            # the stress the body evaluated for this call; the condensed body's p, J are updated by every evaluation (by
            # design), so only a plain SolidBody can be re-evaluated for an independent P
            P2 = np.array(solid.results.stress[0], copy=True)
            if not ni:
                Pf = solid.evaluate.gradient(field)[0]
                run.compare("post.stress", "item=%s clause=stress-state-is-of-this-field" % lab, maxabs(P2 - Pf) / maxabs(Pf), 1e-13,
                            "the stress stored by %s_stress(field) is not the stress of that field" % first,
                            unit="stress:stored-P", config=(lab, kind, first, "stored-P"))
            ref2 = np.einsum("ik...,jk...->ij...", P2, F2) / (J2 if first == "cauchy" else 1.0)
            run.compare("post.stress", "item=%s clause=%s-after-state-change" % (lab, first), maxabs(got - ref2) / maxabs(ref2), 1e-13,
                        "%s_stress(field) evaluated first after the field changed is not P F^T%s of that field" % (first, " / det F" if first == "cauchy" else ""),
                        unit="stress:%s:after-state-change" % first, config=(lab, kind, first, "after-state-change"))
        # ---- the evaluators without a field argument report the state of the last assembly (as after a Newton step)
        field[0].values[:] = gen.random_displacement(rng, mesh, grad=float(rng.uniform(0.1, 0.3)))
        F3 = field.extract()[0]
        J3 = np.linalg.det(np.moveaxis(F3, (0, 1), (-2, -1)))
        if J3.min() >= 0.2:
            solid.assemble.vector(field)
            if ni:
                solid.assemble.vector(field)
            P3 = np.array(solid.results.stress[0], copy=True)
            tau3 = np.einsum("ik...,jk...->ij...", P3, F3)
            run.compare("post.stress", "item=%s clause=kirchhoff-without-field" % lab, maxabs(solid.evaluate.kirchhoff_stress() - tau3) / maxabs(tau3), 1e-13,
                        "kirchhoff_stress() after an assembly is not P F^T of the assembled state", unit="stress:no-field-argument", config=(lab, kind, "no-field"))
            if P3.shape[0] == 3:
                run.compare("post.stress", "item=%s clause=cauchy-without-field" % lab, maxabs(solid.evaluate.cauchy_stress() - tau3 / J3) / maxabs(tau3 / J3), 1e-13,
                            "cauchy_stress() after an assembly is not P F^T / det F of the assembled state", unit="stress:no-field-argument")
            if not ni and P3.shape[0] == 3:
                # view of the first Piola-Kirchhoff stress (stress_type=None): cell means of P itself
                try:
                    cdP = np.asarray(solid.view(stress_type=None).mesh.cell_data["Stress"])
                except Exception as exc:
                    run.skip("post.view", "ViewSolid(stress_type=None) not available: " + type(exc).__name__)
                else:
                    Pm = P3.mean(-2)
                    if cdP.shape[1] == 9:
                        refP = np.moveaxis(Pm, -1, 0).reshape(mesh.ncells, 9)
                    else:
                        refP = np.array([Pm[i, j] for i, j in VOIGT]).T
                    run.compare("post.view", "view=solid key=Stress clause=cell-mean", maxabs(cdP - refP) / maxabs(refP), 1e-12,
                                "view cell data 'Stress' (stress_type=None) is not the quadrature mean of the first Piola-Kirchhoff stress",
                                unit="view:Stress[first Piola-Kirchhoff]", config=(lab, kind, "view-P"))
        field[0].values[:] = vals0
        solid.evaluate.gradient(field)
        # ---- view data (what is handed to pyvista)
        Fm = F.mean(-2)  # i j c
        C = np.einsum("ki...,kj...->ij...", F, F)
        w, N = np.linalg.eigh(np.moveaxis(C, (0, 1), (-2, -1)))
        E = np.einsum("...a,...ia,...ja->...ij", np.log(w) / 2, N, N)  # q c i j
        Em = E.mean(0)
        strain_voigt = np.array([Em[:, i, j] * (1 if i == j else 2) for i, j in VOIGT]).T
        princ = (np.log(w) / 2).mean(0)  # c, ascending
        # point data of the same named quantity (project=...): component [p, i, j] of the projected tensor
        if kind == "3d" and not ni and field.region.quadrature.npoints >= mesh.cells.shape[1]:
            vp = field.view(project=fem.topoints)
            gotp = np.asarray(vp.mesh.point_data["Deformation Gradient"]).reshape(mesh.npoints, 3, 3)
            refp = fem.topoints(F, field.region).reshape(mesh.npoints, 3, 3)
            run.compare("post.view", "view=field[project] key=Deformation Gradient clause=point-values", maxabs(gotp - refp) / maxabs(refp), 1e-13,
                        "view point data 'Deformation Gradient'[p, i, j] (project=topoints) is not the projected F_ij", unit="view:Deformation Gradient:points",
                        config=("view-project", kind))
            # a single cell (the layout handed to the plotting backend must not depend on the number of cells)
            m1 = fem.Mesh(mesh.points[mesh.cells[0]], np.arange(mesh.cells.shape[1]).reshape(1, -1), mesh.cell_type)
            f1 = fem.FieldContainer([fem.Field(gen.make_region(fam, m1), dim=3, values=field[0].values[mesh.cells[0]])])
            F1 = np.moveaxis(f1.extract()[0].mean(-2), -1, 0)
            got1 = np.asarray(f1.view().mesh.cell_data["Deformation Gradient"]).reshape(1, 3, 3)
            run.compare("post.view", "view=field[single cell] key=Deformation Gradient clause=cell-mean", maxabs(got1 - F1) / maxabs(F1), 1e-13,
                        "view cell data 'Deformation Gradient' of a one-cell mesh is not the quadrature mean of F_ij", unit="view:Deformation Gradient:single-cell",
                        config=("view-single-cell", kind))
        vf = field.view()
        cd = vf.mesh.cell_data
        got = np.asarray(cd["Deformation Gradient"]).reshape(mesh.ncells, 3, 3)
        ref = np.moveaxis(Fm, -1, 0)  # c i j
        run.compare("post.view", "view=field key=Deformation Gradient clause=cell-mean", maxabs(got - ref) / maxabs(ref), 1e-13,
                    "view cell data 'Deformation Gradient'[c, i, j] is not the quadrature mean of F_ij", unit="view:Deformation Gradient",
                    config=("view", kind, "F"), sample={"key": "Deformation Gradient", "cell0": got[0].tolist(), "mean F cell0": ref[0].tolist()})
        run.compare("post.view", "view=field key=Logarithmic Strain clause=cell-mean", maxabs(np.asarray(cd["Logarithmic Strain"]) - strain_voigt) / max(maxabs(strain_voigt), 1e-300),
                    1e-11, "view cell data 'Logarithmic Strain' is not the mean logarithmic strain in Voigt storage (engineering shear)",
                    unit="view:Logarithmic Strain", config=("view", kind, "log-strain"))
        run.compare("post.view", "view=field key=Principal Values of Logarithmic Strain clause=cell-mean",
                    maxabs(np.sort(np.asarray(cd["Principal Values of Logarithmic Strain"]), axis=1) - np.sort(princ, axis=1)) / max(maxabs(princ), 1e-300), 1e-11,
                    "view cell data 'Principal Values of Logarithmic Strain' are not the mean principal logarithmic strains",
                    unit="view:Principal Values of Logarithmic Strain", config=("view", kind, "princ"))
        pdisp = np.asarray(vf.mesh.point_data["Displacement"])
        u3 = np.pad(field[0].values, ((0, 0), (0, 3 - field[0].values.shape[1])))
        run.compare("post.view", "view=field key=Displacement clause=point-data", maxabs(pdisp - u3), 0.0, "view point data 'Displacement' differs from the field values",
                    unit="view:Displacement")
        if P.shape[0] == 3:
            for st, sref in (("Cauchy", tau_ref / J), ("Kirchhoff", tau_ref)):
                vs = solid.view(stress_type=st)
                cds = vs.mesh.cell_data
                sm = sref.mean(-2)
                voigt = np.array([sm[i, j] for i, j in VOIGT]).T
                run.compare("post.view", "view=solid key=%s Stress clause=cell-mean" % st, maxabs(np.asarray(cds["%s Stress" % st]) - voigt) / maxabs(voigt), 1e-12,
                            "view cell data '%s Stress' is not the mean stress in Voigt storage" % st, unit="view:%s Stress" % st, config=("view", kind, st))
                pv = np.linalg.eigvalsh(np.moveaxis((sref + np.swapaxes(sref, 0, 1)) / 2, (0, 1), (-2, -1))).mean(0)
                run.compare("post.view", "view=solid key=Principal Values of %s Stress clause=cell-mean" % st,
                            maxabs(np.sort(np.asarray(cds["Principal Values of %s Stress" % st]), axis=1) - np.sort(pv, axis=1)) / maxabs(pv), 1e-10,
                            "view cell data 'Principal Values of %s Stress' are not the mean principal stresses" % st, unit="view:Principal Values of %s Stress" % st)
                dev = sref - np.trace(sref) / 3 * np.eye(3).reshape(3, 3, 1, 1)
                vm = np.sqrt(1.5 * (dev ** 2).sum((0, 1))).mean(0)
                run.compare("post.view", "view=solid key=Equivalent of %s Stress clause=cell-mean" % st,
                            maxabs(np.asarray(cds["Equivalent of %s Stress" % st]).ravel() - vm) / maxabs(vm), 1e-12,
                            "view cell data 'Equivalent of %s Stress' is not the mean von Mises stress" % st, unit="view:Equivalent of %s Stress" % st)
        # point data of the named stress / strain (project=...): the projected Voigt components
        if kind == "3d" and P.shape[0] == 3 and not ni and field.region.quadrature.npoints >= mesh.cells.shape[1]:
            sig = tau_ref / J
            vsp = solid.view(project=fem.topoints)
            refv = fem.topoints(np.array([sig[i, j] for i, j in VOIGT]), field.region)
            run.compare("post.view", "view=solid[project] key=Cauchy Stress clause=point-values", maxabs(np.asarray(vsp.mesh.point_data["Cauchy Stress"]) - refv) / maxabs(refv), 1e-12,
                        "view point data 'Cauchy Stress' (project=topoints) are not the projected Voigt components of the Cauchy stress", unit="view:Cauchy Stress:points",
                        config=("view-project-stress", kind))
            vfp = field.view(project=fem.topoints)
            Evq = np.array([np.moveaxis(E, (0, 1), (-2, -1))[i, j] * (1 if i == j else 2) for i, j in VOIGT])  # (6, q, c)
            refe = fem.topoints(Evq, field.region)
            run.compare("post.view", "view=field[project] key=Logarithmic Strain clause=point-values", maxabs(np.asarray(vfp.mesh.point_data["Logarithmic Strain"]) - refe) / max(maxabs(refe), 1e-300), 1e-10,
                        "view point data 'Logarithmic Strain' (project=topoints) are not the projected Voigt components (engineering shear)", unit="view:Logarithmic Strain:points")
        # ---- the job's export functions
        from felupe.mechanics import _job as JB
        run.compare("post.job", "function=deformation_gradient clause=cell-mean", maxabs(JB.deformation_gradient(field)[0] - ref) / maxabs(ref), 1e-13,
                    "job export 'Deformation Gradient' is not the per-cell mean of F", unit="job:Deformation Gradient")
        run.compare("post.job", "function=log_strain clause=cell-mean", maxabs(JB.log_strain(field)[0] - strain_voigt) / max(maxabs(strain_voigt), 1e-300), 1e-11,
                    "job export 'Logarithmic Strain' is not the per-cell mean logarithmic strain (Voigt)", unit="job:Logarithmic Strain")
        run.compare("post.job", "function=log_strain_principal clause=cell-mean", maxabs(JB.log_strain_principal(field)[0] - princ[:, ::-1]) / max(maxabs(princ), 1e-300), 1e-11,
                    "job export 'Principal Values of Logarithmic Strain' are not the per-cell mean principal strains (descending)",
                    unit="job:Principal Values of Logarithmic Strain")
        run.compare("post.job", "function=displacement clause=point-data", maxabs(JB.displacement(field) - u3), 0.0, "job export 'Displacement' differs", unit="job:Displacement")
    return fn


def case_force_moment(rep):
    def fn(run):
        import felupe as fem
        rng = rng_for(run.seed, "C19", "force", rep)
        for kind, fam in (("3d", "hexahedron"), ("planestrain", "quad"), ("mixed", "hexahedron")):
            field, mesh, reg = C01.make_field(kind, fam, "distorted", rng)
            C01.random_state(rng, field)
            d = field[0].dim
            n = int(np.sum(field.fieldsizes))
            forces = rng.standard_normal(n)
            X = mesh.points
            b = fem.Boundary(field[0], fx=lambda x: x > np.median(X[:, 0]))
            Fr = fem.tools.force(field, forces, b)
            fr = forces[: mesh.npoints * d].reshape(-1, d)[b.points]
            run.compare("post.force", "clause=force-sum", maxabs(Fr - fr.sum(0)), 1e-13, "tools.force is not the sum of nodal forces over the boundary's points",
                        unit="force", config=(kind, "force"))
            import scipy.sparse as sp
            Fs = fem.tools.force(field, sp.csr_matrix(forces.reshape(-1, 1)), b)
            run.compare("post.force", "clause=force-sum-sparse", maxabs(np.ravel(Fs) - fr.sum(0)), 1e-13, "tools.force (sparse input) differs", unit="force")
            if d == 3:
                cp = rng.standard_normal(3)
                M = fem.tools.moment(field, forces, b, centerpoint=cp)
                xr = (X + field[0].values)[b.points] - cp
                run.compare("post.force", "clause=moment-sum", maxabs(M - np.cross(xr, fr).sum(0)) / max(maxabs(M), 1e-300), 1e-12,
                            "tools.moment is not the sum of position-cross-force over the boundary's points", unit="moment", config=(kind, "moment"))
    return fn


def cases(tier, seed):
    out = []
    reps = 1 if tier == "quick" else 4
    for fam in ("quad", "quad8", "quad9", "hexahedron", "hexahedron20", "hexahedron27", "triangle6", "tetra10", "triangleMINI", "tetraMINI"):
        for rep in range(reps):
            out.append(("project:%s:%d" % (fam, rep), case_project(fam, rep)))
    for fam in ("quad", "hexahedron", "quad9", "hexahedron27"):
        for rep in range(3 * reps):
            out.append(("extrapolate:%s:%d" % (fam, rep), case_extrapolate(fam, rep)))
    for fam in ("quad", "hexahedron", "hexahedron20", "tetra", "triangle6"):
        for rep in range(reps):
            out.append(("topoints:%s:%d" % (fam, rep), case_topoints(fam, rep)))
    for rep in range(reps):
        out.append(("extrapolate-lagrange:%d" % rep, case_extrapolate_lagrange(rep)))
    for kind, fam in (("3d", "hexahedron"), ("3d", "tetra10"), ("planestrain", "quad"), ("axisymmetric", "quad8"), ("3d", "hexahedron20")):
        for rep in range(2 * reps):
            out.append(("views:%s:%s:%d" % (kind, fam, rep), case_stress_and_views(kind, fam, rep)))
    for rep in range(reps):
        out.append(("force:%d" % rep, case_force_moment(rep)))
    for fam in ("quad", "hexahedron", "quad9", "hexahedron20", "triangle", "tetra", "triangleMINI", "tetraMINI"):
        for rep in range(reps):
            out.append(("flags:%s:%d" % (fam, rep), case_flags(fam, rep)))
    return out


SPEC = {
    "required_units": ["project:reproduction:quad", "project:reproduction:hexahedron", "project:reproduction:tetra10", "project:integral:quad9",
                       "project:reproduction:tetraMINI", "extrapolate:quad", "extrapolate:hexahedron", "extrapolate:quad9", "extrapolate:hexahedron27", "extrapolate:lagrange:order<=2", "topoints:average", "topoints:mean",
                       "project:length-scale:0.004", "project:length-scale:250", "flags:extrapolate:average=False", "flags:extrapolate:mean=True", "flags:extrapolate:mean=True,average=False", "flags:project:average=False",
                       "flags:project:dV", "flags:project:mean=True", "flags:project:simplex", "flags:topoints:average=False", "flags:topoints:mean=True",
                       "flags:topoints:single-point", "stress:no-field-argument", "view:Stress[first Piola-Kirchhoff]", "view:Deformation Gradient:points", "view:Deformation Gradient:single-cell", "view:Cauchy Stress:points", "view:Logarithmic Strain:points",
                       "stress:kirchhoff", "stress:cauchy", "stress:cauchy:after-state-change", "stress:kirchhoff:after-state-change", "view:Deformation Gradient", "view:Logarithmic Strain",
                       "view:Principal Values of Logarithmic Strain", "view:Displacement", "view:Cauchy Stress", "view:Kirchhoff Stress",
                       "view:Principal Values of Cauchy Stress", "view:Equivalent of Cauchy Stress", "job:Deformation Gradient",
                       "job:Logarithmic Strain", "job:Principal Values of Logarithmic Strain", "job:Displacement", "force", "moment"],
    "rule": ("projection on 10 region templates (distorted / curved / affine meshes) of random FE functions of tensor order 0..2 and of "
             "arbitrary quadrature data (integral clause); extrapolation on Gauss-Legendre quad/hex regions; topoints average/mean; stress "
             "evaluators and all default view / job cell-data keys for SolidBody and the nearly-incompressible body in 3D, plane strain and "
             "axisymmetric states; force / moment sums; a configuration is distinct by (operation, template or field kind, tensor shape)"),
    "assumptions": ["rendering is not observed, only the data arrays handed to pyvista", "principal values are compared as sets per cell (the view "
                    "stores them ascending, the job export descending)"],
    "jobs": {"quick": 8, "thorough": 16},
}
