"""C04 - element shape functions: nodal basis, true derivatives, completeness.

Monitor: the real ``function/gradient/hessian`` of every element class are
sampled on a tensor Chebyshev grid and interpolated; the interpolant must
reproduce further random evaluations (this *observes* the degree bound) and
then derivative relations are decided as coefficient identities, i.e. for all
points of the reference cell.  A plain finite-difference cross-check at random
points is the second, independent opinion.
"""
import numpy as np

from ..util import (cheb_der, cheb_eval_tensor, cheb_fit_tensor, cheb_nodes, maxabs, mono, monomials_tensor,
                    monomials_total, rng_for)

TOL = 1e-9


def element_table():
    import felupe as fem
    E = fem.element
    # name, factory, dim, domain, per-variable degree D, completeness ("total"|"tensor", order), nodal, bubble index
    tab = [
        ("Vertex", lambda: E.Vertex(), 1, "cube", 0, ("total", 0), False, None),
        ("Line", lambda: E.Line(), 1, "cube", 1, ("tensor", 1), True, None),
        ("ConstantQuad", lambda: E.ConstantQuad(), 2, "cube", 0, ("total", 0), False, None),
        ("Quad", lambda: E.Quad(), 2, "cube", 1, ("tensor", 1), True, None),
        ("QuadraticQuad", lambda: E.QuadraticQuad(), 2, "cube", 2, ("total", 2), True, None),
        ("BiQuadraticQuad", lambda: E.BiQuadraticQuad(), 2, "cube", 2, ("tensor", 2), True, None),
        ("ConstantHexahedron", lambda: E.ConstantHexahedron(), 3, "cube", 0, ("total", 0), False, None),
        ("Hexahedron", lambda: E.Hexahedron(), 3, "cube", 1, ("tensor", 1), True, None),
        ("QuadraticHexahedron", lambda: E.QuadraticHexahedron(), 3, "cube", 2, ("total", 2), True, None),
        ("TriQuadraticHexahedron", lambda: E.TriQuadraticHexahedron(), 3, "cube", 2, ("tensor", 2), True, None),
        ("Triangle", lambda: E.Triangle(), 2, "simplex", 1, ("total", 1), True, None),
        ("TriangleMINI", lambda: E.TriangleMINI(), 2, "simplex", 2, ("total", 1), True, 3),
        ("QuadraticTriangle", lambda: E.QuadraticTriangle(), 2, "simplex", 2, ("total", 2), True, None),
        ("Tetra", lambda: E.Tetra(), 3, "simplex", 1, ("total", 1), True, None),
        ("TetraMINI", lambda: E.TetraMINI(), 3, "simplex", 2, ("total", 1), True, 4),
        ("QuadraticTetra", lambda: E.QuadraticTetra(), 3, "simplex", 2, ("total", 2), True, None),
    ]
    return tab


CLASS_NAMES = [t[0] for t in [
    ("Vertex",), ("Line",), ("ConstantQuad",), ("Quad",), ("QuadraticQuad",), ("BiQuadraticQuad",),
    ("ConstantHexahedron",), ("Hexahedron",), ("QuadraticHexahedron",), ("TriQuadraticHexahedron",),
    ("Triangle",), ("TriangleMINI",), ("QuadraticTriangle",), ("Tetra",), ("TetraMINI",), ("QuadraticTetra",)]]


def random_points(rng, dim, domain, n, lo=-1.0, hi=1.0):
    if domain == "cube":
        return rng.uniform(lo, hi, (n, dim))
    x = rng.dirichlet(np.ones(dim + 1), n)
    return x[:, :dim]


def entries(mask):
    idx = np.argwhere(mask)
    return "+".join("(" + ",".join(str(i) for i in row) + ")" for row in idx[:8]) + ("+..." if len(idx) > 8 else "")


_Q4 = [(-1, -1), (1, -1), (1, 1), (-1, 1)]
_H8 = [(-1, -1, -1), (1, -1, -1), (1, 1, -1), (-1, 1, -1), (-1, -1, 1), (1, -1, 1), (1, 1, 1), (-1, 1, 1)]
_QE = [(0, 1), (1, 2), (2, 3), (3, 0)]
_HE = [(0, 1), (1, 2), (2, 3), (3, 0), (4, 5), (5, 6), (6, 7), (7, 4), (0, 4), (1, 5), (2, 6), (3, 7)]
_T3 = [(0, 0), (1, 0), (0, 1)]
_T4 = [(0, 0, 0), (1, 0, 0), (0, 1, 0), (0, 0, 1)]
# element class name -> (vertices, edge list for the mid-edge nodes, what follows)
VTK_LAYOUT = {"Quad": (_Q4, [], None), "QuadraticQuad": (_Q4, _QE, None), "BiQuadraticQuad": (_Q4, _QE, "centre"),
              "Hexahedron": (_H8, [], None), "QuadraticHexahedron": (_H8, _HE, None), "TriQuadraticHexahedron": (_H8, _HE, "faces+centre"),
              "Triangle": (_T3, [], None), "QuadraticTriangle": (_T3, [(0, 1), (1, 2), (2, 0)], None),
              "Tetra": (_T4, [], None), "QuadraticTetra": (_T4, [(0, 1), (1, 2), (2, 0), (0, 3), (1, 3), (2, 3)], None),
              "Line": ([(-1,), (1,)], [], None)}


def check_element(run, name, el, dim, domain, D, complete, nodal, bubble, rng, lo=-1.0, hi=1.0, label=None):
    """All C04 clauses for one element object."""
    label = label or name
    mon = "element." + name
    unit = label
    n = D + 3
    # grid on [-1,1]^dim in the fit variable x; reference coordinate r = mid + half*x
    mid, half = 0.5 * (lo + hi), 0.5 * (hi - lo)
    nodes = cheb_nodes(n)
    grid = np.stack(np.meshgrid(*([nodes] * dim), indexing="ij"), -1).reshape(-1, dim)
    R = mid + half * grid

    has_hess = callable(getattr(el, "hessian", None))
    H = np.array([np.asarray(el.function(r), dtype=float) for r in R])
    G = np.array([np.asarray(el.gradient(r), dtype=float) for r in R])
    nb = H.shape[1]
    cH = cheb_fit_tensor(H.reshape(*([n] * dim), nb), n, dim)
    cG = cheb_fit_tensor(G.reshape(*([n] * dim), nb, dim), n, dim)
    if has_hess:
        HH = np.array([np.asarray(el.hessian(r), dtype=float) for r in R])
        cHH = cheb_fit_tensor(HH.reshape(*([n] * dim), nb, dim, dim), n, dim)

    # (1) the fit reproduces further random evaluations -> observed degree bound
    P = random_points(rng, dim, domain, 48, lo, hi)
    Px = (P - mid) / half
    eH = maxabs(cheb_eval_tensor(cH, Px, dim) - np.array([el.function(r) for r in P]))
    eG = maxabs(cheb_eval_tensor(cG, Px, dim) - np.array([el.gradient(r) for r in P]))
    scale = max(1.0, maxabs(G))
    ok = run.compare(mon, "element=%s clause=polynomial-degree" % label, max(eH, eG) / scale, 1e-9,
                     "%s: function/gradient are not polynomials of per-variable degree <= %d" % (label, n - 1),
                     unit=unit + ":degree")
    if has_hess:
        eHH = maxabs(cheb_eval_tensor(cHH, Px, dim) - np.array([el.hessian(r) for r in P]))
        ok = run.compare(mon, "element=%s clause=polynomial-degree-hessian" % label, eHH / max(1.0, maxabs(HH)), 1e-9,
                         "%s: hessian is not a polynomial of per-variable degree <= %d" % (label, n - 1),
                         unit=unit + ":degree") and ok
    if not ok:
        run.skip(mon, "degree bound not observed: coefficient identities not decided")
        return

    # (2) gradient == d function (coefficient identity => all points)
    dH = np.stack([cheb_der(cH, ax) / half for ax in range(dim)], -1)  # (..., nb, dim)
    err = np.abs(dH - cG).reshape(-1, nb, dim).max(0)
    bad = err > TOL * scale
    key = "element=%s clause=gradient entries=%s" % (label, entries(bad))
    run.compare(mon, key if bad.any() else "element=%s clause=gradient" % label, err.max() / scale, TOL,
                "%s: gradient differs from the derivative of function at entries (a,i)=%s" % (label, entries(bad)),
                unit=unit + ":gradient", config=(label, "gradient"),
                detail={"max_coefficient_error": err.max()},
                sample={"element": label, "clause": "gradient", "coef_err": float(err.max()), "grid": n ** dim})
    # (3) hessian == d gradient and symmetric
    if has_hess:
        dG = np.stack([cheb_der(cG, ax) / half for ax in range(dim)], -1)  # (..., nb, dim_i, dim_j): d/dr_j of g_i
        hs = max(1.0, maxabs(HH))
        err = np.abs(dG - cHH).reshape(-1, nb, dim, dim).max(0)
        bad = err > TOL * hs
        key = "element=%s clause=hessian entries=%s" % (label, entries(bad))
        run.compare(mon, key if bad.any() else "element=%s clause=hessian" % label, err.max() / hs, TOL,
                    "%s: hessian differs from the derivative of gradient at entries (a,i,j)=%s" % (label, entries(bad)),
                    unit=unit + ":hessian", config=(label, "hessian"))
        asym = np.abs(cHH - np.swapaxes(cHH, -1, -2)).reshape(-1, nb, dim, dim).max(0)
        bad = asym > TOL * hs
        key = "element=%s clause=hessian-symmetry entries=%s" % (label, entries(bad))
        run.compare(mon, key if bad.any() else "element=%s clause=hessian-symmetry" % label, asym.max() / hs, TOL,
                    "%s: hessian not symmetric at entries %s" % (label, entries(bad)),
                    unit=unit + ":hessian-symmetry", config=(label, "hessian-symmetry"))
    else:
        run.skip(mon, "no hessian provided")

    # FD second opinion at random points
    h = 1e-6 * half
    worst = 0.0
    worst_h = 0.0
    for r in P[:12]:
        for k in range(dim):
            d = np.zeros(dim)
            d[k] = h
            fd = (np.asarray(el.function(r + d), float) - np.asarray(el.function(r - d), float)) / (2 * h)
            worst = max(worst, maxabs(fd - np.asarray(el.gradient(r), float)[:, k]))
            if has_hess:
                fd2 = (np.asarray(el.gradient(r + d), float) - np.asarray(el.gradient(r - d), float)) / (2 * h)
                worst_h = max(worst_h, maxabs(fd2 - np.asarray(el.hessian(r), float)[:, :, k]))
    run.compare(mon, "element=%s clause=gradient-fd" % label, worst / scale, 1e-6,
                "%s: gradient differs from central differences of function" % label, unit=unit + ":gradient-fd")
    if has_hess:
        run.compare(mon, "element=%s clause=hessian-fd" % label, worst_h / max(1.0, maxabs(HH)), 1e-6,
                    "%s: hessian differs from central differences of gradient" % label, unit=unit + ":hessian-fd")

    # (4) nodal property, partition of unity, completeness
    pts = np.asarray(el.points, dtype=float)
    # node positions against the literal (VTK) layout the meshes and files use, not only against the element's own table:
    # vertices in the standard order, mid-edge nodes at the midpoints of the standard edge list, then face / volume centres
    lay = VTK_LAYOUT.get(name)
    if lay is not None and lo == -1.0 and hi == 1.0:
        V, edges, rest = lay
        V = np.asarray(V, float)
        exp = [V]
        if len(pts) > len(V) and edges:
            exp.append(np.array([(V[i] + V[j]) / 2 for i, j in edges]))
        got = pts[: sum(len(x) for x in exp)]
        run.compare(mon, "element=%s clause=node-layout" % label, maxabs(got - np.vstack(exp)), 1e-14,
                    "%s: element.points are not the standard vertices followed by the standard mid-edge nodes" % label, unit=unit + ":node-layout")
        tail = pts[sum(len(x) for x in exp):]
        if rest == "faces+centre" and len(tail) == 7:
            cen = V.mean(0)
            # literal VTK order of the mid-face nodes: x-, x+, y-, y+, z-, z+ (boundary tables, quadrature order and files rely on it)
            okf = maxabs(tail[:6] - (cen + np.array([(-1, 0, 0), (1, 0, 0), (0, -1, 0), (0, 1, 0), (0, 0, -1), (0, 0, 1)], float))) < 1e-14
            if okf and maxabs(tail[6] - cen) < 1e-14:
                run.ok(mon, unit=unit + ":node-layout")
            else:
                run.fail(mon, "element=%s clause=node-layout-faces" % label, "%s: nodes 20..26 are not the six face centres and the cell centre" % label)
        elif rest == "centre" and len(tail) == 1:
            run.compare(mon, "element=%s clause=node-layout-centre" % label, maxabs(tail[0] - V.mean(0)), 1e-14, "%s: last node is not the cell centre" % label,
                        unit=unit + ":node-layout")
    nn = nb if bubble is None else bubble  # number of nodal (non-bubble) functions
    if nodal:
        Hn = np.array([np.asarray(el.function(r), float) for r in pts[:nb]])
        e = maxabs(Hn - np.eye(nb)) if bubble is None else maxabs(Hn[:nn, :nn] - np.eye(nn))
        run.compare(mon, "element=%s clause=nodal" % label, e, 1e-10,
                    "%s: h_a(X_b) != delta_ab" % label, unit=unit + ":nodal", config=(label, "nodal"))
    else:
        run.skip(mon, "nodal clause not applicable (constant shape function)")
    kind, order = complete
    exps = monomials_total(dim, order) if kind == "total" else monomials_tensor(dim, order)
    nodal_pts = pts[:nn] if nodal else None
    worst = 0.0
    worst_e = None
    for e in exps:
        # coefficient tensor of sum_a m(X_a) h_a   vs that of m
        m_grid = mono(R, e).reshape(*([n] * dim))
        cm = cheb_fit_tensor(m_grid, n, dim)
        if nodal:
            comb = np.tensordot(cH[..., :nn], mono(nodal_pts, e), axes=(-1, 0))
        else:
            comb = cH[..., 0] * 1.0  # constant element: reproduces constants only
        err = maxabs(comb - cm) / max(1.0, maxabs(m_grid))  # relative to the size of the monomial on the cell (intervals away from [-1, 1])
        if err > worst:
            worst, worst_e = err, e
    run.compare(mon, "element=%s clause=completeness monomial=%s" % (label, worst_e if worst > TOL else "-"),
                worst, TOL, "%s: monomial %s of the element's order is not reproduced by its nodal basis" % (label, worst_e),
                unit=unit + ":completeness", config=(label, "completeness", len(exps)))

    # (5) bubble vanishes on the boundary of the simplex
    if bubble is not None:
        worst = 0.0
        for f in range(dim + 1):
            bary = rng.dirichlet(np.ones(dim), 8 + D)  # points on face f
            full = np.insert(bary, f, 0.0, axis=1)  # barycentric with zero at f
            pf = full[:, 1:]  # r = barycentric coords 1..dim (vertex 0 is origin)
            worst = max(worst, max(abs(np.asarray(el.function(r), float)[bubble]) for r in pf))
        run.compare(mon, "element=%s clause=bubble-boundary" % label, worst, 1e-12,
                    "%s: bubble function does not vanish on the cell boundary" % label,
                    unit=unit + ":bubble", config=(label, "bubble"))


def case_class(name):
    def fn(run):
        for row in element_table():
            if row[0] != name:
                continue
            nm, fac, dim, domain, D, complete, nodal, bubble = row
            rng = rng_for(run.seed, "C04", nm)
            check_element(run, nm, fac(), dim, domain, D, complete, nodal, bubble, rng)
            if bubble is not None:
                import felupe as fem
                cls = getattr(fem.element, nm)
                mults = [0.5, 27.0 if dim == 2 else 256.0] + list(rng.uniform(-3, 40, 2 if run.tier == "quick" else 8))
                for a in mults:
                    check_element(run, nm, cls(bubble_multiplier=float(a)), dim, domain, D, complete, nodal, bubble,
                                  rng, label="%s" % nm)
                    run.configs.add("%s bubble_multiplier=%.3g" % (nm, a))
    return fn


def case_lagrange(order, dim, permute):
    def fn(run):
        import felupe as fem
        rng = rng_for(run.seed, "C04", "lagrange", order, dim, permute)
        el = fem.element.ArbitraryOrderLagrange(order=order, dim=dim, permute=permute)
        label = "ArbitraryOrderLagrange(order=%d,dim=%d,permute=%s)" % (order, dim, permute)
        if permute:
            # VTK Lagrange ordering: the 2^dim vertices first (standard order), then the interior points of the edges, then of
            # the faces, then of the volume (judged by how many coordinates sit on the boundary of the cube)
            P = np.asarray(el.points, float)
            V = {1: [(-1,), (1,)], 2: _Q4, 3: _H8}[dim]
            onb = np.isclose(np.abs(P), 1.0).sum(1)
            nv, ne = 2 ** dim, {1: 0, 2: 4, 3: 12}[dim] * (order - 1)
            nf = {1: 0, 2: 0, 3: 6}[dim] * (order - 1) ** 2
            blocks_ok = (np.allclose(P[:nv], np.asarray(V, float)) and np.all(onb[nv: nv + ne] == dim - 1)
                         and np.all(onb[nv + ne: nv + ne + nf] == dim - 2) and np.all(onb[nv + ne + nf:] == 0))
            if dim == 1:
                blocks_ok = np.allclose(P[:2, 0], [-1, 1]) and np.all(onb[2:] == 0)
            # ... and the order inside the blocks from an independent statement of the VTK layout (which edge, which direction,
            # which face), not from the element's own table
            from ..oracles.cells import vtk_lagrange_grid
            run.compare("element.ArbitraryOrderLagrange", "element=%s clause=node-layout-within-blocks" % label,
                        maxabs(P - (-1.0 + 2.0 * vtk_lagrange_grid(order, dim) / order)), 1e-13,
                        "%s: node a is not at the grid position the VTK Lagrange layout assigns to it" % label,
                        unit="ArbitraryOrderLagrange:vtk-order", config=("lagrange-order", order, dim))
            if blocks_ok:
                run.ok("element.ArbitraryOrderLagrange", unit="ArbitraryOrderLagrange:vtk-blocks", config=("lagrange-blocks", order, dim))
            else:
                run.fail("element.ArbitraryOrderLagrange", "element=%s clause=node-layout" % label,
                         "%s: points are not ordered vertices -> edge interiors -> face interiors -> volume interior" % label)
        check_element(run, "ArbitraryOrderLagrange", el, dim, "cube", order, ("tensor", order), True, None, rng,
                      label=label)
        # other intervals (constructor argument): the basis must adapt to them; moderate distances from the origin only (the
        # monomial Vandermonde matrix of the implementation loses digits far away: not claimed)
        ivs = [(0.0, 1.0)] if dim == 3 and run.tier == "quick" else [(0.0, 1.0), (-3.0, -1.0)] + ([(2.0, 5.0)] if order <= 4 else [])
        if dim == 3 and order > 3:
            ivs = ivs[:1] if run.tier == "thorough" else []
        for lo_, hi_ in ivs:
            el2 = fem.element.ArbitraryOrderLagrange(order=order, dim=dim, permute=permute, interval=(lo_, hi_))
            check_element(run, "ArbitraryOrderLagrange", el2, dim, "cube", order, ("tensor", order), True, None, rng,
                          lo=lo_, hi=hi_, label=label + "[interval]")
            if permute:
                from ..oracles.cells import vtk_lagrange_grid
                run.compare("element.ArbitraryOrderLagrange", "element=%s[interval] clause=node-layout-within-blocks" % label,
                            maxabs(np.asarray(el2.points, float) - (lo_ + (hi_ - lo_) * vtk_lagrange_grid(order, dim) / order)), 1e-12,
                            "%s: nodes of the element on another interval are not the scaled VTK grid positions" % label,
                            unit="ArbitraryOrderLagrange:vtk-order[interval]", config=("lagrange-order-interval", order, dim, lo_))
    return fn


def lagrange_units():
    out = []
    for dim in (1, 2, 3):
        for order in range(1, 7):
            for permute in (True, False):
                out.append((order, dim, permute))
    return out


def cases(tier, seed):
    out = [("class:" + n, case_class(n)) for n in CLASS_NAMES]
    for order, dim, permute in lagrange_units():
        out.append(("lagrange:%d:%d:%s" % (order, dim, permute), case_lagrange(order, dim, permute)))
    return out


def _required():
    req = []
    hess = {"Vertex", "Line", "ConstantQuad", "Quad", "QuadraticQuad", "ConstantHexahedron", "Hexahedron", "Triangle",
            "TriangleMINI", "Tetra", "TetraMINI"}
    for n in CLASS_NAMES:
        req += [n + ":gradient", n + ":completeness", n + ":degree"]
        if n in hess:
            req += [n + ":hessian", n + ":hessian-symmetry"]
        if not n.startswith("Constant") and n != "Vertex":
            req.append(n + ":nodal")
        if n.endswith("MINI"):
            req.append(n + ":bubble")
    for order, dim, permute in lagrange_units():
        lab = "ArbitraryOrderLagrange(order=%d,dim=%d,permute=%s)" % (order, dim, permute)
        req += [lab + ":gradient", lab + ":nodal", lab + ":completeness"]
        if not (dim == 3 and order > 3):
            req += [lab + "[interval]:gradient", lab + "[interval]:nodal", lab + "[interval]:completeness"]
    req += ["ArbitraryOrderLagrange:vtk-order", "ArbitraryOrderLagrange:vtk-order[interval]"]
    return req


SPEC = {
    "required_units": _required(),
    "exhaustive": True,
    "rule": ("complete enumeration of the 16 element classes and ArbitraryOrderLagrange(order 1..6, dim 1..3, permute "
             "True/False); per element the real function/gradient/hessian are sampled on a (D+3)^dim Chebyshev grid, the "
             "interpolant is confirmed on 48 further random points and derivative/completeness relations are compared "
             "coefficient-wise (identity for all reference points); a configuration is distinct by (element, clause[, "
             "bubble multiplier]) and non-trivial when at least one coefficient comparison was made for it"),
    "assumptions": [
        "the degree bound D+2 per variable is observed on 48 random points, not proved",
        "numpy.polynomial.chebyshev and numpy.linalg are trusted",
    ],
    "jobs": {"quick": 4, "thorough": 8},
    "timeout": {"quick": 600, "thorough": 1800},
}
