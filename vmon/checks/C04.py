"""C04 - element shape functions: nodal basis, true derivatives, completeness.

Monitor: the real ``function/gradient/hessian`` of every element class are
sampled on a tensor Chebyshev grid and interpolated; the interpolant must
reproduce further random evaluations (this *observes* the degree bound) and
then derivative relations are decided as coefficient identities, i.e. for all
points of the reference cell.  A plain finite-difference cross-check at random
points is the second, independent opinion.

A coefficient identity is blind on sets of measure zero and the fit only ever
passes rows of a float64 array, so in addition (audit 3): the members are
evaluated at corners, faces, centre, exact zeros and nodes and must take the
values of the polynomials there; other argument forms (list, tuple, strided,
float32, integers) must denote the same point; all instances of a class are
built first, called derivatives-first, judged in reverse order and asked again
at the end; node positions come from literal tables (also MINI, constant
elements, unpermuted Lagrange grids), bubble multipliers include 0, 0.1, a
negative, an int, 1e-6 and 1e4, Lagrange intervals a long and a short one given
as list / array.
"""
import itertools

import numpy as np
from numpy.polynomial import chebyshev as _cheb

from ..util import (cheb_der, cheb_eval_tensor, cheb_fit_tensor, cheb_nodes, maxabs, mono, monomials_tensor,
                    monomials_total, rng_for)

TOL = 1e-9


def element_table():
    import felupe as fem
    E = fem.element
    # name, factory, dim, domain, per-variable degree D, completeness ("total"|"tensor", order), nodal, bubble index
    tab = [
        ("Vertex", lambda: E.Vertex(), 1, "cube", 0, ("total", 0), False, None),
        ("Line", lambda: E.Line(), 1, "cube", 1, ("tensor", 1), True, None),
        ("ConstantQuad", lambda: E.ConstantQuad(), 2, "cube", 0, ("total", 0), False, None),
        ("Quad", lambda: E.Quad(), 2, "cube", 1, ("tensor", 1), True, None),
        ("QuadraticQuad", lambda: E.QuadraticQuad(), 2, "cube", 2, ("total", 2), True, None),
        ("BiQuadraticQuad", lambda: E.BiQuadraticQuad(), 2, "cube", 2, ("tensor", 2), True, None),
        ("ConstantHexahedron", lambda: E.ConstantHexahedron(), 3, "cube", 0, ("total", 0), False, None),
        ("Hexahedron", lambda: E.Hexahedron(), 3, "cube", 1, ("tensor", 1), True, None),
        ("QuadraticHexahedron", lambda: E.QuadraticHexahedron(), 3, "cube", 2, ("total", 2), True, None),
        ("TriQuadraticHexahedron", lambda: E.TriQuadraticHexahedron(), 3, "cube", 2, ("tensor", 2), True, None),
        ("Triangle", lambda: E.Triangle(), 2, "simplex", 1, ("total", 1), True, None),
        ("TriangleMINI", lambda: E.TriangleMINI(), 2, "simplex", 2, ("total", 1), True, 3),
        ("QuadraticTriangle", lambda: E.QuadraticTriangle(), 2, "simplex", 2, ("total", 2), True, None),
        ("Tetra", lambda: E.Tetra(), 3, "simplex", 1, ("total", 1), True, None),
        ("TetraMINI", lambda: E.TetraMINI(), 3, "simplex", 2, ("total", 1), True, 4),
        ("QuadraticTetra", lambda: E.QuadraticTetra(), 3, "simplex", 2, ("total", 2), True, None),
    ]
    return tab


CLASS_NAMES = [t[0] for t in [
    ("Vertex",), ("Line",), ("ConstantQuad",), ("Quad",), ("QuadraticQuad",), ("BiQuadraticQuad",),
    ("ConstantHexahedron",), ("Hexahedron",), ("QuadraticHexahedron",), ("TriQuadraticHexahedron",),
    ("Triangle",), ("TriangleMINI",), ("QuadraticTriangle",), ("Tetra",), ("TetraMINI",), ("QuadraticTetra",)]]


def random_points(rng, dim, domain, n, lo=-1.0, hi=1.0):
    if domain == "cube":
        return rng.uniform(lo, hi, (n, dim))
    x = rng.dirichlet(np.ones(dim + 1), n)
    return x[:, :dim]


def entries(mask):
    idx = np.argwhere(mask)
    return "+".join("(" + ",".join(str(i) for i in row) + ")" for row in idx[:8]) + ("+..." if len(idx) > 8 else "")


def cheb_eval_points(coef, X, dim):
    """``util.cheb_eval_tensor`` for many points at once (one matrix product instead of a loop over the points)."""
    X = np.asarray(X, float).reshape(-1, dim)
    n = coef.shape[0]
    B = np.ones((len(X), 1))
    for ax in range(dim):
        B = (B[:, :, None] * _cheb.chebvander(X[:, ax], n - 1)[:, None, :]).reshape(len(X), -1)
    return (B @ coef.reshape(n ** dim, -1)).reshape(len(X), *coef.shape[dim:])


def in_cell(X, domain, lo, hi):
    X = np.asarray(X, float)
    if domain == "cube":
        return np.all((X >= lo) & (X <= hi), axis=1)
    return np.all(X >= 0, axis=1) & (X.sum(1) <= 1 + 1e-12)


def special_points(dim, domain, lo, hi, nodes, cap=None):
    """Points of the closed reference cell on which random samples and Chebyshev nodes never fall: corners, faces, the centre,
    exact zeros, 1/3, 1/2, 1 (coordinates of the library's own quadrature points and nodes) and the nodes themselves.

    ``cap``: for the tensor-product elements of arbitrary order (hundreds of nodes, costly evaluations) about ``cap`` lattice
    points and ``cap // 2`` nodes are taken by index (every value still occurs on every axis).  Returns lattice and nodes."""
    vals = sorted({lo, 0.5 * (lo + hi), hi} | {v for v in (0.0, 1.0 / 3.0, 0.5, 1.0) if lo <= v <= hi})
    S = np.array(list(itertools.product(vals, repeat=dim)), float)
    S = S[in_cell(S, domain, lo, hi)]
    nodes = np.asarray(nodes, float).reshape(-1, dim)
    nodes = nodes[in_cell(nodes, domain, lo, hi)]
    if cap is not None and len(S) > cap:
        diag = np.array([[v] * dim for v in vals])
        S = np.vstack([diag, S[::-(-len(S) // cap)]])
    if cap is not None and len(nodes) > cap // 2:
        nodes = nodes[np.unique((np.arange(cap // 2) * 37) % len(nodes))]
    return S, nodes


def form_points(dim, domain, lo, hi):
    """A handful of points of the cell for the argument-form clause (coordinates are dyadic fractions of the cell, i.e. exact in
    float32 on the standard cells) and the ones among them whose coordinates are whole numbers (integer arguments)."""
    if domain == "cube":
        mid, half = 0.5 * (lo + hi), 0.5 * (hi - lo)
        q = [(0.0, 0.0, 0.0), (-0.5, 0.5, 1.0), (0.5, -1.0, -0.25), (1.0, 0.0, -1.0)]
        F = np.array([[mid + half * v for v in row[:dim]] for row in q])
    else:
        F = np.array([row[:dim] for row in [(0.0, 0.0, 0.0), (0.25, 0.5, 0.125), (0.5, 0.0, 0.25), (0.0, 1.0, 0.0)]])
    F = np.unique(F, axis=0)
    whole = F[np.all(F == np.rint(F), axis=1)]
    return F, whole


def _strided(x):
    buf = np.zeros(2 * len(x) + 1)
    buf[1::2] = x
    return buf[1::2]


# argument forms of one reference point: what test_element, user code and the regions pass (a row of a float64 array is the only
# form the other clauses use)
FORMS = [("list", lambda x: [float(v) for v in x]), ("tuple", lambda x: tuple(float(v) for v in x)),
         ("strided", _strided), ("float32", lambda x: np.array(x, np.float32))]
FORMS_WHOLE = [("int-list", lambda x: [int(v) for v in x]), ("int64", lambda x: np.array(x, np.int64)),
               ("int32", lambda x: np.array(x, np.int32))]


def first_calls(el, r):
    """The very first calls on a fresh object, derivatives before ``function`` (the other clauses always call ``function`` first)."""
    out = {"r": np.array(r, float)}
    if callable(getattr(el, "hessian", None)):
        out["hessian"] = np.array(el.hessian(out["r"].copy()), dtype=float)
    out["gradient"] = np.array(el.gradient(out["r"].copy()), dtype=float)
    out["function"] = np.array(el.function(out["r"].copy()), dtype=float)
    return out


def first_point(dim, domain, lo=-1.0, hi=1.0):
    if domain == "cube":
        return 0.5 * (lo + hi) + 0.5 * (hi - lo) * np.array([0.25, -0.5, 0.75][:dim])
    return np.array([0.25, 0.5, 0.125][:dim])


def revisit(run, mon, label, el, rec, unit):
    """function/gradient/hessian depend on (object, point) only: the values recorded right after construction are returned again
    after other instances of the class were built and used (state shared between instances, state carried between calls)."""
    worst = 0.0
    for m in ("function", "gradient", "hessian"):
        if m in rec:
            now = np.array(getattr(el, m)(rec["r"].copy()), dtype=float)
            worst = max(worst, maxabs(now - rec[m]) / max(1.0, maxabs(rec[m])) if now.shape == rec[m].shape else np.inf)
    run.compare(mon, "element=%s clause=instance-independence" % label, worst, 1e-14,
                "%s: an element object returns other values after further instances were created and used" % label,
                unit=unit + ":instance-independence", config=(unit, "instance-independence"))


_Q4 = [(-1, -1), (1, -1), (1, 1), (-1, 1)]
_H8 = [(-1, -1, -1), (1, -1, -1), (1, 1, -1), (-1, 1, -1), (-1, -1, 1), (1, -1, 1), (1, 1, 1), (-1, 1, 1)]
_QE = [(0, 1), (1, 2), (2, 3), (3, 0)]
_HE = [(0, 1), (1, 2), (2, 3), (3, 0), (4, 5), (5, 6), (6, 7), (7, 4), (0, 4), (1, 5), (2, 6), (3, 7)]
_T3 = [(0, 0), (1, 0), (0, 1)]
_T4 = [(0, 0, 0), (1, 0, 0), (0, 1, 0), (0, 0, 1)]
# element class name -> (vertices, edge list for the mid-edge nodes, what follows)
VTK_LAYOUT = {"Quad": (_Q4, [], None), "QuadraticQuad": (_Q4, _QE, None), "BiQuadraticQuad": (_Q4, _QE, "centre"),
              "Hexahedron": (_H8, [], None), "QuadraticHexahedron": (_H8, _HE, None), "TriQuadraticHexahedron": (_H8, _HE, "faces+centre"),
              "Triangle": (_T3, [], None), "QuadraticTriangle": (_T3, [(0, 1), (1, 2), (2, 0)], None),
              "Tetra": (_T4, [], None), "QuadraticTetra": (_T4, [(0, 1), (1, 2), (2, 0), (0, 3), (1, 3), (2, 3)], None),
              "Line": ([(-1,), (1,)], [], None),
              # MINI: the vertices in Triangle / Tetra order (a consistent exchange of two vertices in points and functions would
              # invert every cell of a standard mesh); the position of the bubble point is not pinned (it is read nowhere)
              "TriangleMINI": (_T3, [], None), "TetraMINI": (_T4, [], None),
              # constant elements carry the vertices of the cell they live on
              "ConstantQuad": (_Q4, [], None), "ConstantHexahedron": (_H8, [], None), "Vertex": ([(0,)], [], None)}


def check_element(run, name, el, dim, domain, D, complete, nodal, bubble, rng, lo=-1.0, hi=1.0, label=None, first=None,
                  mult=None, unit=None, cap=None, forms=True):
    """All C04 clauses for one element object.

    ``first``: values of the first calls on the fresh object (:func:`first_calls`), ``mult``: the bubble multiplier the caller
    passed to the constructor (shadow of the argument), ``unit``: name of the must-reach units (default: the label), ``cap``: see
    :func:`special_points`, ``forms``: whether the argument-form clause is run for this object."""
    label = label or name
    mon = "element." + name
    unit = unit or label
    n = D + 3
    # grid on [-1,1]^dim in the fit variable x; reference coordinate r = mid + half*x
    mid, half = 0.5 * (lo + hi), 0.5 * (hi - lo)
    nodes = cheb_nodes(n)
    grid = np.stack(np.meshgrid(*([nodes] * dim), indexing="ij"), -1).reshape(-1, dim)
    R = mid + half * grid

    has_hess = callable(getattr(el, "hessian", None))
    H = np.array([np.asarray(el.function(r), dtype=float) for r in R])
    G = np.array([np.asarray(el.gradient(r), dtype=float) for r in R])
    nb = H.shape[1]
    cH = cheb_fit_tensor(H.reshape(*([n] * dim), nb), n, dim)
    cG = cheb_fit_tensor(G.reshape(*([n] * dim), nb, dim), n, dim)
    if has_hess:
        HH = np.array([np.asarray(el.hessian(r), dtype=float) for r in R])
        cHH = cheb_fit_tensor(HH.reshape(*([n] * dim), nb, dim, dim), n, dim)

    # (1) the fit reproduces further random evaluations -> observed degree bound
    P = random_points(rng, dim, domain, 48, lo, hi)
    Px = (P - mid) / half
    eH = maxabs(cheb_eval_tensor(cH, Px, dim) - np.array([el.function(r) for r in P]))
    eG = maxabs(cheb_eval_tensor(cG, Px, dim) - np.array([el.gradient(r) for r in P]))
    # gradient errors relative to the size of the gradient on this cell (no floor of one: on a long interval the gradient is small;
    # never larger than the former max(1, |G|), i.e. never more tolerant)
    scale = maxabs(G) if maxabs(G) > 0 else 1.0
    ok = run.compare(mon, "element=%s clause=polynomial-degree" % label, max(eH / max(1.0, scale), eG / scale), 1e-9,
                     "%s: function/gradient are not polynomials of per-variable degree <= %d" % (label, n - 1),
                     unit=unit + ":degree")
    if has_hess:
        eHH = maxabs(cheb_eval_tensor(cHH, Px, dim) - np.array([el.hessian(r) for r in P]))
        ok = run.compare(mon, "element=%s clause=polynomial-degree-hessian" % label, eHH / max(1.0, maxabs(HH)), 1e-9,
                         "%s: hessian is not a polynomial of per-variable degree <= %d" % (label, n - 1),
                         unit=unit + ":degree") and ok
    if not ok:
        run.skip(mon, "degree bound not observed: coefficient identities not decided")
        return

    # (2) gradient == d function (coefficient identity => all points)
    dH = np.stack([cheb_der(cH, ax) / half for ax in range(dim)], -1)  # (..., nb, dim)
    err = np.abs(dH - cG).reshape(-1, nb, dim).max(0)
    bad = err > TOL * scale
    key = "element=%s clause=gradient entries=%s" % (label, entries(bad))
    run.compare(mon, key if bad.any() else "element=%s clause=gradient" % label, err.max() / scale, TOL,
                "%s: gradient differs from the derivative of function at entries (a,i)=%s" % (label, entries(bad)),
                unit=unit + ":gradient", config=(label, "gradient"),
                detail={"max_coefficient_error": err.max()},
                sample={"element": label, "clause": "gradient", "coef_err": float(err.max()), "grid": n ** dim})
    # (3) hessian == d gradient and symmetric
    if has_hess:
        dG = np.stack([cheb_der(cG, ax) / half for ax in range(dim)], -1)  # (..., nb, dim_i, dim_j): d/dr_j of g_i
        hs = max(1.0, maxabs(HH))
        err = np.abs(dG - cHH).reshape(-1, nb, dim, dim).max(0)
        bad = err > TOL * hs
        key = "element=%s clause=hessian entries=%s" % (label, entries(bad))
        run.compare(mon, key if bad.any() else "element=%s clause=hessian" % label, err.max() / hs, TOL,
                    "%s: hessian differs from the derivative of gradient at entries (a,i,j)=%s" % (label, entries(bad)),
                    unit=unit + ":hessian", config=(label, "hessian"))
        asym = np.abs(cHH - np.swapaxes(cHH, -1, -2)).reshape(-1, nb, dim, dim).max(0)
        bad = asym > TOL * hs
        key = "element=%s clause=hessian-symmetry entries=%s" % (label, entries(bad))
        run.compare(mon, key if bad.any() else "element=%s clause=hessian-symmetry" % label, asym.max() / hs, TOL,
                    "%s: hessian not symmetric at entries %s" % (label, entries(bad)),
                    unit=unit + ":hessian-symmetry", config=(label, "hessian-symmetry"))
    else:
        run.skip(mon, "no hessian provided")

    # (3b) isolated points: a coefficient identity says nothing about a value that deviates on a set of measure zero (a mask
    # ``r == 0``, ``0**0``, a branch at a node or on a face).  function / gradient / hessian at the corners, faces, centre, exact
    # zeros, 1/3, 1/2 and at the nodes must be the values of the polynomials they are everywhere else.
    Fp, whole = form_points(dim, domain, lo, hi)
    S, Sn = special_points(dim, domain, lo, hi, el.points, cap)
    # (function at the nodes of the arbitrary-order elements is the nodal clause below, not repeated here)
    nfun = len(S) + len(Fp) + (len(Sn) if cap is None else 0)
    S = np.vstack([S, Fp, Sn])
    Sx = (S - mid) / half
    members = [("function", cH, max(1.0, maxabs(H))), ("gradient", cG, scale)] + ([("hessian", cHH, max(1.0, maxabs(HH)))] if has_hess else [])
    for m, c, sc in members:
        ns = nfun if m == "function" else len(S)
        got = np.array([np.asarray(getattr(el, m)(r), dtype=float) for r in S[:ns]])
        exp = cheb_eval_points(c, Sx[:ns], dim)
        e = np.abs(got - exp).reshape(ns, -1).max(1) if got.shape == exp.shape else np.full(ns, np.inf)
        e = np.where(np.isfinite(e), e, np.inf)
        i = int(np.argmax(e))
        run.compare(mon, "element=%s clause=special-points-%s" % (label, m), e[i] / sc, 1e-9,
                    "%s: %s at the isolated point r=%s (corner / face / centre / exact zero / node) is not the value of the polynomial "
                    "it is on the rest of the cell" % (label, m, np.round(S[i], 6).tolist()),
                    unit=unit + ":special-points-" + m, config=(label, "special-points", m, ns))
    # ... and so must the values of the very first calls on the fresh object (derivatives before function)
    if first is not None:
        fx = (first["r"] - mid) / half
        worst = 0.0
        for m, c, sc in members:
            exp = cheb_eval_points(c, fx, dim)[0]
            worst = max(worst, maxabs(first[m] - exp) / sc if first[m].shape == exp.shape else np.inf)
        run.compare(mon, "element=%s clause=first-call" % label, worst, 1e-9,
                    "%s: hessian / gradient called before function on a fresh object differ from the later values" % label,
                    unit=unit + ":first-call", config=(label, "first-call"))
    # (3c) argument forms: list, tuple, strided view, float32 and (at points with whole-number coordinates) integers denote the
    # same point as the float64 row every other clause passes; the reference is the value for that row, which the clause above
    # has just judged against the polynomial (these points are part of S), so that a defect at a point is reported once
    for flist, pts_f in ((FORMS, Fp), (FORMS_WHOLE, whole)):
        if not forms or not len(pts_f):
            continue
        exps = [[np.asarray(getattr(el, m)(np.array(x, dtype=float)), dtype=float) for x in pts_f] for m, c, sc in members]
        for fname, conv in flist:
            if fname == "float32" and not np.all(pts_f.astype(np.float32) == pts_f):
                run.skip(mon, "float32 form: the points of this cell are not exact in float32")
                continue
            worst = 0.0
            for (m, c, sc), exp in zip(members, exps):
                for x, ex in zip(pts_f, exp):
                    got = np.asarray(getattr(el, m)(conv(x)))
                    worst = max(worst, maxabs(got.astype(float) - ex) / sc if got.shape == ex.shape else np.inf)
            # float32: the point is exact in float32 on the standard cells, only the arithmetic may be single precision
            run.compare(mon, "element=%s clause=argument-form form=%s" % (label, fname), worst, 1e-4 if fname == "float32" else 1e-9,
                        "%s: function/gradient/hessian for a point given as %s differ from the values for the float64 array" % (label, fname),
                        unit=unit + ":argument-form", config=(label, "argument-form", fname))

    # FD second opinion at random points
    h = 1e-5 * half  # (truncation ~1e-9 for degree 6, round-off of the order-6 members on intervals away from zero ten times below the 1e-6 step: 0.08 instead of 0.78 of the bound)
    worst = 0.0
    worst_h = 0.0
    for r in P[:12]:
        for k in range(dim):
            d = np.zeros(dim)
            d[k] = h
            fd = (np.asarray(el.function(r + d), float) - np.asarray(el.function(r - d), float)) / (2 * h)
            worst = max(worst, maxabs(fd - np.asarray(el.gradient(r), float)[:, k]))
            if has_hess:
                fd2 = (np.asarray(el.gradient(r + d), float) - np.asarray(el.gradient(r - d), float)) / (2 * h)
                worst_h = max(worst_h, maxabs(fd2 - np.asarray(el.hessian(r), float)[:, :, k]))
    run.compare(mon, "element=%s clause=gradient-fd" % label, worst / scale, 1e-6,
                "%s: gradient differs from central differences of function" % label, unit=unit + ":gradient-fd")
    if has_hess:
        run.compare(mon, "element=%s clause=hessian-fd" % label, worst_h / max(1.0, maxabs(HH)), 1e-6,
                    "%s: hessian differs from central differences of gradient" % label, unit=unit + ":hessian-fd")

    # (4) nodal property, partition of unity, completeness
    pts = np.asarray(el.points, dtype=float)
    # node positions against the literal (VTK) layout the meshes and files use, not only against the element's own table:
    # vertices in the standard order, mid-edge nodes at the midpoints of the standard edge list, then face / volume centres
    lay = VTK_LAYOUT.get(name)
    if lay is not None and lo == -1.0 and hi == 1.0:
        V, edges, rest = lay
        V = np.asarray(V, float)
        exp = [V]
        if len(pts) > len(V) and edges:
            exp.append(np.array([(V[i] + V[j]) / 2 for i, j in edges]))
        got = pts[: sum(len(x) for x in exp)]
        run.compare(mon, "element=%s clause=node-layout" % label, maxabs(got - np.vstack(exp)), 1e-14,
                    "%s: element.points are not the standard vertices followed by the standard mid-edge nodes" % label, unit=unit + ":node-layout")
        tail = pts[sum(len(x) for x in exp):]
        if rest == "faces+centre" and len(tail) == 7:
            cen = V.mean(0)
            # literal VTK order of the mid-face nodes: x-, x+, y-, y+, z-, z+ (boundary tables, quadrature order and files rely on it)
            okf = maxabs(tail[:6] - (cen + np.array([(-1, 0, 0), (1, 0, 0), (0, -1, 0), (0, 1, 0), (0, 0, -1), (0, 0, 1)], float))) < 1e-14
            if okf and maxabs(tail[6] - cen) < 1e-14:
                run.ok(mon, unit=unit + ":node-layout")
            else:
                run.fail(mon, "element=%s clause=node-layout-faces" % label, "%s: nodes 20..26 are not the six face centres and the cell centre" % label)
        elif rest == "centre" and len(tail) == 1:
            run.compare(mon, "element=%s clause=node-layout-centre" % label, maxabs(tail[0] - V.mean(0)), 1e-14, "%s: last node is not the cell centre" % label,
                        unit=unit + ":node-layout")
    nn = nb if bubble is None else bubble  # number of nodal (non-bubble) functions
    if nodal:
        Hn = np.array([np.asarray(el.function(r), float) for r in pts[:nb]])
        e = maxabs(Hn - np.eye(nb)) if bubble is None else maxabs(Hn[:nn, :nn] - np.eye(nn))
        run.compare(mon, "element=%s clause=nodal" % label, e, 1e-10,
                    "%s: h_a(X_b) != delta_ab" % label, unit=unit + ":nodal", config=(label, "nodal"))
    else:
        run.skip(mon, "nodal clause not applicable (constant shape function)")
    kind, order = complete
    exps = monomials_total(dim, order) if kind == "total" else monomials_tensor(dim, order)
    nodal_pts = pts[:nn] if nodal else None
    worst = 0.0
    worst_e = None
    for e in exps:
        # coefficient tensor of sum_a m(X_a) h_a   vs that of m
        m_grid = mono(R, e).reshape(*([n] * dim))
        cm = cheb_fit_tensor(m_grid, n, dim)
        if nodal:
            comb = np.tensordot(cH[..., :nn], mono(nodal_pts, e), axes=(-1, 0))
        else:
            comb = cH[..., 0] * 1.0  # constant element: reproduces constants only
        err = maxabs(comb - cm) / maxabs(m_grid)  # relative to the size of the monomial on the cell (intervals away from [-1, 1], short and long ones)
        if err > worst:
            worst, worst_e = err, e
    run.compare(mon, "element=%s clause=completeness monomial=%s" % (label, worst_e if worst > TOL else "-"),
                worst, TOL, "%s: monomial %s of the element's order is not reproduced by its nodal basis" % (label, worst_e),
                unit=unit + ":completeness", config=(label, "completeness", len(exps)))

    # (5) bubble vanishes on the boundary of the simplex
    if bubble is not None:
        worst = 0.0
        for f in range(dim + 1):
            bary = rng.dirichlet(np.ones(dim), 8 + D)  # points on face f
            full = np.insert(bary, f, 0.0, axis=1)  # barycentric with zero at f
            pf = full[:, 1:]  # r = barycentric coords 1..dim (vertex 0 is origin)
            worst = max(worst, max(abs(np.asarray(el.function(r), float)[bubble]) for r in pf))
        # absolute bound for the multipliers up to 256, beyond that relative to the multiplier (round-off of 1 - r - s times a)
        run.compare(mon, "element=%s clause=bubble-boundary" % label, worst, 1e-12 * max(1.0, abs(float(mult if mult is not None else 1.0)) / 256.0),
                    "%s: bubble function does not vanish on the cell boundary" % label,
                    unit=unit + ":bubble", config=(label, "bubble"))


def fixed_multipliers(dim, tier):
    out = [("0", 0), ("0.1", 0.1), ("-5", -5.0), ("int", 256 if dim == 2 else 27), ("1e-6", 1e-6), ("1e4", 1e4)]
    if tier != "quick":
        # (no float32 multiplier: with list arguments the bubble is then evaluated in single precision - the caller's choice)
        out += [("-0.0", -0.0), ("0-d", np.array(2.5))]
    return out


def case_class(name):
    def fn(run):
        for row in element_table():
            if row[0] != name:
                continue
            nm, fac, dim, domain, D, complete, nodal, bubble = row
            rng = rng_for(run.seed, "C04", nm)
            x0 = first_point(dim, domain)
            # all instances are built first (each one is called once right after its construction, derivatives first), then they
            # are judged in reverse order and finally asked again: regions of mixed fields keep several element objects alive
            objs = [(None, nm, fac())]
            recs = [first_calls(objs[0][2], x0)]
            if bubble is not None:
                import felupe as fem
                cls = getattr(fem.element, nm)
                mults = [0.5, 27.0 if dim == 2 else 256.0] + list(rng.uniform(-3, 40, 2 if run.tier == "quick" else 8))
                for a in mults:
                    objs.append((float(a), nm, cls(bubble_multiplier=float(a))))
                    recs.append(first_calls(objs[-1][2], x0))
                # "all bubble multipliers": zero, the default of the MINI regions (0.1), a negative one, an int, a tiny and a
                # large one, passed as they are (no float()); scheduled for every seed, with must-reach units of their own
                for tag, a in fixed_multipliers(dim, run.tier):
                    objs.append((a, "%s[a=%s]" % (nm, tag), cls(bubble_multiplier=a)))
                    recs.append(first_calls(objs[-1][2], x0))
            for (a, unit, el), rec in list(zip(objs, recs))[::-1]:
                check_element(run, nm, el, dim, domain, D, complete, nodal, bubble, rng, label="%s" % nm, first=rec, mult=a, unit=unit)
                if a is not None:
                    run.configs.add("%s bubble_multiplier=%.3g" % (nm, float(a)))
            for (a, unit, el), rec in zip(objs, recs):
                revisit(run, "element." + nm, nm, el, rec, unit)
    return fn


def lagrange_intervals(order, dim, permute, tier):
    """(tag, constructor argument, lo, hi) of the intervals other than the default one; scheduled by indices."""
    # moderate distances from the origin only (the monomial Vandermonde matrix of the implementation loses digits far away: not
    # claimed)
    ivs = [(0.0, 1.0)] if dim == 3 and tier == "quick" else [(0.0, 1.0), (-3.0, -1.0)] + ([(2.0, 5.0)] if order <= 4 else [])
    if dim == 3 and order > 3:
        ivs = ivs[:1] if tier == "thorough" else []
    out = [("", iv, iv[0], iv[1]) for iv in ivs]
    # other forms and sizes of the argument: a long interval as a list of ints, a short one as an array (both centred scalings of
    # the standard cells, i.e. as well conditioned as these); quick tier: every second (order, dim) by index, the long one with
    # and the short one without permutation, in 3D for order 1 only
    extra = [(":long", [-500, 500], -500.0, 500.0), (":short", np.array([-1e-3, 1e-3]), -1e-3, 1e-3)]
    if dim == 3 and order > 3:
        extra = extra[:1] if tier == "thorough" else []
    elif tier == "quick":
        extra = [extra[0 if permute else 1]] if (order + dim) % 2 == 0 and (dim < 3 or order == 1) else []
    return out + extra


def case_lagrange(order, dim, permute):
    def fn(run):
        import felupe as fem
        rng = rng_for(run.seed, "C04", "lagrange", order, dim, permute)
        el = fem.element.ArbitraryOrderLagrange(order=order, dim=dim, permute=permute)
        label = "ArbitraryOrderLagrange(order=%d,dim=%d,permute=%s)" % (order, dim, permute)
        if permute:
            # VTK Lagrange ordering: the 2^dim vertices first (standard order), then the interior points of the edges, then of
            # the faces, then of the volume (judged by how many coordinates sit on the boundary of the cube)
            P = np.asarray(el.points, float)
            V = {1: [(-1,), (1,)], 2: _Q4, 3: _H8}[dim]
            onb = np.isclose(np.abs(P), 1.0).sum(1)
            nv, ne = 2 ** dim, {1: 0, 2: 4, 3: 12}[dim] * (order - 1)
            nf = {1: 0, 2: 0, 3: 6}[dim] * (order - 1) ** 2
            blocks_ok = (np.allclose(P[:nv], np.asarray(V, float)) and np.all(onb[nv: nv + ne] == dim - 1)
                         and np.all(onb[nv + ne: nv + ne + nf] == dim - 2) and np.all(onb[nv + ne + nf:] == 0))
            if dim == 1:
                blocks_ok = np.allclose(P[:2, 0], [-1, 1]) and np.all(onb[2:] == 0)
            # ... and the order inside the blocks from an independent statement of the VTK layout (which edge, which direction,
            # which face), not from the element's own table
            from ..oracles.cells import vtk_lagrange_grid
            run.compare("element.ArbitraryOrderLagrange", "element=%s clause=node-layout-within-blocks" % label,
                        maxabs(P - (-1.0 + 2.0 * vtk_lagrange_grid(order, dim) / order)), 1e-13,
                        "%s: node a is not at the grid position the VTK Lagrange layout assigns to it" % label,
                        unit="ArbitraryOrderLagrange:vtk-order", config=("lagrange-order", order, dim))
            if blocks_ok:
                run.ok("element.ArbitraryOrderLagrange", unit="ArbitraryOrderLagrange:vtk-blocks", config=("lagrange-blocks", order, dim))
            else:
                run.fail("element.ArbitraryOrderLagrange", "element=%s clause=node-layout" % label,
                         "%s: points are not ordered vertices -> edge interiors -> face interiors -> volume interior" % label)
        # all variants are built first (default interval and the other ones; each is called once right after its construction,
        # gradient first), then judged in reverse order and finally asked again (a table shared between instances of one order
        # would be overwritten by the later ones)
        x0 = first_point(dim, "cube")
        cap = 48 if run.tier == "quick" else 128
        variants = [("", None, -1.0, 1.0, el, first_calls(el, x0))]
        for tag, arg, lo_, hi_ in lagrange_intervals(order, dim, permute, run.tier):
            el2 = fem.element.ArbitraryOrderLagrange(order=order, dim=dim, permute=permute, interval=arg)
            variants.append((tag, arg, lo_, hi_, el2, first_calls(el2, first_point(dim, "cube", lo_, hi_))))
        for iv, (tag, arg, lo_, hi_, el2, rec) in list(enumerate(variants))[::-1]:
            if arg is None:
                check_element(run, "ArbitraryOrderLagrange", el2, dim, "cube", order, ("tensor", order), True, None, rng,
                              label=label, first=rec, cap=cap)
            else:
                # (argument forms: the code is the same on every interval; quick tier: default and first other interval only)
                check_element(run, "ArbitraryOrderLagrange", el2, dim, "cube", order, ("tensor", order), True, None, rng,
                              lo=lo_, hi=hi_, label=label + "[interval]", first=rec, unit=label + "[interval%s]" % tag, cap=cap,
                              forms=run.tier != "quick" or iv == 1)
            P2 = np.asarray(el2.points, float)
            big = max(1.0, abs(lo_), abs(hi_))
            if permute and arg is not None:
                from ..oracles.cells import vtk_lagrange_grid
                run.compare("element.ArbitraryOrderLagrange", "element=%s[interval] clause=node-layout-within-blocks" % label,
                            maxabs(P2 - (lo_ + (hi_ - lo_) * vtk_lagrange_grid(order, dim) / order)), 1e-12 * max(1.0, big / 5.0),
                            "%s: nodes of the element on another interval are not the scaled VTK grid positions" % label,
                            unit="ArbitraryOrderLagrange:vtk-order[interval]", config=("lagrange-order-interval", order, dim, lo_))
            if not permute:
                # permute=False: the order of the nodes is not documented, their set is: the full tensor grid of order+1 equidistant
                # positions per axis on the requested interval (nodal / completeness read the positions from the element itself;
                # an element that ignores ``interval`` in points and basis alike satisfies both)
                idx = np.rint((P2 - lo_) / (hi_ - lo_) * order)
                full = P2.shape == ((order + 1) ** dim, dim) and len(np.unique(idx, axis=0)) == (order + 1) ** dim \
                    and idx.min() >= 0 and idx.max() <= order
                run.compare("element.ArbitraryOrderLagrange", "element=%s%s clause=node-grid" % (label, "[interval]" if arg is not None else ""),
                            maxabs(P2 - (lo_ + (hi_ - lo_) * idx / order)) / big if full else np.inf, 1e-13,
                            "%s: points are not the tensor grid of order+1 equidistant positions on the interval" % label,
                            unit="ArbitraryOrderLagrange:node-grid" + ("[interval]" if arg is not None else ""),
                            config=("lagrange-node-grid", order, dim, lo_, hi_))
        for tag, arg, lo_, hi_, el2, rec in variants:
            revisit(run, "element.ArbitraryOrderLagrange", label + ("[interval]" if arg is not None else ""), el2, rec,
                    label + ("[interval%s]" % tag if arg is not None else ""))
    return fn


def lagrange_units():
    out = []
    for dim in (1, 2, 3):
        for order in range(1, 7):
            for permute in (True, False):
                out.append((order, dim, permute))
    return out


def cases(tier, seed):
    out = [("class:" + n, case_class(n)) for n in CLASS_NAMES]
    for order, dim, permute in lagrange_units():
        out.append(("lagrange:%d:%d:%s" % (order, dim, permute), case_lagrange(order, dim, permute)))
    return out


def _required():
    req = []
    hess = {"Vertex", "Line", "ConstantQuad", "Quad", "QuadraticQuad", "ConstantHexahedron", "Hexahedron", "Triangle",
            "TriangleMINI", "Tetra", "TetraMINI"}
    for n in CLASS_NAMES:
        req += [n + ":gradient", n + ":completeness", n + ":degree"]
        if n in hess:
            req += [n + ":hessian", n + ":hessian-symmetry"]
        if not n.startswith("Constant") and n != "Vertex":
            req.append(n + ":nodal")
        if n.endswith("MINI"):
            req.append(n + ":bubble")
    for order, dim, permute in lagrange_units():
        lab = "ArbitraryOrderLagrange(order=%d,dim=%d,permute=%s)" % (order, dim, permute)
        req += [lab + ":gradient", lab + ":nodal", lab + ":completeness"]
        if not (dim == 3 and order > 3):
            req += [lab + "[interval]:gradient", lab + "[interval]:nodal", lab + "[interval]:completeness"]
    req += ["ArbitraryOrderLagrange:vtk-order", "ArbitraryOrderLagrange:vtk-order[interval]"]
    # audit 3: isolated points, first calls, argument forms, instance independence for every class and Lagrange variant; the fixed
    # bubble multipliers; node grid of the unpermuted Lagrange elements; long / short intervals as scheduled in the quick tier
    for n in CLASS_NAMES:
        req += [n + ":special-points-function", n + ":special-points-gradient", n + ":first-call", n + ":argument-form",
                n + ":instance-independence", n + ":node-layout"]
        if n in hess:
            req.append(n + ":special-points-hessian")
        if n.endswith("MINI"):
            for tag, a in fixed_multipliers(2, "quick"):
                req += ["%s[a=%s]:%s" % (n, tag, c) for c in ("gradient", "hessian", "bubble", "special-points-gradient",
                                                             "instance-independence")]
    for order, dim, permute in lagrange_units():
        lab = "ArbitraryOrderLagrange(order=%d,dim=%d,permute=%s)" % (order, dim, permute)
        req += [lab + ":special-points-function", lab + ":special-points-gradient", lab + ":first-call", lab + ":argument-form",
                lab + ":instance-independence"]
        for tag, arg, lo_, hi_ in lagrange_intervals(order, dim, permute, "quick"):
            req += [lab + "[interval%s]:%s" % (tag, c) for c in ("gradient", "nodal", "completeness", "special-points-gradient",
                                                                  "instance-independence")]
    req += ["ArbitraryOrderLagrange:node-grid", "ArbitraryOrderLagrange:node-grid[interval]"]
    return req


SPEC = {
    "required_units": _required(),
    "exhaustive": True,
    "rule": ("complete enumeration of the 16 element classes and ArbitraryOrderLagrange(order 1..6, dim 1..3, permute "
             "True/False); per element the real function/gradient/hessian are sampled on a (D+3)^dim Chebyshev grid, the "
             "interpolant is confirmed on 48 further random points and derivative/completeness relations are compared "
             "coefficient-wise (identity for all reference points); the members are also evaluated at the isolated points "
             "{lo, mid, hi, 0, 1/3, 1/2, 1}^dim and the nodes (by index at most 48 / 128 lattice points and nodes for the large "
             "Lagrange elements) against the interpolant, with list / tuple / strided / float32 / integer arguments, "
             "derivatives-first on the fresh object and again after all other instances were used; fixed bubble multipliers "
             "0, 0.1, -5, int, 1e-6, 1e4 and a long / short Lagrange interval are scheduled by index; a configuration is "
             "distinct by (element, clause[, bubble multiplier]) and non-trivial when at least one coefficient comparison "
             "was made for it"),
    "assumptions": [
        "the degree bound D+2 per variable is observed on 48 random points, not proved",
        "numpy.polynomial.chebyshev and numpy.linalg are trusted",
    ],
    "jobs": {"quick": 4, "thorough": 8},
    "timeout": {"quick": 600, "thorough": 1800},
}
