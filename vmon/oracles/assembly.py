"""Naive-loop reference for integral forms (C02).

Everything is written in *integrand space*: a test (or trial) function of a
field is a small tensor N[a, i] that lives in the same slot as the integrand
axes it is contracted with,

  value type, vector field :  N[a,i][m]    = delta_im h_a            (m < len(fun); extra components are zero)
  value type, scalar field :  N[a,0]       = h_a
  gradient type            :  N[a,i][m,J]  = delta_im dh_a/dX_J       (zero padded to 3x3 for plane strain)
                              + axisymmetric hoop term N[a,1][2,2] = h_a / R

and the form is the plain sum over cells c, quadrature points q, functions a
(and b) and components i (and k) of  w_qc * <N_v[a,i], fun_qc, N_u[b,k]>,
w = dV (Cartesian, plane strain) or 2 pi R dV (axisymmetric), placed at the
global row offset_f + dim_f * cells[c,a] + i.
"""
import numpy as np


def kind_of(field):
    return type(field).__name__


def basis_tensor(field, grad, a, i, q, c, slot_shape, R=None):
    reg = field.region
    h = reg.h[a, q, c if reg.h.shape[-1] > 1 else 0]
    d = field.dim
    if not grad:
        if len(slot_shape) == 0:
            return np.array(h)
        N = np.zeros(slot_shape)
        if i < slot_shape[0]:
            N[i] = h
        return N
    dh = reg.dhdX[a, :, q, c if reg.dhdX.shape[-1] > 1 else 0]
    N = np.zeros(slot_shape)
    if len(slot_shape) == 1 and d == 1:
        # a scalar field's gradient-type test function against a flux given as a plain vector (no component axis of length one)
        N[: len(dh)] = dh[: slot_shape[0]]
        return N
    N[i, : len(dh)] = dh[: slot_shape[1]]
    if kind_of(field) == "FieldAxisymmetric" and slot_shape[0] == 3 and i == 1:
        N[2, 2] = h / R
    return N


def weights(fields_first, dV, q, c):
    w = dV[q, c if dV.shape[-1] > 1 else 0]
    f0 = fields_first
    if kind_of(f0) == "FieldAxisymmetric":
        # radius at the quadrature point from the mesh coordinates (second column), not the field's cached array
        reg = f0.region
        n = reg.h.shape[0]
        R = float(np.dot(reg.mesh.points[reg.mesh.cells[c, :n], 1], reg.h[:, q, 0] if reg.h.ndim == 3 else reg.h[:, q]))
        return 2 * np.pi * R * w, R
    return w, None


def fun_at(fun, q, c, nslot):
    """Integrand at (q, c); broadcast (size-one) trailing axes are honoured."""
    qq = q if fun.shape[-2] > 1 else 0
    cc = c if fun.shape[-1] > 1 else 0
    return fun[(Ellipsis, qq, cc)]


def slot_shape_linear(fun):
    return tuple(fun.shape[:-2])


def ref_linear(fun, v, dV, grad_v, first):
    """Dense vector of one field block."""
    reg = v.region
    cells = reg.mesh.cells
    nq = reg.quadrature.npoints
    out = np.zeros(reg.mesh.npoints * v.dim)
    if fun is None:
        return out
    fun = np.asarray(fun)
    slot = slot_shape_linear(fun)
    for c in range(len(cells)):
        for q in range(nq):
            w, R = weights(first, dV, q, c)
            f = fun_at(fun, q, c, len(slot))
            for a in range(cells.shape[1]):
                for i in range(v.dim):
                    N = basis_tensor(v, grad_v, a, i, q, c, slot, R)
                    out[v.dim * cells[c, a] + i] += w * float(np.sum(N * f))
    return out


def ref_form(funs, fields_v, dV, fields_u=None, grad_v=None, grad_u=None, mode=None):
    """Dense reference of a complete IntegralForm (block layout as documented)."""
    nv = len(fields_v)
    first = fields_v[0]
    if grad_v is None:
        grad_v = [True] + [False] * (nv - 1)
    sizes_v = [f.region.mesh.npoints * f.dim for f in fields_v]
    off_v = np.concatenate([[0], np.cumsum(sizes_v)]).astype(int)
    if fields_u is None:
        out = np.zeros(off_v[-1])
        for k, (fun, v, g) in enumerate(zip(funs, fields_v, grad_v)):
            out[off_v[k]: off_v[k + 1]] = ref_linear(fun, v, dV, g, first)
        return out
    nu = len(fields_u)
    if grad_u is None:
        grad_u = [True] + [False] * (nu - 1)
    sizes_u = [f.region.mesh.npoints * f.dim for f in fields_u]
    off_u = np.concatenate([[0], np.cumsum(sizes_u)]).astype(int)
    K = np.zeros((off_v[-1], off_u[-1]))
    if mode == 2:
        ii, jj = np.triu_indices(nv)
    else:
        ii, jj = [x.ravel() for x in np.indices((nv, nu))]
    for fun, i, j in zip(funs, ii, jj):
        B = ref_bilinear_slots(fun, fields_v[i], fields_u[j], dV, grad_v[i], grad_u[j], first)
        K[off_v[i]: off_v[i + 1], off_u[j]: off_u[j + 1]] = B
        if mode == 2 and i != j:
            K[off_v[j]: off_v[j + 1], off_u[i]: off_u[i + 1]] = B.T
    return K


def ref_bilinear_slots(fun, v, u, dV, grad_v, grad_u, first):
    """Bilinear block with the slot split derived from the field kinds:
    gradient type -> 2 axes; value type -> 1 axis for vector fields (dim > 1), 0 axes for scalar fields."""
    rv, ru = v.region, u.region
    cv, cu = rv.mesh.cells, ru.mesh.cells
    nq = rv.quadrature.npoints
    K = np.zeros((rv.mesh.npoints * v.dim, ru.mesh.npoints * u.dim))
    if fun is None:
        return K
    fun = np.asarray(fun)
    nlead = fun.ndim - 2
    # scalar (dim = 1) value-type slots may or may not carry an explicit component axis of length one
    nu_ax = 2 if grad_u else (1 if u.dim > 1 else 0)
    nv_ax = 2 if grad_v else (1 if v.dim > 1 else 0)
    extra = nlead - nu_ax - nv_ax
    if extra == 2:
        nu_ax, nv_ax = nu_ax + 1, nv_ax + 1
    elif extra == 1:
        if not grad_v and v.dim == 1:
            nv_ax += 1
        else:
            nu_ax += 1
    elif extra != 0:
        raise ValueError("integrand order does not fit the field kinds")
    sv, su = tuple(fun.shape[:nv_ax]), tuple(fun.shape[nv_ax:nlead])
    for c in range(len(cv)):
        for q in range(nq):
            w, R = weights(first, dV, q, c)
            f = fun_at(fun, q, c, nlead)
            for a in range(cv.shape[1]):
                for i in range(v.dim):
                    Nv = basis_tensor(v, grad_v, a, i, q, c, sv, R)
                    left = np.tensordot(Nv, f, axes=nv_ax) if nv_ax else Nv * f
                    for b in range(cu.shape[1]):
                        for k in range(u.dim):
                            Nu = basis_tensor(u, grad_u, b, k, q, c, su, R)
                            K[v.dim * cv[c, a] + i, u.dim * cu[c, b] + k] += w * float(np.sum(left * Nu))
    return K
