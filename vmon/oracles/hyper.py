"""Closed-form reference stresses for homogeneous deformations (C09): textbook strain energies written in principal
stretches; principal first Piola-Kirchhoff stresses P_i = dW/d lambda_i by complex-step differentiation."""
import numpy as np
from scipy.optimize import brentq


def _inv(l):
    l1, l2, l3 = l
    J = l1 * l2 * l3
    I1b = J ** (-2 / 3) * (l1 ** 2 + l2 ** 2 + l3 ** 2)
    I2b = J ** (-4 / 3) * (l1 ** 2 * l2 ** 2 + l2 ** 2 * l3 ** 2 + l1 ** 2 * l3 ** 2)
    return J, I1b, I2b


def energy(model, p):
    """Return W(l1, l2, l3) for the reference models; ``bulk`` adds U = K/2 (J-1)^2."""
    K = p.get("bulk", 0.0)

    def vol(J):
        return K / 2 * (J - 1) ** 2
    if model == "neo_hooke":
        return lambda l: p["mu"] / 2 * (_inv(l)[1] - 3) + vol(_inv(l)[0])
    if model == "neo_hooke_compressible":
        def W(l):
            J = l[0] * l[1] * l[2]
            lnJ = np.log(J)
            return p["mu"] / 2 * (l[0] ** 2 + l[1] ** 2 + l[2] ** 2 - 3) - p["mu"] * lnJ + p["lmbda"] / 2 * lnJ ** 2
        return W
    if model == "mooney_rivlin":
        return lambda l: p["C10"] * (_inv(l)[1] - 3) + p["C01"] * (_inv(l)[2] - 3) + vol(_inv(l)[0])
    if model == "yeoh":
        return lambda l: (p["C10"] * (_inv(l)[1] - 3) + p["C20"] * (_inv(l)[1] - 3) ** 2 + p["C30"] * (_inv(l)[1] - 3) ** 3 + vol(_inv(l)[0]))
    if model == "ogden":
        def W(l):
            J = l[0] * l[1] * l[2]
            lb = [J ** (-1 / 3) * x for x in l]
            out = vol(J)
            for m, a in zip(p["mu"], p["alpha"]):
                out = out + 2 * m / a ** 2 * (lb[0] ** a + lb[1] ** a + lb[2] ** a - 3)
            return out
        return W
    raise KeyError(model)


def principal_P(W, l):
    """dW/d lambda_i by the complex-step method (exact to round-off for analytic W)."""
    h = 1e-30
    out = []
    for i in range(3):
        z = [complex(x) for x in l]
        z[i] += 1j * h
        out.append(np.imag(W(z)) / h)
    return np.array(out)


def uniaxial(W, l1, planestrain=False):
    """Lateral stretch(es) from P22 (= P33) = 0; returns (P11, l2, l3)."""
    if planestrain:
        f = lambda l2: principal_P(W, [l1, l2, 1.0])[1]
        l2 = brentq(f, 0.2, 4.0, xtol=1e-14, rtol=1e-14)
        return principal_P(W, [l1, l2, 1.0])[0], l2, 1.0
    f = lambda l2: principal_P(W, [l1, l2, l2])[1]
    l2 = brentq(f, 0.2, 4.0, xtol=1e-14, rtol=1e-14)
    return principal_P(W, [l1, l2, l2])[0], l2, l2


def biaxial(W, l1, l2):
    f = lambda l3: principal_P(W, [l1, l2, l3])[2]
    l3 = brentq(f, 0.1, 4.0, xtol=1e-14, rtol=1e-14)
    P = principal_P(W, [l1, l2, l3])
    return P[0], P[1], l3


def incompressible(W, l1, l2, l3):
    """Nominal stress of an incompressible material (hydrostatic pressure eliminated through the free third direction)."""
    P = principal_P(W, [l1, l2, l3])
    return P[0] - l3 / l1 * P[2]
