"""Oracle-side cell geometry, independent of felupe's Region/element code.

Signed volumes of straight-sided cells from their *vertices* (higher-order
cell types use their vertex sub-cell; whether the extra nodes sit where they
should is a separate clause), linear shape functions of the vertex cells, and
reference layouts.
"""
import numpy as np

NV = {"line": 2, "triangle": 3, "triangle6": 3, "quad": 4, "quad8": 4, "quad9": 4, "tetra": 4, "tetra10": 4,
      "hexahedron": 8, "hexahedron20": 8, "hexahedron27": 8, "hexahedron26": 8, "tetra14": 4}
DIM = {"line": 1, "triangle": 2, "triangle6": 2, "quad": 2, "quad8": 2, "quad9": 2, "tetra": 3, "tetra10": 3,
       "hexahedron": 3, "hexahedron20": 3, "hexahedron27": 3, "hexahedron26": 3, "tetra14": 3}
BASE = {"line": "line", "triangle": "triangle", "triangle6": "triangle", "quad": "quad", "quad8": "quad", "quad9": "quad",
        "tetra": "tetra", "tetra10": "tetra", "hexahedron": "hexahedron", "hexahedron20": "hexahedron",
        "hexahedron27": "hexahedron", "hexahedron26": "hexahedron", "tetra14": "tetra"}

_HEX = np.array([[-1, -1, -1], [1, -1, -1], [1, 1, -1], [-1, 1, -1], [-1, -1, 1], [1, -1, 1], [1, 1, 1], [-1, 1, 1]], float)
_QUAD = np.array([[-1, -1], [1, -1], [1, 1], [-1, 1]], float)
_g = 1 / np.sqrt(3.0)


def lin_shape(base, xi):
    """Linear (vertex) shape functions of the base cell at reference point xi."""
    xi = np.asarray(xi, float)
    if base == "line":
        return np.array([(1 - xi[0]) / 2, (1 + xi[0]) / 2])
    if base == "triangle":
        return np.array([1 - xi[0] - xi[1], xi[0], xi[1]])
    if base == "tetra":
        return np.array([1 - xi.sum(), xi[0], xi[1], xi[2]])
    if base == "quad":
        return np.prod(1 + _QUAD * xi, axis=1) / 4
    if base == "hexahedron":
        return np.prod(1 + _HEX * xi, axis=1) / 8
    raise KeyError(base)


def _hex_dshape(xi):
    out = np.zeros((8, 3))
    for a in range(8):
        for k in range(3):
            t = _HEX[a, k]
            for m in range(3):
                if m != k:
                    t = t * (1 + _HEX[a, m] * xi[m])
            out[a, k] = t / 8
    return out


_HEX_GP = np.array([[i, j, k] for i in (-_g, _g) for j in (-_g, _g) for k in (-_g, _g)])
_HEX_DS = np.array([_hex_dshape(g) for g in _HEX_GP])  # q a k


def signed_volumes(points, cells, cell_type):
    """Signed measure of every cell (vertex sub-cell); None if the type/dimension is not supported."""
    if cell_type not in NV:
        return None
    points = np.asarray(points, float)
    cells = np.asarray(cells)
    if cells.ndim != 2 or cells.shape[1] < NV[cell_type] or cells.size == 0:
        return None
    dim = points.shape[1]
    base = BASE[cell_type]
    P = points[cells[:, : NV[cell_type]]]
    if base == "line":
        if dim == 1:
            return P[:, 1, 0] - P[:, 0, 0]
        return None
    if base in ("triangle", "quad"):
        if dim != 2:
            return None
        x, y = P[..., 0], P[..., 1]
        n = P.shape[1]
        return 0.5 * sum(x[:, i] * y[:, (i + 1) % n] - x[:, (i + 1) % n] * y[:, i] for i in range(n))
    if dim != 3:
        return None
    if base == "tetra":
        return np.linalg.det(np.stack([P[:, 1] - P[:, 0], P[:, 2] - P[:, 0], P[:, 3] - P[:, 0]], 1)) / 6
    if base == "hexahedron":
        J = np.einsum("caI,qaK->cqIK", P, _HEX_DS)
        return np.linalg.det(J).sum(1)
    return None


def min_corner_jacobian(points, cells, cell_type):
    """Smallest Jacobian determinant at the vertices of quads/hexahedra (validity of the straight-sided cell)."""
    base = BASE.get(cell_type)
    points = np.asarray(points, float)
    P = points[np.asarray(cells)[:, : NV[cell_type]]]
    if base == "quad" and points.shape[1] == 2:
        out = []
        for i in range(4):
            a = P[:, (i + 1) % 4] - P[:, i]
            b = P[:, (i - 1) % 4] - P[:, i]
            out.append(a[:, 0] * b[:, 1] - a[:, 1] * b[:, 0])
        return float(np.min(out))
    if base == "hexahedron" and points.shape[1] == 3:
        mins = []
        for a in range(8):
            J = np.einsum("caI,aK->cIK", P, _hex_dshape(_HEX[a]))
            mins.append(np.linalg.det(J).min())
        return float(min(mins))
    v = signed_volumes(points, cells, cell_type)
    return None if v is None else float(v.min())


def faces_planar(points, cells, cell_type, tol=1e-10):
    """True if all quadrilateral faces of hexahedra are planar (tet decompositions then preserve the volume)."""
    if BASE.get(cell_type) != "hexahedron":
        return True
    P = np.asarray(points, float)[np.asarray(cells)[:, :8]]
    faces = [[0, 1, 2, 3], [4, 5, 6, 7], [0, 1, 5, 4], [1, 2, 6, 5], [2, 3, 7, 6], [3, 0, 4, 7]]
    h = np.linalg.norm(P.max(1) - P.min(1), axis=1).max()
    for f in faces:
        a, b, c, d = (P[:, i] for i in f)
        n = np.cross(b - a, c - a)
        dist = np.abs(np.einsum("ci,ci->c", n, d - a)) / np.maximum(np.linalg.norm(n, axis=1), 1e-300)
        if dist.max() > tol * h:
            return False
    return True


def int_r_dA_quads(points, cells, r_index):
    """Exact integral of the coordinate ``r_index`` over bilinear quads (2x2 Gauss), summed over cells."""
    P = np.asarray(points, float)[np.asarray(cells)[:, :4]]
    tot = 0.0
    for gx in (-_g, _g):
        for gy in (-_g, _g):
            xi = np.array([gx, gy])
            N = np.prod(1 + _QUAD * xi, axis=1) / 4
            dN = np.stack([_QUAD[:, 0] * (1 + _QUAD[:, 1] * gy) / 4, _QUAD[:, 1] * (1 + _QUAD[:, 0] * gx) / 4], 1)
            J = np.einsum("caI,aK->cIK", P[..., :2], dN)
            det = J[:, 0, 0] * J[:, 1, 1] - J[:, 0, 1] * J[:, 1, 0]
            r = np.einsum("ca,a->c", P[..., r_index], N)
            tot += float((r * det).sum())
    return tot


# ---------------------------------------------------------------------------------------------------------------------------
# VTK Lagrange cells: position of grid node (i, j[, k]) in the point list of a cell of the given order (same order on every
# axis). Written from the documented layout: the 2^dim vertices in the linear cell's order, then the interior nodes of the
# edges (edge list of the linear cell, ascending along the edge's axis), then of the faces (x-, x+, y-, y+, z-, z+; first
# in-plane axis fastest), then of the volume (first axis fastest). Cross-checked once against vtk 9's PointIndexFromIJK.
def vtk_lagrange_index(ijk, order):
    o = int(order)
    if len(ijk) == 1:
        (i,) = ijk
        return 0 if i == 0 else (1 if i == o else 1 + i)
    if len(ijk) == 2:
        i, j = ijk
        ib, jb = i in (0, o), j in (0, o)
        if ib and jb:
            return (2 if j else 1) if i else (3 if j else 0)
        off = 4
        if not ib and jb:  # edges along the first axis: bottom (0), top (2)
            return (i - 1) + (2 * (o - 1) if j else 0) + off
        if ib and not jb:  # edges along the second axis: right (1), left (3)
            return (j - 1) + ((o - 1) if i else 3 * (o - 1)) + off
        off += 4 * (o - 1)
        return off + (i - 1) + (o - 1) * (j - 1)
    i, j, k = ijk
    ib, jb, kb = i in (0, o), j in (0, o), k in (0, o)
    nb = ib + jb + kb
    corner = (2 if j else 1) if i else (3 if j else 0)
    if nb == 3:
        return corner + (4 if k else 0)
    off = 8
    if nb == 2:
        if not ib:
            return (i - 1) + (2 * (o - 1) if j else 0) + (4 * (o - 1) if k else 0) + off
        if not jb:
            return (j - 1) + ((o - 1) if i else 3 * (o - 1)) + (4 * (o - 1) if k else 0) + off
        off += 8 * (o - 1)
        return (k - 1) + (o - 1) * corner + off
    off += 12 * (o - 1)
    if nb == 1:
        n2 = (o - 1) ** 2
        if ib:
            return (j - 1) + (o - 1) * (k - 1) + (n2 if i else 0) + off
        off += 2 * n2
        if jb:
            return (i - 1) + (o - 1) * (k - 1) + (n2 if j else 0) + off
        off += 2 * n2
        return (i - 1) + (o - 1) * (j - 1) + (n2 if k else 0) + off
    off += 6 * (o - 1) ** 2
    return off + (i - 1) + (o - 1) * ((j - 1) + (o - 1) * (k - 1))


def vtk_lagrange_grid(order, dim):
    """(n, dim) integer grid indices of the nodes of a VTK Lagrange cell, in the cell's point order."""
    import itertools
    o = int(order)
    out = np.zeros(((o + 1) ** dim, dim), dtype=int)
    seen = np.zeros((o + 1) ** dim, dtype=bool)
    for ijk in itertools.product(range(o + 1), repeat=dim):
        a = vtk_lagrange_index(ijk, o)
        out[a] = ijk
        seen[a] = True
    assert seen.all()
    return out
