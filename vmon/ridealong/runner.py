"""Run selected test modules of the repository under the monitors of one property (thorough tier)."""
import json
import os
import shutil
import subprocess
import sys
import tempfile
from concurrent.futures import ThreadPoolExecutor

MODULES = {
    "C01": ["test_mechanics", "test_tools", "test_mpc", "test_planestrain", "test_composite", "test_bilinearform"],
    "C02": ["test_form", "test_bilinearform", "test_basis", "test_mechanics"],
    "C03": ["test_mechanics", "test_constitution", "test_constitution_jax", "test_composite", "test_tools", "test_job", "test_readme"],
    "C11": ["test_mechanics", "test_tools", "test_job"],
    "C04": ["test_element", "test_quadrature", "test_region"],
    "C05": ["test_element", "test_quadrature", "test_region", "test_tools"],
    "C06": ["test_region", "test_field", "test_dtype", "test_mechanics"],
    "C07": ["test_tools", "test_solve", "test_mechanics", "test_job", "test_readme", "test_constitution_newton"],
    "C08": ["test_dof", "test_field", "test_solve", "test_job"],
    "C13": ["test_region", "test_mechanics", "test_mpc"],
    "C14": ["test_mechanics", "test_mpc", "test_planestrain", "test_free_vibration"],
    "C15": ["test_job", "test_readme", "test_constitution_newton", "test_mechanics"],
    "C16": ["test_mesh"],
    "C17": ["test_math", "test_mechanics", "test_constitution", "test_region"],
    "C18": ["test_free_vibration"],
}


def run_ridealong(run, pid, timeout=1500):
    mods = MODULES.get(pid)
    if not mods:
        return
    repo = os.environ.get("VERIF_REPO", "/repo")
    here = os.path.dirname(os.path.dirname(os.path.dirname(os.path.abspath(__file__))))
    base = tempfile.mkdtemp(prefix="vmon_ride_%s_" % pid)
    try:
        def one(mod):
            wd = os.path.join(base, mod)
            shutil.copytree(os.path.join(repo, "tests"), os.path.join(wd, "tests"))
            out = os.path.join(wd, "run.json")
            env = dict(os.environ)
            env.update(VMON_RIDE_PID=pid, VMON_RIDE_OUT=out, VMON_RIDE_SEED=str(run.seed), MPLBACKEND="Agg",
                       PYTHONPATH=os.pathsep.join([os.path.join(repo, "src"), here, os.path.join(here, ".deps")]))
            cmd = [sys.executable, "-m", "pytest", "-q", "-x" if False else "-q", "-p", "vmon.ridealong.plugin", "-p", "no:cacheprovider",
                   "--timeout=900", os.path.join("tests", mod + ".py")]
            try:
                p = subprocess.run(cmd, cwd=wd, env=env, capture_output=True, text=True, timeout=timeout)
                tail = (p.stdout or "")[-400:]
            except subprocess.TimeoutExpired:
                return mod, None, "timeout"
            if os.path.exists(out):
                return mod, json.load(open(out)), tail
            return mod, None, tail + (p.stderr or "")[-400:]
        with ThreadPoolExecutor(max_workers=min(8, len(mods))) as ex:
            for mod, d, tail in ex.map(one, mods):
                if d is None:
                    run.note("ride-along of %s produced no monitor output: %s" % (mod, tail.strip().replace("\n", " | ")[-200:]))
                    continue
                run.merge(d)
                run.extra.setdefault("ridealong_modules", []).append(mod)
    finally:
        shutil.rmtree(base, ignore_errors=True)
