"""pytest plugin: keep the monitors of one property attached while the repository's own tests run.

Environment: VMON_RIDE_PID (property id), VMON_RIDE_OUT (file to dump the Run into), VMON_RIDE_SEED.
The tests are workload only; their own assertions are irrelevant to the verdict.
"""
import json
import os
import warnings

_state = {}


def _attach(pid, run):
    from vmon import attach  # noqa
    if pid == "C01":
        from vmon.monitors import items
        items.attach_jac_hook(run, max_unknowns=3000)
    elif pid == "C02":
        from vmon.monitors import assembly
        assembly.attach_hook(run)
    elif pid in ("C04", "C05", "C06"):
        from vmon.monitors import quadrature, region
        if pid != "C06":
            quadrature.attach_constructors(run)
        region.attach_reload_hook(run)
    elif pid in ("C07", "C15", "C09", "C20"):
        from vmon.monitors.solver import SolverMonitor
        _state["solver"] = SolverMonitor(run, max_unknowns=4000).attach()
    elif pid == "C08":
        from vmon.checks import C08
        C08.attach_monitors(run)
    elif pid == "C13":
        from vmon.monitors import boundary
        boundary.attach_hook(run)
    elif pid == "C14":
        from vmon.checks import C14
        C14.attach_hooks(run)
    elif pid == "C16":
        from vmon.monitors import mesh
        mesh.attach_hooks(run)
    elif pid == "C17":
        from vmon.monitors import math as mm
        mm.install(run, first=4, every=200)
    elif pid in ("C03", "C11", "C12"):
        from vmon.monitors import material
        material.attach_insitu(run, every=7)
    elif pid == "C18":
        from vmon.checks import C18
        C18.attach_hooks(run)


def pytest_configure(config):
    pid = os.environ.get("VMON_RIDE_PID")
    if not pid:
        return
    import felupe  # noqa: F401  (monitors rebind aliases in the loaded felupe modules)
    from vmon.core import Run
    run = Run(pid, "thorough", int(os.environ.get("VMON_RIDE_SEED", "0")))
    run.case_id = "ridealong"
    _state["run"] = run
    _state["pid"] = pid
    _attach(pid, run)


def pytest_runtest_setup(item):
    run = _state.get("run")
    if run is not None:
        run.case_id = "ridealong:" + item.nodeid


def pytest_runtest_logreport(report):
    run = _state.get("run")
    if run is not None and report.when == "call":
        run.extra["ridealong_tests_run"] = run.extra.get("ridealong_tests_run", 0) + 1
        if report.failed:
            run.extra.setdefault("ridealong_test_failures", []).append(report.nodeid)


def pytest_sessionfinish(session, exitstatus):
    run = _state.get("run")
    if run is None:
        return
    mon = _state.get("solver")
    if mon is not None:
        from vmon.monitors.solver import check_trace
        try:
            check_trace(run, mon.trace, "ridealong")
        except Exception as exc:
            run.skip("trace", "trace checker failed on a ride-along log: " + type(exc).__name__)
    from vmon import attach
    attach.detach_all()
    out = os.environ.get("VMON_RIDE_OUT")
    if out:
        d = run.to_dict()
        # ride-along contributes observations, not must-reach units
        d["units"] = {"ridealong:" + k: v for k, v in d["units"].items()}
        d["configs"] = ["ridealong " + c for c in d["configs"]]
        with open(out, "w") as fh:
            json.dump(d, fh)
