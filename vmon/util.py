"""Numerical helpers shared by the oracles (NumPy only, no felupe)."""
import itertools
import math

import numpy as np
from numpy.polynomial import chebyshev as cheb


def rng_for(seed, *keys):
    """Deterministic generator from (seed, textual keys)."""
    ints = [int(seed)]
    for k in keys:
        if isinstance(k, (int, np.integer)):
            ints.append(int(k) & 0x7FFFFFFF)
        else:
            h = 0
            for ch in str(k):
                h = (h * 131 + ord(ch)) & 0x7FFFFFFF
            ints.append(h)
    return np.random.default_rng(ints)


def maxabs(a):
    a = np.asarray(a)
    return float(np.max(np.abs(a))) if a.size else 0.0


def relerr(a, b, floor=1e-300):
    a = np.asarray(a, dtype=float)
    b = np.asarray(b, dtype=float)
    return maxabs(a - b) / max(maxabs(a), maxabs(b), floor)


# ---------------------------------------------------------------- polynomials
def cheb_nodes(n, lo=-1.0, hi=1.0):
    k = np.arange(n)
    x = np.cos(np.pi * (2 * k + 1) / (2 * n))
    return 0.5 * (lo + hi) + 0.5 * (hi - lo) * x


def cheb_fit_tensor(samples, n, dim):
    """Chebyshev coefficients of a tensor-grid sample array.

    ``samples`` has the grid axes first (``dim`` axes of length ``n``, sampled
    at ``cheb_nodes(n)`` on [-1, 1]) followed by arbitrary value axes.
    """
    x = cheb_nodes(n)
    Vinv = np.linalg.inv(cheb.chebvander(x, n - 1))
    c = samples
    for ax in range(dim):
        c = np.moveaxis(np.tensordot(Vinv, np.moveaxis(c, ax, 0), axes=(1, 0)), 0, ax)
    return c


def cheb_eval_tensor(coef, pts, dim):
    """Evaluate tensor Chebyshev coefficients at points (npts, dim)."""
    out = []
    for p in pts:
        c = coef
        for ax in range(dim):
            n = c.shape[0]
            v = cheb.chebvander(np.array([p[ax]]), n - 1)[0]
            c = np.tensordot(v, c, axes=(0, 0))
        out.append(c)
    return np.array(out)


def cheb_der(coef, axis):
    """Coefficient array (same shape, zero padded) of the derivative."""
    d = cheb.chebder(coef, axis=axis)
    pad = [(0, 0)] * coef.ndim
    pad[axis] = (0, coef.shape[axis] - d.shape[axis])
    return np.pad(d, pad)


def monomials_total(dim, degree):
    return [e for e in itertools.product(range(degree + 1), repeat=dim) if sum(e) <= degree]


def monomials_tensor(dim, degree):
    return list(itertools.product(range(degree + 1), repeat=dim))


def mono(X, e):
    X = np.asarray(X, dtype=float)
    out = np.ones(X.shape[:-1])
    for k, p in enumerate(e):
        if p:
            out = out * X[..., k] ** p
    return out


class Poly:
    """Random polynomial of given monomial set with analytic derivatives."""

    def __init__(self, rng, dim, exps, scale=1.0):
        self.dim = dim
        self.exps = [tuple(e) for e in exps]
        self.co = scale * rng.uniform(-1, 1, len(self.exps))

    def __call__(self, X):
        return sum(c * mono(X, e) for c, e in zip(self.co, self.exps))

    def grad(self, X):
        X = np.asarray(X, dtype=float)
        out = np.zeros(X.shape)
        for c, e in zip(self.co, self.exps):
            for k in range(self.dim):
                if e[k] > 0:
                    e2 = list(e)
                    e2[k] -= 1
                    out[..., k] += c * e[k] * mono(X, e2)
        return out

    def hess(self, X):
        X = np.asarray(X, dtype=float)
        out = np.zeros((*X.shape, self.dim))
        for c, e in zip(self.co, self.exps):
            for k in range(self.dim):
                if e[k] == 0:
                    continue
                e1 = list(e)
                f1 = e1[k]
                e1[k] -= 1
                for l in range(self.dim):
                    if e1[l] == 0:
                        continue
                    e2 = list(e1)
                    f2 = e2[l]
                    e2[l] -= 1
                    out[..., k, l] += c * f1 * f2 * mono(X, e2)
        return out


# ------------------------------------------------------------------ rotations
def random_rotation(rng, dim=3):
    A = rng.standard_normal((dim, dim))
    Q, R = np.linalg.qr(A)
    Q = Q * np.sign(np.diag(R))
    if np.linalg.det(Q) < 0:
        Q[:, 0] *= -1
    return Q


def random_F(rng, lo=0.7, hi=1.5, gap=0.05, dim=3):
    """F = R Q diag(lam) Q^T with distinct principal stretches."""
    while True:
        lam = np.exp(rng.uniform(np.log(lo), np.log(hi), dim))
        s = np.sort(lam)
        if dim == 1 or np.min(np.diff(s)) >= gap:
            break
    Q = random_rotation(rng, dim)
    R = random_rotation(rng, dim)
    return R @ Q @ np.diag(lam) @ Q.T


def batch_F(rng, shape, **kw):
    out = np.zeros((3, 3, *shape))
    for idx in np.ndindex(*shape):
        out[(slice(None), slice(None), *idx)] = random_F(rng, **kw)
    return out


def simplex_integral(e):
    """Integral of x^a y^b (z^c) over the unit simplex."""
    num = 1.0
    for p in e:
        num *= math.factorial(p)
    return num / math.factorial(sum(e) + len(e))


def cube_integral(e, lo=-1.0, hi=1.0):
    out = 1.0
    for p in e:
        out *= (hi ** (p + 1) - lo ** (p + 1)) / (p + 1)
    return out
