"""Thread-schedule stress for the two places where felupe runs threads of its own
(one Thread per basis function in the Form expression API; einsumt chunk workers).

* ``RecordingThread`` replaces ``threading.Thread`` *inside the expression modules* and logs the logical
  (a, i[, b, j]) of every start and finish under its own lock.
* ``YieldInjector`` registers a ``sys.monitoring`` LINE callback restricted to given code objects and calls
  ``time.sleep(0)`` with a seeded probability from non-main threads, on top of ``sys.setswitchinterval(1e-6)``.
"""
import random
import sys
import threading
import time
import types

_lock = threading.Lock()
LOG = []


class RecordingThread(threading.Thread):
    def __init__(self, *a, **kw):
        super().__init__(*a, **kw)
        args = kw.get("args", ())
        self._vmon_key = tuple(int(x) for x in args[1:5] if isinstance(x, (int,)) or hasattr(x, "__index__"))

    def run(self):
        with _lock:
            LOG.append(("start", self._vmon_key))
        try:
            super().run()
        finally:
            with _lock:
                LOG.append(("finish", self._vmon_key))


def take_log():
    with _lock:
        out = list(LOG)
        LOG.clear()
    return out


def code_objects(*functions_or_modules):
    out = []

    def walk(code):
        out.append(code)
        for c in code.co_consts:
            if isinstance(c, types.CodeType):
                walk(c)
    for obj in functions_or_modules:
        if isinstance(obj, types.ModuleType):
            for v in vars(obj).values():
                if isinstance(v, type):
                    for m in vars(v).values():
                        if isinstance(m, types.FunctionType):
                            walk(m.__code__)
                elif isinstance(v, types.FunctionType) and v.__module__ == obj.__name__:
                    walk(v.__code__)
        elif isinstance(obj, types.FunctionType):
            walk(obj.__code__)
    return out


class YieldInjector:
    TOOL = 4

    def __init__(self, codes, seed=0, probability=0.3):
        self.codes = codes
        self.rnd = random.Random(seed)
        self.p = probability
        self.injected = 0
        self._old = None

    def _on_line(self, code, line):
        if threading.current_thread() is not threading.main_thread():
            if self.rnd.random() < self.p:
                self.injected += 1
                time.sleep(0)

    def __enter__(self):
        self._old = sys.getswitchinterval()
        sys.setswitchinterval(1e-6)
        mon = sys.monitoring
        mon.use_tool_id(self.TOOL, "vmon-yield")
        mon.register_callback(self.TOOL, mon.events.LINE, self._on_line)
        for c in self.codes:
            mon.set_local_events(self.TOOL, c, mon.events.LINE)
        return self

    def __exit__(self, *a):
        mon = sys.monitoring
        for c in self.codes:
            mon.set_local_events(self.TOOL, c, 0)
        mon.register_callback(self.TOOL, mon.events.LINE, None)
        mon.free_tool_id(self.TOOL)
        sys.setswitchinterval(self._old)
