"""Setup smoke test: imports, manifest validation (schema check by python3-vt
if available, structural check otherwise)."""
import json
import os
import shutil
import subprocess

from .core import ROOT


def main():
    import felupe
    import icontract

    print("felupe", felupe.__version__, "from", os.path.dirname(felupe.__file__))
    print("icontract", icontract.__version__)
    man = json.load(open(os.path.join(ROOT, "MANIFEST.json")))
    props = [json.loads(line)["id"] for line in open(os.path.join(ROOT, "properties.jsonl"))]
    claimed = [c["property_id"] for c in man["checks"]]
    na = [c["property_id"] for c in man.get("not_applicable", [])]
    assert sorted(claimed + na) == sorted(props), "every property must be claimed or listed not_applicable"
    for c in man["checks"]:
        mod = os.path.join(ROOT, "vmon", "checks", c["property_id"] + ".py")
        assert os.path.exists(mod), mod
    vt = shutil.which("python3-vt")
    schema = "/root/.vp/MANIFEST.schema.json"
    if vt and os.path.exists(schema):
        code = (
            "import json,jsonschema,sys;"
            "jsonschema.validate(json.load(open(sys.argv[1])),json.load(open(sys.argv[2])));print('manifest validates')"
        )
        r = subprocess.run([vt, "-c", code, os.path.join(ROOT, "MANIFEST.json"), schema])
        if r.returncode:
            return 1
    print("setup ok: %d checks claimed, %d not applicable" % (len(claimed), len(na)))
    return 0
