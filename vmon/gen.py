"""Seeded workload generators: mesh families, geometric classes, regions.

Validity of generated meshes is guaranteed by construction on the generator
side (bounded perturbations / bounded gradients of smooth maps), never judged
by the code under test.  Axis lengths are kept pairwise different wherever the
API allows (cells != quadrature points != points per cell).
"""
import numpy as np


def fem():
    import felupe
    return felupe


# family: dim, region class name, element order, completeness kind, base builder (linear mesh) and converter
def _quad(n):
    return fem().Rectangle(a=(0.0, 0.5), b=(1.5, 1.7), n=n)


def _hex(n):
    return fem().Cube(a=(0.0, 0.5, -0.2), b=(1.5, 1.7, 0.8), n=n)


FAMILIES = {
    "quad": dict(dim=2, region="RegionQuad", order=1, kind="tensor", base=_quad, n=(3, 4), conv=lambda m: m, nv=4),
    "quad8": dict(dim=2, region="RegionQuadraticQuad", order=2, kind="total", base=_quad, n=(3, 4),
                  conv=lambda m: m.add_midpoints_edges(), nv=4),
    "quad9": dict(dim=2, region="RegionBiQuadraticQuad", order=2, kind="tensor", base=_quad, n=(3, 4),
                  conv=lambda m: m.add_midpoints_edges().add_midpoints_faces(), nv=4),
    "hexahedron": dict(dim=3, region="RegionHexahedron", order=1, kind="tensor", base=_hex, n=(3, 2, 4),
                       conv=lambda m: m, nv=8),
    "hexahedron20": dict(dim=3, region="RegionQuadraticHexahedron", order=2, kind="total", base=_hex, n=(3, 2, 3),
                         conv=lambda m: m.add_midpoints_edges(), nv=8),
    "hexahedron27": dict(dim=3, region="RegionTriQuadraticHexahedron", order=2, kind="tensor", base=_hex, n=(3, 2, 2),
                         conv=lambda m: m.add_midpoints_edges().add_midpoints_faces().add_midpoints_volumes(), nv=8),
    "triangle": dict(dim=2, region="RegionTriangle", order=1, kind="total", base=_quad, n=(3, 4),
                     conv=lambda m: m.triangulate(), nv=3),
    "triangle6": dict(dim=2, region="RegionQuadraticTriangle", order=2, kind="total", base=_quad, n=(3, 4),
                      conv=lambda m: m.triangulate().add_midpoints_edges(), nv=3),
    "triangleMINI": dict(dim=2, region="RegionTriangleMINI", order=1, kind="total", base=_quad, n=(3, 4),
                         conv=lambda m: m.triangulate().add_midpoints_faces(), nv=3, mini=True),
    "tetra": dict(dim=3, region="RegionTetra", order=1, kind="total", base=_hex, n=(3, 2, 2),
                  conv=lambda m: m.triangulate(), nv=4),
    "tetra10": dict(dim=3, region="RegionQuadraticTetra", order=2, kind="total", base=_hex, n=(3, 2, 2),
                    conv=lambda m: m.triangulate().add_midpoints_edges(), nv=4),
    "tetraMINI": dict(dim=3, region="RegionTetraMINI", order=1, kind="total", base=_hex, n=(3, 2, 2),
                      conv=lambda m: m.triangulate().add_midpoints_volumes(), nv=4, mini=True),
}

GEOMETRIES = ("undistorted", "affine", "distorted", "curved")


def random_affine(rng, dim, amp=0.3):
    """A = R (I + amp*N) with det > 0 and cond <= 5, plus translation."""
    from .util import random_rotation
    while True:
        A = np.eye(dim) + amp * rng.uniform(-1, 1, (dim, dim))
        if np.linalg.det(A) > 0.2 and np.linalg.cond(A) <= 5:
            break
    A = random_rotation(rng, dim) @ A
    t = rng.uniform(-1, 1, dim)
    # the length unit is arbitrary: a third of the affine maps shrink the body to millimetres, a third blow it up
    # (millimetres or micrometres: absolute thresholds hidden in the code show only on small numbers)
    s = [1.0, 1.0, 4e-3 if t[0] > 0 else 3e-6, 250.0][int(rng.integers(0, 4))] if SCALE_AFFINE else 1.0
    return s * A, s * t


SCALE_AFFINE = True


def smooth_map(rng, dim, eps=0.2):
    """X -> X + eps*g(X) with |grad(eps g)| <= ~eps (sum of sines)."""
    K = rng.uniform(0.5, 1.5, (dim, dim))
    ph = rng.uniform(0, 2 * np.pi, (dim, dim))
    amp = rng.uniform(-1, 1, (dim, dim))
    amp /= max(1e-12, np.abs(amp * K).sum(1).max())
    # a non-separable part (a separable map X_i + sum_j g_ij(X_j) keeps the face integrands of the divergence theorem at a
    # low polynomial degree on box meshes, which hides under-integration): waves along oblique directions
    kv = rng.uniform(0.5, 1.5, (2, dim)) * rng.choice([-1.0, 1.0], (2, dim))
    bv = rng.uniform(-1, 1, (2, dim))
    bv /= max(1e-12, (np.abs(bv).max(1) * np.abs(kv).sum(1)).sum())
    ph2 = rng.uniform(0, 2 * np.pi, 2)

    def f(X):
        Y = X.copy()
        for i in range(dim):
            for j in range(dim):
                Y[:, i] += 0.5 * eps * amp[i, j] * np.sin(K[i, j] * X[:, j] + ph[i, j])
        for m in range(2):
            Y += 0.5 * eps * np.sin(X @ kv[m] + ph2[m])[:, None] * bv[m][None, :]
        return Y
    return f


def cell_size(mesh, nv):
    P = mesh.points[mesh.cells[:, :nv]]
    return float(np.min(P.max(1) - P.min(1)))


def build_mesh(family, geometry, rng, n=None, interior_only=False, amp=0.12):
    """Return (mesh, info) for a family in a geometric class.

    info: dict(volume_factor=det A or None, A=..., base_volume=...)
    """
    F = FAMILIES[family]
    dim = F["dim"]
    base = F["base"](n or F["n"])
    X0 = base.points.copy()
    lo, hi = X0.min(0), X0.max(0)
    base_volume = float(np.prod(hi - lo))
    info = {"base_volume": base_volume, "A": None, "volume": base_volume, "geometry": geometry}
    if geometry == "distorted":
        h = cell_size(base, F["nv"] if F["nv"] in (4, 8) else (4 if dim == 2 else 8))
        d = amp * h * rng.uniform(-1, 1, X0.shape)
        onb = np.isclose(X0, lo) | np.isclose(X0, hi)
        # boundary points slide only tangentially (keeps the domain and its volume)
        d[onb] = 0.0
        if interior_only:
            d[np.any(onb, 1)] = 0.0
        base = base.copy(points=X0 + d)
    mesh = F["conv"](base)
    if geometry == "affine":
        A, t = random_affine(rng, dim)
        mesh = mesh.copy(points=mesh.points @ A.T + t)
        info.update(A=A, t=t, volume=base_volume * float(np.linalg.det(A)))
    elif geometry == "curved":
        f = smooth_map(rng, dim)
        mesh = mesh.copy(points=f(mesh.points))
        info.update(volume=None)
    return renumber(mesh), info


def renumber(mesh, every=3):
    """Metamorphic variation: the same body with its points and cells in another order (point and cell numbers carry no
    meaning; generators number them structured). Decided and seeded by the coordinates themselves, so the random stream of the
    calling case is not touched. Applied to one mesh in ``every``."""
    import os
    import zlib
    if os.environ.get("VERIF_RENUMBER", "1") == "0":
        return mesh
    h = zlib.crc32(np.ascontiguousarray(mesh.points).tobytes())
    if h % every:
        return mesh
    r = np.random.default_rng(h)
    perm = r.permutation(mesh.npoints)
    inv = np.empty_like(perm)
    inv[perm] = np.arange(mesh.npoints)
    cells = inv[mesh.cells][r.permutation(mesh.ncells)]
    return fem().Mesh(mesh.points[perm], cells, mesh.cell_type)


def make_region(family, mesh, **kw):
    return getattr(fem(), FAMILIES[family]["region"])(mesh, **kw)


def lagrange_mesh(order, dim):
    f = fem()
    if dim == 2:
        return f.mesh.RectangleArbitraryOrderQuad(a=(0.0, 0.5), b=(1.5, 1.7), order=order)
    return f.mesh.CubeArbitraryOrderHexahedron(a=(0.0, 0.5, -0.2), b=(1.5, 1.7, 0.8), order=order)


def template_cases():
    """(name, make_region) for every region template on a small valid mesh."""
    f = fem()
    out = []
    rng = np.random.default_rng(0)
    for fam, F in FAMILIES.items():
        out.append((F["region"], (lambda fam=fam: make_region(fam, build_mesh(fam, "undistorted", rng)[0]))))
    out.append(("RegionConstantQuad", lambda: f.RegionConstantQuad(build_mesh("quad", "undistorted", rng)[0])))
    out.append(("RegionConstantHexahedron",
                lambda: f.RegionConstantHexahedron(build_mesh("hexahedron", "undistorted", rng)[0])))
    out.append(("RegionVertex", lambda: f.RegionVertex(f.mesh.Point(a=0.3))))
    for fam, R in [("quad", "RegionQuadBoundary"), ("quad8", "RegionQuadraticQuadBoundary"),
                   ("quad9", "RegionBiQuadraticQuadBoundary"), ("hexahedron", "RegionHexahedronBoundary"),
                   ("hexahedron20", "RegionQuadraticHexahedronBoundary"),
                   ("hexahedron27", "RegionTriQuadraticHexahedronBoundary")]:
        out.append((R, (lambda fam=fam, R=R: getattr(f, R)(build_mesh(fam, "undistorted", rng)[0]))))
    for order in (2, 3):
        out.append(("RegionLagrange(order=%d,dim=2)" % order,
                    lambda order=order: f.RegionLagrange(lagrange_mesh(order, 2), order=order, dim=2)))
    out.append(("RegionLagrange(order=2,dim=3)", lambda: f.RegionLagrange(lagrange_mesh(2, 3), order=2, dim=3)))
    return out


def random_displacement(rng, mesh, ncomp=None, grad=0.2, noise=0.01, nv=None):
    """Nodal displacement values of a smooth field with |grad u| <= ~grad plus a little nodal noise (relative to the
    smallest cell extent): keeps det F well above zero on every element family, incl. higher-order ones."""
    X = mesh.points
    dim = X.shape[1]
    f = smooth_map(rng, dim, eps=grad)
    # in coordinates of the body (about 1.5 long, as the base meshes are): the waves and the bound on the gradient keep their meaning on
    # bodies of any length unit, and no rigid translation far larger than the body is added (which would only cost digits)
    c = X.mean(0)
    L = (float(np.ptp(X, axis=0).max()) or 1.5) / 1.5
    Xn = (X - c) / L
    u = L * (f(Xn) - Xn)
    cells = mesh.cells
    h = float(np.min(X[cells].max(1) - X[cells].min(1)))
    u = u + noise * h * rng.uniform(-1, 1, X.shape)
    if ncomp is not None and ncomp != dim:
        u = u[:, :ncomp]
    return u
