"""Registry of constitutive models and helpers to evaluate what they expose (C03, C11, C12, C15)."""
import numpy as np


def ad_energy(backend, fun, F, **kwargs):
    """Energy of an AD-Hyperelastic model: call the public model function W(C, ...) on plain arrays."""
    C = np.einsum("ki...,kj...->ij...", F, F)
    ntrax = C.ndim - 2
    if backend == "tensortrax":
        import tensortrax as tr
        return np.asarray(tr.function(fun, wrt=0, ntrax=ntrax)(np.ascontiguousarray(C), **kwargs))
    import jax.numpy as jnp
    out = np.zeros(C.shape[2:])
    for idx in np.ndindex(*C.shape[2:]):
        out[idx] = float(fun(jnp.asarray(C[(slice(None), slice(None), *idx)]), **kwargs))
    return out
