"""Registry of constitutive models and helpers to evaluate what they expose (C03, C11, C12, C15).

Every entry cites where its parameter ranges / documented moduli come from (docstrings of the model functions, see
notes/material_registry.md for file:line).  ``reg`` names the eigenvalue regularisation the *source* applies:
  None        none
  "tt-eig"    tensortrax.math.linalg.eigvalsh/eigh perturb C[0,0] += 1.49e-8, C[1,1] -= 1.49e-8
  "jax-1e-4"  the jax model adds diag(0, +-1e-4, -+1e-4) to C before the eigen decomposition
"""
import numpy as np

EYE = np.eye(3).reshape(3, 3, 1, 1)


def ad_energy(backend, fun, F, **kwargs):
    """Energy of an AD-Hyperelastic model: call the public model function W(C, ...) on plain arrays."""
    C = np.einsum("ki...,kj...->ij...", F, F)
    ntrax = C.ndim - 2
    if backend in ("tensortrax", "tt"):
        import tensortrax as tr
        return np.asarray(tr.function(fun, wrt=0, ntrax=ntrax)(np.ascontiguousarray(C), **kwargs))
    import jax.numpy as jnp
    out = np.zeros(C.shape[2:])
    for idx in np.ndindex(*C.shape[2:]):
        out[idx] = float(fun(jnp.asarray(C[(slice(None), slice(None), *idx)]), **kwargs))
    return out


class Model:
    def __init__(self, name, backend, make, nsv=0, sv0=None, energy=None, hyperelastic=True, isotropic=True,
                 microsphere=False, reg=None, moduli=None, stress_free=True, heavy=False, history=False, fun=None,
                 objective=True, isochoric=False):
        self.name, self.backend, self.make = name, backend, make
        self.nsv, self.sv0, self.energy = nsv, sv0, energy
        self.hyperelastic, self.isotropic, self.microsphere = hyperelastic, isotropic, microsphere
        self.reg, self.moduli, self.stress_free = reg, moduli, stress_free
        self.heavy, self.history, self.fun = heavy, history, fun
        self.objective = objective
        self.isochoric = isochoric

    def initial_statevars(self, batch):
        if self.nsv == 0:
            return None
        if self.sv0 is not None:
            return np.broadcast_to(np.asarray(self.sv0, float).reshape(-1, *([1] * len(batch))), (self.nsv, *batch)).copy()
        return np.zeros((self.nsv, *batch))


def U(rng, a, b):
    return float(rng.uniform(a, b))


def _hyper_models(backend):
    """(name, sampler, flags) of the model functions written as W(C, ...)."""
    S = {}
    S["neo_hooke"] = (lambda r: dict(mu=U(r, 0.5, 2)), dict(moduli=lambda p: (p["mu"], None), isochoric=True))
    S["mooney_rivlin"] = (lambda r: dict(C10=U(r, 0.2, 1), C01=U(r, 0.05, 0.5)),
                          dict(moduli=lambda p: (2 * (p["C10"] + p["C01"]), None), isochoric=True))
    S["yeoh"] = (lambda r: dict(C10=U(r, 0.3, 1), C20=U(r, -0.02, 0.1), C30=U(r, 0, 0.05)),
                 dict(moduli=lambda p: (2 * p["C10"], None), isochoric=True))
    S["third_order_deformation"] = (lambda r: dict(C10=U(r, 0.3, 1), C01=U(r, 0.05, 0.3), C11=U(r, 0, 0.05), C20=U(r, -0.02, 0.05),
                                                   C30=U(r, 0, 0.02)),
                                    dict(moduli=lambda p: (2 * (p["C10"] + p["C01"]), None), isochoric=True))
    S["blatz_ko"] = (lambda r: dict(mu=U(r, 0.5, 2)), dict(moduli=lambda p: (p["mu"], None)))
    S["van_der_waals"] = (lambda r: dict(mu=U(r, 0.5, 2), limit=U(r, 5, 10), a=U(r, 0, 0.3), beta=U(r, 0.05, 0.9)),
                          dict(moduli=lambda p: (p["mu"], None), isochoric=True, moduli_tol=1e-2))
    S["van_der_waals[beta=0]"] = (lambda r: dict(mu=U(r, 0.5, 2), limit=U(r, 5, 10), a=U(r, 0, 0.3), beta=0.0),
                                  dict(moduli=lambda p: (p["mu"], None), isochoric=True, moduli_tol=1e-2, fun="van_der_waals"))
    S["storakers"] = (lambda r: dict(mu=[U(r, 0.5, 1.5), U(r, 0.1, 0.6)], alpha=[U(r, 1.5, 2.5), U(r, -2, -1)], beta=[U(r, 0.3, 1), U(r, 1, 2)]),
                      dict(moduli=lambda p: (sum(p["mu"]), sum(2 * m * (1 / 3 + b) for m, b in zip(p["mu"], p["beta"]))),
                           reg={"tt": "tt-eig", "jax": "jax-1e-4"}))
    S["extended_tube"] = (lambda r: dict(Gc=U(r, 0.1, 0.5), delta=U(r, 0, 0.1), Ge=U(r, 0.1, 0.5), beta=U(r, 0.1, 0.6)),
                          dict(moduli=None, isochoric=True, reg={"tt": "tt-eig", "jax": "jax-1e-4"}))
    S["extended_tube[delta=0]"] = (lambda r: dict(Gc=U(r, 0.1, 0.5), delta=0.0, Ge=U(r, 0.1, 0.5), beta=U(r, 0.1, 0.6)),
                                   dict(moduli=lambda p: (p["Gc"] + p["Ge"], None), isochoric=True, fun="extended_tube",
                                        reg={"tt": "tt-eig", "jax": "jax-1e-4"}))
    S["miehe_goektepe_lulei"] = (lambda r: dict(mu=U(r, 0.1, 0.5), N=U(r, 10, 30), U=U(r, 5, 15), p=U(r, 1.2, 2), q=U(r, 0.1, 0.5)),
                                 dict(moduli=None, isotropic=False, microsphere=True, isochoric=True))
    if backend == "tt":
        S["ogden"] = (lambda r: dict(mu=[U(r, 0.5, 1.5), U(r, 0.05, 0.3)], alpha=[U(r, 1.5, 3), U(r, -2, -1)]),
                      dict(moduli=lambda p: (sum(p["mu"]), None), isochoric=True, reg={"tt": "tt-eig"}))
        S["arruda_boyce"] = (lambda r: dict(C1=U(r, 0.5, 2), limit=U(r, 3, 8)),
                             dict(moduli=lambda p: (p["C1"] * (1 + 3 / (5 * p["limit"] ** 2) + 99 / (175 * p["limit"] ** 4)
                                                               + 513 / (875 * p["limit"] ** 6) + 42039 / (67375 * p["limit"] ** 8)), None),
                                  isochoric=True))
        S["alexander"] = (lambda r: dict(C1=U(r, 0.5, 2), C2=U(r, 0.1, 0.5), C3=U(r, 0.05, 0.3), gamma=U(r, 1, 3), k=U(r, 0.1, 0.5)),
                          dict(moduli=lambda p: (2 * (p["C1"] + p["C2"] / p["gamma"] + p["C3"]), None), isochoric=True, no_energy=True))
        S["anssari_benam_bucchi"] = (lambda r: dict(mu=U(r, 0.5, 2), N=U(r, 5, 20)),
                                     dict(moduli=lambda p: (p["mu"] * (1 - 3 * p["N"]) / (3 - 3 * p["N"]), None), isochoric=True))
        S["lopez_pamies"] = (lambda r: dict(mu=[U(r, 0.5, 1.5), U(r, 0.05, 0.5)], alpha=[U(r, 0.5, 1.5), U(r, 1.5, 3)]),
                             dict(moduli=lambda p: (sum(p["mu"]), None), isochoric=True))
        S["saint_venant_kirchhoff"] = (lambda r: dict(mu=U(r, 0.5, 2), lmbda=U(r, 1, 4)),
                                       dict(moduli=lambda p: (p["mu"], p["lmbda"] + 2 * p["mu"] / 3)))
        S["saint_venant_kirchhoff[k=0]"] = (lambda r: dict(mu=U(r, 0.5, 2), lmbda=U(r, 1, 4), k=0),
                                            dict(moduli=lambda p: (p["mu"], p["lmbda"] + 2 * p["mu"] / 3), fun="saint_venant_kirchhoff",
                                                 reg={"tt": "tt-eig"}))
        S["saint_venant_kirchhoff[k=1]"] = (lambda r: dict(mu=U(r, 0.5, 2), lmbda=U(r, 1, 4), k=1),
                                            dict(moduli=lambda p: (p["mu"], p["lmbda"] + 2 * p["mu"] / 3), fun="saint_venant_kirchhoff",
                                                 reg={"tt": "tt-eig"}))

        S["saint_venant_kirchhoff[k=real]"] = (lambda r: dict(mu=U(r, 0.5, 2), lmbda=U(r, 1, 4), k=float(r.choice([-2, -1, 0.5, 1.5, 3, 4]))),
                                               dict(moduli=lambda p: (p["mu"], p["lmbda"] + 2 * p["mu"] / 3), fun="saint_venant_kirchhoff",
                                                    reg={"tt": "tt-eig"}))

        def ortho(r):
            from .util import random_rotation
            Q = random_rotation(r, 3)
            import felupe as fem
            lm, mu = fem.constitution.lame_converter_orthotropic(E=list(r.uniform(5, 15, 3)), nu=list(r.uniform(0.1, 0.3, 3)),
                                                                 G=list(r.uniform(1, 4, 3)))
            return dict(mu=list(mu), lmbda=list(lm), r1=Q[:, 0], r2=Q[:, 1], r3=Q[:, 2])
        S["saint_venant_kirchhoff_orthotropic"] = (ortho, dict(moduli=None, isotropic=False))
        S["saint_venant_kirchhoff_orthotropic[k!=2]"] = (lambda r: dict(ortho(r), k=float(r.choice([0, 1, 0.5, 3]))),
                                                         dict(moduli=None, isotropic=False, fun="saint_venant_kirchhoff_orthotropic",
                                                              reg={"tt": "tt-eig"}))
    return S


def build_registry():
    import felupe as fem
    import felupe.constitution.tensortrax as TT
    out = []
    # ----------------------------------------------------------------------------------------- hand-coded
    out.append(Model("NeoHooke(mu,bulk)", "hand", lambda r: (lambda p: (fem.NeoHooke(**p), p))(dict(mu=U(r, 0.5, 2), bulk=U(r, 1, 6))),
                     energy=lambda um, p, F, sv: um.function([F, sv])[0], moduli=lambda p: (p["mu"], p["bulk"])))
    out.append(Model("NeoHooke(mu)", "hand", lambda r: (lambda p: (fem.NeoHooke(**p), p))(dict(mu=U(r, 0.5, 2))),
                     energy=lambda um, p, F, sv: um.function([F, sv])[0], moduli=lambda p: (p["mu"], 0.0), isochoric=True))
    out.append(Model("Volumetric(bulk)", "hand", lambda r: (lambda p: (fem.Volumetric(**p), p))(dict(bulk=U(r, 1, 6))),
                     energy=lambda um, p, F, sv: um.function([F, sv])[0], moduli=lambda p: (0.0, p["bulk"])))
    out.append(Model("NeoHookeCompressible(mu,lmbda)", "hand",
                     lambda r: (lambda p: (fem.NeoHookeCompressible(**p), p))(dict(mu=U(r, 0.5, 2), lmbda=U(r, 1, 4))),
                     energy=lambda um, p, F, sv: um.function([F, sv])[0], moduli=lambda p: (p["mu"], p["lmbda"] + 2 * p["mu"] / 3)))
    out.append(Model("NeoHookeCompressible(mu)", "hand", lambda r: (lambda p: (fem.NeoHookeCompressible(**p), p))(dict(mu=U(r, 0.5, 2))),
                     energy=lambda um, p, F, sv: um.function([F, sv])[0], moduli=None))
    out.append(Model("LinearElasticLargeStrain(E,nu)", "hand",
                     lambda r: (lambda p: (fem.LinearElasticLargeStrain(**p), p))(dict(E=U(r, 0.5, 5), nu=U(r, 0.05, 0.45))),
                     energy=lambda um, p, F, sv: um.function([F, sv])[0],
                     moduli=lambda p: (p["E"] / (2 * (1 + p["nu"])), p["E"] / (3 * (1 - 2 * p["nu"])))))
    out.append(Model("OgdenRoxburgh(NeoHooke)", "hand",
                     lambda r: (lambda p: (fem.OgdenRoxburgh(fem.NeoHooke(mu=p["mu"], bulk=p["bulk"]), r=p["r"], m=p["m"], beta=p["beta"]), p))(
                         dict(mu=U(r, 0.5, 2), bulk=U(r, 1, 6), r=U(r, 1.5, 4), m=U(r, 0.5, 2), beta=U(r, 0, 0.3))),
                     nsv=1, hyperelastic=False, history=True, moduli=lambda p: (p["mu"], p["bulk"])))
    out.append(Model("Composite(NeoHooke&Volumetric)", "hand",
                     lambda r: (lambda p: (fem.NeoHooke(mu=p["mu"]) & fem.Volumetric(bulk=p["bulk"]), p))(dict(mu=U(r, 0.5, 2), bulk=U(r, 1, 6))),
                     moduli=lambda p: (p["mu"], p["bulk"])))
    # ----------------------------------------------------------------------------------------- AD hyperelastic models
    for backend in ("tt", "jax"):
        if backend == "jax":
            import felupe.constitution.jax as JX
            H, mods = JX.Hyperelastic, JX.models.hyperelastic
        else:
            H, mods = TT.Hyperelastic, TT.models.hyperelastic
        for name, (sampler, fl) in _hyper_models(backend).items():
            fl = dict(fl)
            fname = fl.pop("fun", name)
            fun = getattr(mods, fname)
            reg = fl.pop("reg", None)
            reg = reg.get(backend) if isinstance(reg, dict) else reg
            no_energy = fl.pop("no_energy", False)
            mt = fl.pop("moduli_tol", None)

            def make(r, H=H, fun=fun, sampler=sampler):
                p = sampler(r)
                return H(fun, **p), p
            m = Model("%s.%s" % (backend, name), backend, make, reg=reg, fun=fun,
                      energy=None if no_energy else (lambda um, p, F, sv, backend=backend, fun=fun: ad_energy(backend, fun, F, **p)), **fl)
            m.moduli_tol = mt
            out.append(m)
    # state-variable AD models (tensortrax)
    out.append(Model("tt.finite_strain_viscoelastic", "tt",
                     lambda r: (lambda p: (TT.Hyperelastic(TT.models.hyperelastic.finite_strain_viscoelastic, nstatevars=6, **p), p))(
                         dict(mu=U(r, 0.5, 2), eta=U(r, 0.5, 3), dtime=U(r, 0.2, 1))),
                     nsv=6, sv0=[1, 0, 0, 1, 0, 1], hyperelastic=False, history=True, isochoric=True))
    out.append(Model("tt.ogden_roxburgh(neo_hooke)", "tt",
                     lambda r: (lambda p: (TT.Hyperelastic(TT.models.hyperelastic.ogden_roxburgh, material=TT.models.hyperelastic.neo_hooke,
                                                           nstatevars=1, **p), p))(dict(mu=U(r, 0.5, 2), r=U(r, 1.5, 4), m=U(r, 0.5, 2), beta=U(r, 0, 0.3))),
                     nsv=1, hyperelastic=False, history=True, isochoric=True, moduli=lambda p: (p["mu"], None)))
    P_MORPH = [0.039, 0.371, 0.174, 2.41, 0.0094, 6.84, 5.65, 0.244]
    out.append(Model("tt.lagrange.morph", "tt", lambda r: (TT.Material(TT.models.lagrange.morph, p=P_MORPH, nstatevars=13), dict(p=P_MORPH)),
                     nsv=13, hyperelastic=False, history=True, reg="tt-eig", isochoric=True))
    out.append(Model("tt.lagrange.morph_representative_directions", "tt",
                     lambda r: (TT.Material(TT.models.lagrange.morph_representative_directions, p=P_MORPH, nstatevars=84), dict(p=P_MORPH)),
                     nsv=84, hyperelastic=False, history=True, isotropic=False, microsphere=True, heavy=True, isochoric=True))
    out.append(Model("tt.hyperelastic.morph_representative_directions", "tt",
                     lambda r: (TT.Hyperelastic(TT.models.hyperelastic.morph_representative_directions, p=P_MORPH, nstatevars=84), dict(p=P_MORPH)),
                     nsv=84, hyperelastic=False, history=True, isotropic=False, microsphere=True, heavy=True, isochoric=True))
    import felupe.constitution.jax as JX
    out.append(Model("jax.lagrange.morph", "jax", lambda r: (JX.Material(JX.models.lagrange.morph, p=P_MORPH, nstatevars=13), dict(p=P_MORPH)),
                     nsv=13, hyperelastic=False, history=True, reg="jax-1e-4", isochoric=True))
    out.append(Model("jax.lagrange.morph_representative_directions", "jax",
                     lambda r: (JX.Material(JX.models.lagrange.morph_representative_directions, p=P_MORPH, nstatevars=84), dict(p=P_MORPH)),
                     nsv=84, hyperelastic=False, history=True, isotropic=False, microsphere=True, heavy=True, isochoric=True))

    # the distortional-split decorator of both backends around a plain energy (must equal the isochoric Neo-Hookean law), and
    # the public micro-sphere frameworks with the two chain laws
    import tensortrax.math as _tm

    def make_split_tt(r):
        p = dict(mu=U(r, 0.5, 2))

        @TT.isochoric_volumetric_split
        def W(C, mu):
            return mu / 2 * (_tm.trace(C) - 3)
        return TT.Hyperelastic(W, **p), p
    out.append(Model("tt.isochoric_volumetric_split(neo)", "tt", make_split_tt, moduli=lambda p: (p["mu"], None), isochoric=True))

    def make_split_jax(r):
        import jax.numpy as jnp
        p = dict(mu=U(r, 0.5, 2))

        @JX.isochoric_volumetric_split
        def W(C, mu):
            return mu / 2 * (jnp.trace(C) - 3)
        return JX.Hyperelastic(W, **p), p
    out.append(Model("jax.isochoric_volumetric_split(neo)", "jax", make_split_jax, moduli=lambda p: (p["mu"], None), isochoric=True))
    _ms = TT.models.hyperelastic.microsphere
    out.append(Model("tt.microsphere.affine_stretch(langevin)", "tt",
                     lambda r: (lambda p: (TT.Hyperelastic(_ms.affine_stretch, f=_ms.langevin, kwargs=dict(p)), p))(dict(mu=U(r, 0.5, 2), N=U(r, 5, 20))),
                     isotropic=False, microsphere=True, isochoric=True))
    out.append(Model("tt.microsphere.affine_tube(linear)", "tt",
                     lambda r: (lambda p: (TT.Hyperelastic(_ms.affine_tube, f=_ms.linear, kwargs=dict(p)), p))(dict(mu=U(r, 0.5, 2))),
                     isotropic=False, microsphere=True, isochoric=True))

    # total / updated Lagrange wrappers around small test laws (tensortrax)
    from tensortrax.math import trace as ttrace
    from tensortrax.math.linalg import det as tdet, inv as tinv

    def make_tl(r):
        p = dict(mu=U(r, 0.5, 2), lmbda=U(r, 1, 4))

        @TT.total_lagrange
        def nh_S(F, mu, lmbda):
            C = F.T @ F
            Ci = tinv(C)
            J = tdet(F)
            from tensortrax.math import log
            return mu * (C @ Ci - Ci) + lmbda * log(J) * Ci  # S = mu (I - C^-1) + lmbda ln J C^-1
        return TT.Material(nh_S, **p), p

    def make_ul(r):
        p = dict(mu=U(r, 0.5, 2), lmbda=U(r, 1, 4))

        @TT.updated_lagrange
        def nh_sigma(F, mu, lmbda):
            b = F @ F.T
            J = tdet(F)
            from tensortrax.math import log
            return (mu * (b - b @ tinv(b)) + lmbda * log(J) * (b @ tinv(b))) / J  # sigma = [mu (b - I) + lmbda ln J I] / J
        return TT.Material(nh_sigma, **p), p
    # both wrappers implement compressible Neo-Hooke: siblings of NeoHookeCompressible (used by C12 as well)
    out.append(Model("tt.total_lagrange(neo-hooke S)", "tt", make_tl, moduli=lambda p: (p["mu"], p["lmbda"] + 2 * p["mu"] / 3)))
    out.append(Model("tt.updated_lagrange(neo-hooke sigma)", "tt", make_ul, moduli=lambda p: (p["mu"], p["lmbda"] + 2 * p["mu"] / 3)))
    # the same two wrappers of the jax backend
    import jax.numpy as jnp

    def make_tl_jax(r):
        p = dict(mu=U(r, 0.5, 2), lmbda=U(r, 1, 4))

        @JX.total_lagrange
        def nh_S(F, mu, lmbda):
            C = F.T @ F
            Ci = jnp.linalg.inv(C)
            J = jnp.linalg.det(F)
            return mu * (jnp.eye(3) - Ci) + lmbda * jnp.log(J) * Ci
        return JX.Material(nh_S, **p), p

    def make_ul_jax(r):
        p = dict(mu=U(r, 0.5, 2), lmbda=U(r, 1, 4))

        @JX.updated_lagrange
        def nh_sigma(F, mu, lmbda):
            b = F @ F.T
            J = jnp.linalg.det(F)
            return (mu * (b - jnp.eye(3)) + lmbda * jnp.log(J) * jnp.eye(3)) / J
        return JX.Material(nh_sigma, **p), p
    out.append(Model("jax.total_lagrange(neo-hooke S)", "jax", make_tl_jax, moduli=lambda p: (p["mu"], p["lmbda"] + 2 * p["mu"] / 3)))
    out.append(Model("jax.updated_lagrange(neo-hooke sigma)", "jax", make_ul_jax, moduli=lambda p: (p["mu"], p["lmbda"] + 2 * p["mu"] / 3)))
    return out


REG_SIZE = {None: 0.0, "tt-eig": 1.4901161193847656e-08, "jax-1e-4": 1e-4}


def finite_strain_registry():
    return build_registry()
