"""Small boundary value problems shared by the solver-level checks (C07, C09, C15, C20)."""
import numpy as np

from . import gen


def fem():
    import felupe
    return felupe


def box_mesh(fam, rng, n=None, distort=True, lengths=None, curved_interior=False):
    """Mesh of an axis-aligned box [0,L] with interior points perturbed (faces stay planar, outer boundary fixed)."""
    f = fem()
    F = gen.FAMILIES[fam]
    dim = F["dim"]
    L = np.array(lengths if lengths is not None else rng.uniform(0.8, 2.0, dim))
    n = n or tuple(int(x) for x in rng.integers(3, 5, dim))
    base = f.Rectangle(b=tuple(L), n=n) if dim == 2 else f.Cube(b=tuple(L), n=n)
    quadhex = fam in ("quad", "quad8", "quad9", "hexahedron", "hexahedron20", "hexahedron27")
    if distort and (quadhex or fam in ("triangle", "tetra", "triangle6", "tetra10", "triangleMINI", "tetraMINI")):
        X = base.points.copy()
        onb = np.any(np.isclose(X, 0) | np.isclose(X, L), axis=1)
        h = float(np.min(L / (np.array(n) - 1)))
        X[~onb] += 0.12 * h * rng.uniform(-1, 1, (int((~onb).sum()), dim))
        base = base.copy(points=X)
    mesh = F["conv"](base)
    if distort and curved_interior and fam in ("quad8", "quad9", "hexahedron20", "hexahedron27", "triangle6"):
        # arbitrary interior distortion of the higher-order quad/hex families (and any tri6): interior mid-nodes are moved
        # independently of the vertices, i.e. interior edges become curved (the outer boundary stays the box)
        X = mesh.points.copy()
        onb = np.any(np.isclose(X, 0) | np.isclose(X, L), axis=1)
        h = float(np.min(L / (np.array(n) - 1)))
        nvert = base.npoints
        mid = np.arange(len(X)) >= nvert
        sel = mid & ~onb
        X[sel] += 0.04 * h * rng.uniform(-1, 1, (int(sel.sum()), dim))
        mesh = mesh.copy(points=X)
    return gen.renumber(mesh), L


def field_for(fam, mesh, kind):
    f = fem()
    reg = gen.make_region(fam, mesh)
    d = mesh.dim
    if kind == "3d":
        return f.FieldContainer([f.Field(reg, dim=3)])
    if kind == "planestrain":
        return f.FieldContainer([f.FieldPlaneStrain(reg, dim=2)])
    if kind == "axisymmetric":
        return f.FieldContainer([f.FieldAxisymmetric(reg, dim=2)])
    if kind == "mixed":
        return f.FieldsMixed(reg, n=3, planestrain=(d == 2))
    raise KeyError(kind)
