"""Core of the runtime-monitoring harness: counters, verdicts, evidence.

A check is a list of *cases*; every case drives the real felupe code (imported
from ``$VERIF_REPO/src``, default ``/repo/src``) while monitors compare what
they observe with an oracle.  Monitors report into a :class:`Run`:

* ``run.ok(monitor, ...)``      one oracle comparison made and passed
* ``run.skip(monitor, reason)`` the property's quantifier does not apply here
* ``run.fail(monitor, key, what, detail)`` the property was refuted; ``key`` is
  a *mechanism key* (stable text naming the unit and the clause, never a hash
  or a random value) which is matched against ``KNOWN_FINDINGS.txt``.

Verdicts are three-valued and never folded (DESIGN.md 3.5):
exit 0 held-on-observed, exit 1 violated (``VIOLATION`` line), exit 2
inconclusive (``INCONCLUSIVE`` line).
"""

import json
import math
import os
import re
import time
from collections import Counter

import numpy as np

ROOT = os.path.dirname(os.path.dirname(os.path.abspath(__file__)))
KNOWN_FILE = os.path.join(ROOT, "KNOWN_FINDINGS.txt")

MAX_SAMPLES = 12


def jsonable(obj, maxlen=64):
    """Convert nested numpy containers to plain JSON (arrays are truncated)."""
    if isinstance(obj, dict):
        return {str(k): jsonable(v, maxlen) for k, v in obj.items()}
    if isinstance(obj, (list, tuple, set, frozenset)):
        lst = list(obj)
        out = [jsonable(v, maxlen) for v in lst[:maxlen]]
        if len(lst) > maxlen:
            out.append("... (%d items)" % len(lst))
        return out
    if isinstance(obj, np.ndarray):
        if obj.size <= maxlen:
            return jsonable(obj.tolist(), maxlen)
        flat = obj.ravel()[:maxlen].tolist()
        return {"shape": list(obj.shape), "first": jsonable(flat, maxlen)}
    if isinstance(obj, (np.integer,)):
        return int(obj)
    if isinstance(obj, (np.floating,)):
        obj = float(obj)
    if isinstance(obj, (np.bool_,)):
        return bool(obj)
    if isinstance(obj, float):
        if math.isnan(obj) or math.isinf(obj):
            return repr(obj)
        return obj
    if isinstance(obj, (int, str, bool)) or obj is None:
        return obj
    if isinstance(obj, complex):
        return repr(obj)
    return repr(obj)[:200]


def slug(text):
    return re.sub(r"[^A-Za-z0-9_.=-]+", "_", text)[:120]


def load_known(pid):
    """Return {key: description} of the ``known:`` lines for one property."""
    known = {}
    if not os.path.exists(KNOWN_FILE):
        return known
    for line in open(KNOWN_FILE):
        line = line.strip()
        if not line.startswith("known:"):
            continue
        m = re.match(r"known:\s+property=(\S+)\s+key=(.*?)\s+::\s+(.*)$", line)
        if m and m.group(1) == pid:
            known[m.group(2).strip()] = m.group(3).strip()
    return known


class Run:
    def __init__(self, pid, tier="quick", seed=0):
        self.pid = pid
        self.tier = tier
        self.seed = int(seed)
        self.t0 = time.time()
        self.case_id = None
        self.monitors = {}
        self.configs = set()
        self.units = Counter()
        self.samples = []
        self.violations = {}
        self.errors = []
        self.notes = Counter()
        self.cases_run = 0
        self.extra = {}

    # ------------------------------------------------------------------ API
    def mon(self, name):
        m = self.monitors.get(name)
        if m is None:
            m = self.monitors[name] = {
                "seen": 0,
                "checked": 0,
                "skipped": Counter(),
                "violations": 0,
                "worst": 0.0,
                "worst_at": None,
            }
        return m

    def seen(self, monitor, n=1):
        self.mon(monitor)["seen"] += n

    def ok(self, monitor, unit=None, config=None, err=None, sample=None, n=1):
        m = self.mon(monitor)
        m["checked"] += n
        if err is not None and np.isfinite(err) and err > m["worst"]:
            m["worst"] = float(err)
            m["worst_at"] = str(config if config is not None else unit)
        if unit is not None:
            for u in unit if isinstance(unit, (list, tuple)) else [unit]:
                self.units[u] += n
        if config is not None:
            self.configs.add(str(config))
        if sample is not None and len(self.samples) < MAX_SAMPLES:
            self.samples.append(jsonable(sample))

    def skip(self, monitor, reason, n=1):
        self.mon(monitor)["skipped"][reason] += n

    def fail(self, monitor, key, what, detail=None, unit=None):
        m = self.mon(monitor)
        m["checked"] += 1
        m["violations"] += 1
        if unit is not None:
            self.units[unit] += 1
        v = self.violations.get(key)
        if v is None:
            self.violations[key] = {
                "key": key,
                "monitor": monitor,
                "what": what,
                "detail": jsonable(detail),
                "case": self.case_id,
                "count": 1,
            }
        else:
            v["count"] += 1

    def compare(
        self, monitor, key, err, tol, what, unit=None, config=None, detail=None,
        sample=None,
    ):
        """Judge one scalar error measure against its tolerance."""
        if not np.isfinite(err) or err > tol:
            d = {"error": err, "tolerance": tol}
            if detail:
                d.update(detail)
            self.fail(monitor, key, "%s (error %.3e > tol %.1e)" % (what, err, tol), d, unit=unit)
            return False
        self.ok(monitor, unit=unit, config=config, err=err / tol if tol > 0 else 0.0, sample=sample)
        return True

    def note(self, text, n=1):
        self.notes[text] += n

    def error(self, where, exc_text):
        self.errors.append({"case": where, "error": exc_text[-1500:]})

    # ------------------------------------------------------------ transport
    def to_dict(self):
        mons = {}
        for k, m in self.monitors.items():
            mm = dict(m)
            mm["skipped"] = dict(m["skipped"])
            mons[k] = mm
        return {
            "monitors": mons,
            "configs": sorted(self.configs),
            "units": dict(self.units),
            "samples": self.samples,
            "violations": self.violations,
            "errors": self.errors,
            "notes": dict(self.notes),
            "cases_run": self.cases_run,
            "extra": jsonable(self.extra),
        }

    def merge(self, d):
        for k, m in d.get("monitors", {}).items():
            mine = self.mon(k)
            mine["seen"] += m["seen"]
            mine["checked"] += m["checked"]
            mine["violations"] += m["violations"]
            for r, n in m["skipped"].items():
                mine["skipped"][r] += n
            if m.get("worst", 0) > mine["worst"]:
                mine["worst"] = m["worst"]
                mine["worst_at"] = m.get("worst_at")
        self.configs.update(d.get("configs", []))
        for u, n in d.get("units", {}).items():
            self.units[u] += n
        for s in d.get("samples", []):
            if len(self.samples) < MAX_SAMPLES:
                self.samples.append(s)
        for key, v in d.get("violations", {}).items():
            if key in self.violations:
                self.violations[key]["count"] += v["count"]
            else:
                self.violations[key] = v
        self.errors.extend(d.get("errors", []))
        for t, n in d.get("notes", {}).items():
            self.notes[t] += n
        self.cases_run += d.get("cases_run", 0)
        for k, v in d.get("extra", {}).items():
            if isinstance(v, (int, float)) and isinstance(self.extra.get(k, 0), (int, float)):
                self.extra[k] = self.extra.get(k, 0) + v
            elif isinstance(v, list):
                self.extra.setdefault(k, [])
                for x in v:
                    if x not in self.extra[k]:
                        self.extra[k].append(x)
            else:
                self.extra[k] = v

    # ------------------------------------------------------------- verdict
    def finish(self, spec, repo_info=None, write=True, inconclusive_reasons=()):
        """Print verdict lines, write evidence and replays, return exit code."""
        pid = self.pid
        known = load_known(pid)
        required = list(spec.get("required_units", []))
        unreached = [u for u in required if self.units.get(u, 0) == 0]
        reasons = list(inconclusive_reasons)
        if unreached:
            reasons.append("must-reach units with zero checked evaluations: " + ", ".join(unreached[:12]))
        total_checked = sum(m["checked"] for m in self.monitors.values())
        if total_checked == 0:
            reasons.append("no monitor made a single comparison")
        if self.errors:
            reasons.append(
                "%d case(s) raised unexpectedly, first: %s :: %s"
                % (len(self.errors), self.errors[0]["case"], self.errors[0]["error"].strip().splitlines()[-1][:300])
            )

        new, hit = [], []
        for key, v in sorted(self.violations.items()):
            (hit if key in known else new).append(v)

        lines = []
        for v in hit:
            lines.append("KNOWN-FINDING: property=%s %s [key=%s]" % (pid, known[v["key"]], v["key"]))
        if write:
            rdir = os.path.join(ROOT, "replays", pid)
            for v in new:
                os.makedirs(rdir, exist_ok=True)
                path = os.path.join(rdir, slug(v["key"]) + ".json")
                with open(path, "w") as fh:
                    json.dump(
                        {
                            "property": pid,
                            "key": v["key"],
                            "monitor": v["monitor"],
                            "what": v["what"],
                            "detail": v["detail"],
                            "case": v["case"],
                            "seed": self.seed,
                            "tier": self.tier,
                            "count": v["count"],
                            "repo": repo_info,
                        },
                        fh,
                        indent=1,
                    )
                v["replay"] = os.path.relpath(path, ROOT)
        for v in new:
            lines.append("VIOLATION property=%s replay=%s" % (pid, v.get("replay", "-")))
            lines.append("  key: %s\n  what: %s" % (v["key"], v["what"]))
        # a listed finding that was *not* observed is worth a note (not a failure)
        stale = [k for k in known if k not in self.violations]

        if new:
            code = 1
        elif reasons:
            code = 2
            for r in reasons:
                lines.append("INCONCLUSIVE property=%s reason=%s" % (pid, r))
        else:
            code = 0

        wall = time.time() - self.t0
        if write:
            self._write_evidence(spec, required, unreached, hit, new, stale, reasons, wall, repo_info)
        summary = "%s tier=%s seed=%d: %d cases, %d comparisons by %d monitors, %d distinct configurations, %d violation key(s) (%d known), %.1fs -> %s" % (
            pid, self.tier, self.seed, self.cases_run, total_checked, len(self.monitors),
            len(self.configs), len(self.violations), len(hit), wall,
            {0: "HELD on what was observed", 1: "VIOLATED", 2: "INCONCLUSIVE"}[code],
        )
        lines.append(summary)
        print("\n".join(lines), flush=True)
        return code

    def _write_evidence(self, spec, required, unreached, hit, new, stale, reasons, wall, repo_info):
        mons = {}
        for k, m in sorted(self.monitors.items()):
            mons[k] = {
                "seen": m["seen"],
                "checked": m["checked"],
                "skipped_precondition": dict(m["skipped"]),
                "violations": m["violations"],
                "worst_error_over_tolerance": m["worst"],
                "worst_at": m["worst_at"],
            }
        total_checked = sum(m["checked"] for m in self.monitors.values())
        cov = {
            "evaluations": int(total_checked),
            "distinct_nontrivial": int(len(self.configs)),
            "rule": spec.get("rule", ""),
            "samples": self.samples if self.samples else [{"note": "no sample recorded"}],
            "exhaustive": bool(spec.get("exhaustive", False)),
            "cases_run": self.cases_run,
            "monitors": mons,
            "must_reach": {u: int(self.units.get(u, 0)) for u in required},
            "must_reach_unreached": unreached,
            "units_reached": {u: int(n) for u, n in sorted(self.units.items())},
            "configurations": sorted(self.configs)[:400],
            "verdict": "violated" if new else ("inconclusive" if reasons else "held on what was observed"),
            "inconclusive_reasons": reasons,
            "known_findings_hit": [{"key": v["key"], "count": v["count"], "what": v["what"]} for v in hit],
            "known_findings_not_observed_in_this_run": stale,
            "new_violations": [{"key": v["key"], "what": v["what"], "replay": v.get("replay")} for v in new],
            "notes": dict(self.notes),
            "errors": self.errors[:10],
            "repo": repo_info,
        }
        cov.update(self.extra)
        ev = {
            "property_id": self.pid,
            "tier": self.tier,
            "seed": self.seed,
            "level": "exploration",
            "coverage": jsonable(cov, maxlen=400),
            "assumptions": spec.get("assumptions", []),
            "wall_s": round(wall, 2),
            "violations": len(new),
        }
        os.makedirs(os.path.join(ROOT, "evidence"), exist_ok=True)
        path = os.path.join(ROOT, "evidence", self.pid + ".json")
        tmp = path + ".tmp"
        with open(tmp, "w") as fh:
            json.dump(ev, fh, indent=1, sort_keys=False)
            fh.write("\n")
        os.replace(tmp, path)
