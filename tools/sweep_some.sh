#!/bin/bash
# sweep_some.sh "<checks>" "<seeds>" "<tiers>" : like sweep.sh for a subset of the checks
checks=$1; seeds=${2:-"0 1 2 3"}; tiers=${3:-"quick thorough"}
export PYTHONHASHSEED=0
./vcheck --setup > /dev/null 2>&1
for tier in $tiers; do for seed in $seeds; do for c in $checks; do
  out=$(VERIF_SEED=$seed ./vcheck $c --tier $tier 2>&1); code=$?
  if [ $code -ne 0 ]; then echo "ALARM $c tier=$tier seed=$seed exit=$code"; echo "$out" | grep "VIOLATION\|INCONCLUSIVE\|key:\|what:" | head -8 | cut -c1-400; else echo "ok $c $tier $seed $(echo "$out" | tail -1 | sed 's/.*comparisons/comparisons/' | cut -c1-90)"; fi
done; done; done
