#!/bin/bash
# seedmatrix.sh <outfile> <worktree-root> <seed ids...> : run all 20 quick checks against each seeded worktree (<root>/<id>)
out=$1; root=$2; shift; shift
mkdir -p /tmp/seedmatrix_logs
for s in "$@"; do
  line="$s:"
  for i in $(seq -w 1 20); do
    VERIF_REPO=$root/$s VERIF_RIDEALONG=0 VERIF_NO_EVIDENCE=1 VERIF_JOBS=${VERIF_JOBS:-4} ./vcheck C$i --tier quick > /tmp/seedmatrix_logs/$(basename $root)_${s}_C$i.log 2>&1; code=$?
    if [ $code -eq 1 ]; then line="$line C$i"; elif [ $code -eq 2 ]; then line="$line (C$i:inconclusive)"; fi
  done
  echo "$line" >> $out
done
