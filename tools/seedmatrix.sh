#!/bin/bash
# seedmatrix.sh <outfile> <seed ids...> : run all 20 quick checks against each seeded worktree (/tmp/seedwt/<id>)
out=$1; shift
for s in "$@"; do
  line="$s:"
  for i in $(seq -w 1 20); do
    VERIF_REPO=/tmp/seedwt/$s VERIF_RIDEALONG=0 VERIF_NO_EVIDENCE=1 VERIF_JOBS=4 ./vcheck C$i --tier quick > /tmp/seedout/matrix_$s_C$i.log 2>&1; code=$?
    if [ $code -eq 1 ]; then line="$line C$i"; elif [ $code -eq 2 ]; then line="$line (C$i:inconclusive)"; fi
  done
  echo "$line" >> $out
done
