#!/bin/bash
# run every check of the manifest (tier from $1, default quick) and print one line each
tier=${1:-quick}
for i in $(seq -w 1 20); do
  out=$(./vcheck C$i --tier $tier 2>&1); code=$?
  echo "C$i exit=$code $(echo "$out" | tail -1 | cut -c1-170)"
  if [ $code -ne 0 ]; then echo "$out" | grep "VIOLATION\|INCONCLUSIVE\|key:" | head -5 | cut -c1-300; fi
done
