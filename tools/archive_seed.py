#!/venv/bin/python
"""archive_seed.py <Cxx> <name> <caught_by comma list> <note>  -- copy a verified seed from /tmp/seedout into /verif/seeded/<Cxx>-<name>/"""
import json, os, shutil, sys, re
pid, name, caught, note = sys.argv[1:5]
SEEDOUT = os.environ.get("SEEDOUT", "/tmp/seedout")
src = SEEDOUT + "/" + pid
dst = os.path.join(os.path.dirname(os.path.dirname(os.path.abspath(__file__))), "seeded", "%s-%s" % (pid, name))
os.makedirs(dst, exist_ok=True)
shutil.copy(os.path.join(src, "patch.diff"), dst)
shutil.copy(os.path.join(src, "demo.py"), dst)
meta = json.load(open(os.path.join(src, "meta.json")))
ver = [l for l in open(SEEDOUT + "/verify.log") if l.startswith(pid + " ")]
m = re.search(r"demo_orig=(\d+) demo_changed=(\d+) tests: (.*)", ver[-1]) if ver else None
meta["confirmed_by_me"] = {
    "demo_on_original_exit": int(m.group(1)) if m else None, "demo_with_change_exit": int(m.group(2)) if m else None,
    "repository_test_suite_with_change": m.group(3).strip() if m else None,
    "how": "scratch worktree of /repo with the patch applied; PYTHONPATH=<worktree>/src /venv/bin/python demo.py; pytest -q -p no:cacheprovider (serial) in the worktree",
}
meta["checks_that_catch_it"] = [c for c in caught.split(",") if c]
meta["how_checked"] = "VERIF_REPO=<worktree> ./vcheck <id> --tier quick  (exit 1 with VIOLATION lines); also git -C /repo apply patch.diff / vcheck / git -C /repo checkout -- ."
meta["note"] = note
meta["base_commit"] = os.popen("git -C %s rev-parse HEAD" % os.environ.get("SEEDWT", "/repo")).read().strip()
json.dump(meta, open(os.path.join(dst, "meta.json"), "w"), indent=1)
print(dst)
