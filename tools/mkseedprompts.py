#!/venv/bin/python
"""mkseedprompts.py <round> <worktree-root> <out-root> : write one prompt per property for a fresh sub-agent that seeds a
property-breaking change (the prompt contains the property text and the one-line descriptions of the earlier seeded changes
for that property, nothing else from /verif)."""
import glob, json, os, sys
rnd, wtroot, outroot = sys.argv[1:4]
here = os.path.dirname(os.path.dirname(os.path.abspath(__file__)))
props = [json.loads(l) for l in open(os.path.join(here, "properties.jsonl"))]
TEMPLATE = open(os.path.join(here, "tools", "seedprompt.template.txt")).read()
os.makedirs(outroot, exist_ok=True)
for p in props:
    pid = p["id"]
    earlier = []
    for d in sorted(glob.glob(os.path.join(here, "seeded", pid + "-*"))):
        m = json.load(open(os.path.join(d, "meta.json")))
        earlier.append("- files %s: %s" % (m.get("files_changed"), " ".join(str(m.get("what", "")).split())[:420]))
    note = ""
    if earlier:
        note = ("NOTE: other developers already produced these changes for this property:\n" + "\n".join(earlier) +
                "\nYours must be CLEARLY DIFFERENT from all of them: another file or function, another clause of the property, "
                "another mechanism (prefer a clause of the statement, or a member of its quantifier, that none of the earlier changes touched).\n")
    a = p.get("anchors", {})
    text = TEMPLATE.format(WT=os.path.join(wtroot, pid), OUT=os.path.join(outroot, pid), ID=pid, TITLE=p["title"], STATEMENT=p["statement"],
                           QUANT=p["quantifier"]["text"], WHY=p.get("why_tests_cant", ""), FILES=", ".join(a.get("files", [])),
                           MECH="; ".join("%s (%s)" % (m.get("name", ""), m.get("where", "")) for m in a.get("mechanism", [])),
                           NOTE=note)
    open(os.path.join(outroot, pid + ".prompt.txt"), "w").write(text)
print("wrote", len(props), "prompts to", outroot)
