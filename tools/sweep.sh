#!/bin/bash
# sweep.sh "<seeds>" "<tiers>" : run every check for several seeds / tiers on the unchanged tree and report non-zero exits
seeds=${1:-"0 1 2 3"}; tiers=${2:-"quick thorough"}
export PYTHONHASHSEED=0
./vcheck --setup > /dev/null 2>&1
for tier in $tiers; do for seed in $seeds; do for i in $(seq -w 1 20); do
  out=$(VERIF_SEED=$seed ./vcheck C$i --tier $tier 2>&1); code=$?
  if [ $code -ne 0 ]; then echo "ALARM C$i tier=$tier seed=$seed exit=$code"; echo "$out" | grep "VIOLATION\|INCONCLUSIVE\|key:\|what:" | head -8 | cut -c1-400; else echo "ok C$i $tier $seed $(echo "$out" | tail -1 | sed 's/.*comparisons/comparisons/' | cut -c1-90)"; fi
done; done; done
