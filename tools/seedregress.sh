#!/bin/bash
# seedregress.sh <outfile> <worktree> <seed dirs...> : re-apply archived seeded changes on the current /repo HEAD (3-way) in a
# scratch worktree and run each one's target check (quick); one line per seed: <dir> exit=<code> | apply-failed
out=$1; wt=$2; shift; shift
for d in "$@"; do
  name=$(basename $d); pid=${name%%-*}
  git -C $wt reset -q --hard ; git -C $wt clean -fdq
  if git -C $wt apply --3way $d/patch.diff > /dev/null 2>&1 || git -C $wt apply $d/patch.diff > /dev/null 2>&1; then
    git -C $wt reset -q   # keep the change in the working tree only
    VERIF_REPO=$wt VERIF_RIDEALONG=0 VERIF_NO_EVIDENCE=1 VERIF_JOBS=${VERIF_JOBS:-4} ./vcheck $pid --tier quick > /tmp/seedregress_$name.log 2>&1; code=$?
    echo "$name exit=$code" >> $out
  else
    echo "$name apply-failed" >> $out
  fi
done
git -C $wt reset -q --hard ; git -C $wt clean -fdq
