#!/venv/bin/python
"""Regenerate MANIFEST.json from the table below (claimed checks = modules present in vmon/checks)."""
import json, os
ROOT = os.path.dirname(os.path.dirname(os.path.abspath(__file__)))
BASELINE = "cd /repo && /venv/bin/python -m pytest -ra -q -p no:cacheprovider --timeout=900 --continue-on-collection-errors"
T_DEFAULT = "runtime monitors at API boundaries comparing every observed result with an independent reference oracle"
TABLE = {
 "C01": ("held on N generated item/field/mesh/material configurations: the matrix returned by jac_items is compared with central differences (two step sizes) of fun_items on deep copies; symmetry for conservative items", "4 C01", "finite-difference monitor on jac_items/fun_items (runtime oracle), generated hostile workloads"),
 "C02": ("held on N generated integrands/fields/block layouts: every assembled entry is compared with naive loops over cells, quadrature points, basis functions and components; parallel/threaded paths under injected thread yields", "4 C02", "reference-model monitor (naive-loop assembly) on IntegralForm/Form results + thread-schedule stress with sys.monitoring yield injection"),
 "C03": ("held on N (model, state, parameter) samples: stress vs central differences of energy, elasticity vs central differences of stress at fixed state variables, all blocks of mixed forms", "4 C03", "finite-difference monitor on umat.function/gradient/hessian"),
 "C04": ("complete enumeration of the element classes and Lagrange orders; derivative and completeness relations decided as polynomial coefficient identities under an observed degree bound", "4 C04", "polynomial-identity monitor on element.function/gradient/hessian (Chebyshev interpolation of observed values) + finite-difference cross-check"),
 "C05": ("complete enumeration of schemes/orders/dims: every monomial up to the documented degree compared with its closed-form integral; points inside, weights = measure; constructor post-hooks validate every scheme built", "4 C05", "post-condition monitor on quadrature scheme constructors vs closed-form monomial integrals"),
 "C06": ("held on N generated meshes (affine, distorted, curved) x all region templates: volumes, analytic polynomial reproduction of value/gradient/hessian, structural invariants in a Region.reload post-hook, warning clause", "4 C06", "post-hook monitor on Region.reload / Field.interpolate/grad/hess vs analytic polynomials and generator-known volumes"),
 "C07": ("held on N Newton solves: post-condition monitor re-assembles the residual from fresh item copies, checks prescribed values, per-solve reduced system, raise-on-failure and no commit of state variables", "4 C07", "pre/post-condition monitor on newtonrhapson/solve with independent re-assembly; failure injection"),
 "C08": ("held on N generated meshes/containers/boundary dictionaries: dof sets and value vectors compared with a 10-line numbering model; load cases vs documented planes", "4 C08", "reference-model monitor (global numbering model) on dof.partition/apply, values, container updates, single-entry assembly"),
 "C09": ("held on N end-to-end jobs: nodal displacements vs the affine map, uniform F, recorded reaction force vs closed-form P*A0 for five materials", "4 C09", "end-to-end monitor on CharacteristicCurve/Newton results vs closed-form homogeneous solutions"),
 "C10": ("held on N paired formulations: plane strain vs 3D slab, axisymmetric forces vs energy derivative, condensed vs explicit three-field solution, uniform vs general region", "4 C10", "differential monitor between reduced and full formulations on identical states"),
 "C11": ("held on N (model, F, rotation) samples: objectivity, symmetry of P F^T, stress-free reference, major symmetry, material isotropy", "4 C11", "invariance monitor on umat.gradient/hessian under random rotations"),
 "C12": ("held on N (pair, state, parameter) samples: sibling implementations agree; initial moduli at F=I equal the documented closed forms", "4 C12", "differential monitor between duplicate implementations + documented initial moduli"),
 "C13": ("held on N generated meshes x 6 cell types: unit outward normals, orthogonal tangents, closure, flux = dim*V, per-cell closure, mask semantics", "4 C13", "post-hook monitor on RegionBoundary construction vs surface/volume identities"),
 "C14": ("held on N generated states/items: force and moment sums, load resultants, mass matrix symmetric PSD with total mass", "4 C14", "conservation monitor on assemble.vector/mass vs statics"),
 "C15": ("held on N generated load histories: event log of step/job/newton/commit events replayed against the trace specification; material history clauses", "4 C15", "offline trace checker over recorded step/newton/commit event logs + history oracles"),
 "C16": ("held on N generated transformation programs: oracle-side cell volumes/orientation, intended measures, centroid placement, merge semantics", "4 C16", "post-hook monitor on mesh generators/tools vs oracle-side cell volumes and centroid formulas"),
 "C17": ("held on N generated batches per routine/mode/flag: per-item numpy.linalg/einsum reference; inputs unchanged; out/parallel variants", "4 C17", "icontract post-conditions on felupe.math routines vs per-item numpy references"),
 "C18": ("held on N modal analyses: eigen-residual with re-assembled K and M, zero on prescribed unknowns, frequency, rigid-mode count, rigid-motion invariance", "4 C18", "post-condition monitor on FreeVibration.evaluate/extract with independently re-assembled K, M"),
 "C19": ("held on N generated regions/states: project/extrapolate/topoints vs definitions, stress definitions, view cell data vs quadrature means, force/moment sums", "4 C19", "reference monitor on post-processing results vs their definitions"),
 "C20": ("held on N written files: meshes and job time series re-read with meshio and compared with the in-memory sequence captured by the event log", "4 C20", "offline checker: files re-read and compared with recorded in-memory substeps"),
}
def main():
    props = [json.loads(l) for l in open(os.path.join(ROOT, "properties.jsonl"))]
    checks, na = [], []
    for p in props:
        pid = p["id"]
        if os.path.exists(os.path.join(ROOT, "vmon", "checks", pid + ".py")):
            text, ref, tech = TABLE[pid]
            checks.append({
                "property_id": pid,
                "quick_cmd": "./vcheck %s --tier quick" % pid,
                "thorough_cmd": "./vcheck %s --tier thorough" % pid,
                "evidence_file": "evidence/%s.json" % pid,
                "replay_cmd_template": "./vcheck %s --replay {path}" % pid,
                "engine": "vmon",
                "level_claimed": {"category": "exploration", "text": text, "design_ref": "DESIGN.md section " + ref},
                "level_note": "trusted: NumPy/SciPy reference routines, the oracle code in vmon/, tolerance policy of DESIGN.md 3.5; says nothing about inputs outside the generated families (listed in the evidence)",
                "technique": tech,
            })
        else:
            na.append({"property_id": pid, "reason": "check not built yet in this session (planned, see DESIGN.md section 4 %s); no claim is made" % pid})
    man = {
        "version": 1,
        "setup_cmd": "./vcheck --setup",
        "hooks": {
            "guard": "FELUPE_VERIF",
            "enable": "none needed: monitors attach from /verif/vmon at run time by wrapping/rebinding the real functions imported from /repo/src; the repository contains no hook code",
            "baseline_off_cmd": BASELINE,
            "source_commits": [],
            "add_only": True,
        },
        "engines": [{"name": "vmon", "path": "vmon/", "serves_properties": [c["property_id"] for c in checks],
                     "kind_free_text": "runtime monitors (wrappers, post-conditions, event-log trace checker, thread-schedule stress) driven by seeded workloads"}],
        "checks": checks,
        "not_applicable": na,
        "notes": "Exit codes: 0 held on what was observed, 1 VIOLATION, 2 INCONCLUSIVE (a deciding monitor was never reached or a watchdog fired). Known findings: KNOWN_FINDINGS.txt. VERIF_SEED/VERIF_TIER/VERIF_JOBS/VERIF_REPO are honoured.",
    }
    if not na:
        del man["not_applicable"]
    json.dump(man, open(os.path.join(ROOT, "MANIFEST.json"), "w"), indent=1)
    print("claimed", len(checks), "not_applicable", len(na))
main()
