#!/bin/bash
# benignregress.sh <outfile> <worktree> <benign dirs...> : re-apply archived behaviour-preserving changes on the current /repo HEAD (3-way) in a
# scratch worktree and run ALL 20 quick checks against each; one line per change set: <dir>: <checks that exit 1> (<checks that exit 2>) | apply-failed
out=$1; wt=$2; shift; shift
for d in "$@"; do
  name=$(basename $d)
  git -C $wt reset -q --hard ; git -C $wt clean -fdq
  if git -C $wt apply --3way $d/patch.diff > /dev/null 2>&1 || git -C $wt apply $d/patch.diff > /dev/null 2>&1; then
    git -C $wt reset -q
    line="$name:"
    for i in ${CHECKS:-$(seq -w 1 20)}; do
      VERIF_REPO=$wt VERIF_RIDEALONG=0 VERIF_NO_EVIDENCE=1 VERIF_JOBS=${VERIF_JOBS:-4} ./vcheck C$i --tier quick > /tmp/benignregress_${name}_C$i.log 2>&1; code=$?
      if [ $code -eq 1 ]; then line="$line C$i"; elif [ $code -eq 2 ]; then line="$line (C$i:inconclusive)"; fi
    done
    echo "$line" >> $out
  else
    echo "$name: apply-failed" >> $out
  fi
done
git -C $wt reset -q --hard ; git -C $wt clean -fdq
