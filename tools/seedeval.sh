#!/bin/bash
# usage: tools/seedeval.sh <worktree-or-patched-repo> <property ids...>   -- run quick checks against a scratch tree
WT=$1; shift
for pid in "$@"; do
  out=$(VERIF_REPO=$WT VERIF_RIDEALONG=0 VERIF_NO_EVIDENCE=1 ./vcheck $pid --tier ${TIER:-quick} 2>&1)
  code=$?
  echo "[$pid exit=$code] $(echo "$out" | grep -c '^VIOLATION') violation line(s): $(echo "$out" | grep 'key:' | head -3 | tr '\n' ';')"
  echo "$out" | grep "INCONCLUSIVE" | head -2 | cut -c1-300
done
